"""C10 - TaxonNamespace: stable one-to-one taxon/bit map, exact label lookups."""
import copy
import random
import warnings

from dv import core
from dv.core import cz, cbool, clist, copt, cpair

HEADER = "From DV Require Import Model.PyPrims Model.C10Model.\nFrom Coq Require Import ZArith. Open Scope Z_scope."

POOLS = [
    ["a", "A", "b", "B", "ab", "Ab", "AB", "c"],
    ["x1", "X1", "x2", "y", "Y", "z"],
    ["Homo", "homo", "HOMO", "Pan", "pan", "Gorilla", "Pongo"],
    ["t1", "t2", "t3", "T1", "T2", "t10"],
    # letters whose str.lower(), str.casefold() and str.upper() disagree (sharp s, final sigma, dotted I):
    # case-insensitive matching must use ONE normal form on both sides
    ["Straße", "STRASSE", "straße", "strasse", "Weg", "weg"],
    ["ΟΔΟΣ", "οδος", "οδοσ", "Οδος", "α", "Α"],
    ["İzmir", "izmir", "Izmir", "ızmir", "Straße", "ΟΔΟΣ", "οδος", "b"],
    # the EMPTY label is a label like any other (falsy in Python: `if not label` is not `label is None`)
    ["", "a", "A", "b", "B"],
    ["", "t1", "T1", "t2", "0", "x"],
    ["", "Homo", "homo", "Pan"],
]


class _Sim(object):
    """Naive re-implementation of the namespace bookkeeping, used ONLY to steer the generator
    towards interesting states (members, live bits, matching labels). If it were wrong the
    cases would merely become less interesting: nothing is compared against it."""

    def __init__(self, pool, free, cs):
        self.pool = pool
        self.nobj = len(free)
        self.label = {i: l for i, l in enumerate(free)}
        self.members = []
        self.idx = {}
        self.count = 0
        self.mutable = True
        self.cs = cs

    def match(self, l, cs):
        c = self.cs if cs is None else cs
        p = self.pool
        if c:
            return [t for t in self.members if p[self.label[t]] == p[l]]
        return [t for t in self.members if p[self.label[t]].lower() == p[l].lower()]

    def _add(self, t):
        if t in self.idx or not self.mutable:
            return
        self.members.append(t)
        self.idx[t] = self.count
        self.count += 1

    def _new(self, l):
        if not self.mutable:
            return
        t = self.nobj
        self.nobj += 1
        self.label[t] = l
        self._add(t)

    def _remove(self, t):
        if t in self.members:
            self.members.remove(t)
            self.idx.pop(t, None)

    def apply(self, op):
        n = op[0]
        if n == "NewTaxon":
            self._new(op[1])
        elif n == "NewTaxa":
            for l in op[1]:
                self._new(l)
        elif n == "RequireTaxon":
            if not self.match(op[1], op[2]):
                self._new(op[1])
        elif n == "AddTaxon":
            if op[1] < self.nobj:
                self._add(op[1])
        elif n in ("AddTaxa", "AddTaxaAbort"):
            if all(t < self.nobj for t in op[1]):
                for t in op[1]:
                    self._add(t)
        elif n == "NewTaxaAbort":
            for l in op[1]:
                self._new(l)
        elif n == "RemoveTaxon":
            self._remove(op[1])
        elif n in ("RemoveLabel", "DiscardLabel"):
            m = self.match(op[1], op[2])
            for t in (m[:1] if op[3] else m):
                self._remove(t)
        elif n == "Clear":
            self.members = []
            self.idx = {}
        elif n == "Sort":
            self.members.sort(key=lambda t: self.pool[self.label[t]], reverse=op[1])
        elif n == "Reverse":
            self.members.reverse()
        elif n == "Relabel":
            if op[1] < self.nobj:
                self.label[op[1]] = op[2]
        elif n == "SetMutable":
            self.mutable = op[1]
        elif n == "SetCS":
            self.cs = op[1]
        elif n == "DeepCopy":
            new = {}
            for t in self.members:
                new[t] = self.nobj
                self.label[self.nobj] = self.label[t]
                self.nobj += 1
            self.idx = {new[t]: self.idx[t] for t in self.members}
            self.members = [new[t] for t in self.members]


def gen_case(rng, maxlen, abort=0.0):
    pool = sorted(set(rng.choice(POOLS)))
    nfree = rng.randint(0, 4)
    free = [rng.randrange(len(pool)) for _ in range(nfree)]
    cs = rng.random() < 0.4
    n = rng.randint(1, maxlen)
    sim = _Sim(pool, free, cs)
    ops = []
    pending = []

    def L():
        # a label that is present (possibly as a case variant) 60% of the time
        if sim.members and rng.random() < 0.6:
            l = sim.label[rng.choice(sim.members)]
            if rng.random() < 0.4:
                vs = [i for i, s in enumerate(pool) if s.lower() == pool[l].lower()]
                l = rng.choice(vs)
            return l
        return rng.randrange(len(pool))

    def CS():
        return rng.choice([None, None, True, False])

    def T():
        r = rng.random()
        if sim.members and r < 0.65:
            return rng.choice(sim.members)
        if sim.nobj and r < 0.97:
            return rng.randrange(sim.nobj)
        return rng.randrange(sim.nobj + 2)      # may not exist yet: the harness skips the op

    def repeats(xs):
        # the SAME element several times inside one batch argument
        xs = list(xs)
        if xs and rng.random() < 0.45:
            for _ in range(rng.randint(1, 2)):
                xs.insert(rng.randint(0, len(xs)), rng.choice(xs))
        return xs

    def batch():
        # argument of add_taxa: existing Taxon objects - non-members (repeated more often than not),
        # members, rarely an object that does not exist yet (op skipped)
        out = []
        non = [t for t in range(sim.nobj) if t not in sim.idx]
        for _ in range(rng.randint(0, 4)):
            r = rng.random()
            if non and r < 0.55:
                out.append(rng.choice(non))
            elif sim.members and r < 0.9:
                out.append(rng.choice(sim.members))
            elif sim.nobj:
                out.append(rng.randrange(sim.nobj))
        if rng.random() < 0.02:
            out.append(sim.nobj + 1)
        picked_non = [t for t in out if t not in sim.idx]
        if picked_non and rng.random() < 0.6:
            for _ in range(rng.randint(1, 2)):
                out.insert(rng.randint(0, len(out)), rng.choice(picked_non))
        elif out and rng.random() < 0.3:
            out.insert(rng.randint(0, len(out)), rng.choice(out))
        return out

    def live_subset():
        live = [sim.idx[t] for t in sim.members]
        k = rng.randint(0, len(live))
        m = 0
        for i in rng.sample(live, k):
            m |= 1 << i
        return m

    def mask():
        r = rng.random()
        allm = (1 << sim.count) - 1
        if r < 0.55:
            return live_subset()
        if r < 0.70:
            return rng.getrandbits(rng.randint(0, sim.count + 2))
        if r < 0.78:
            return 0
        if r < 0.88:
            return allm
        if r < 0.94:
            return allm & ~live_subset()
        return live_subset() | (1 << rng.randint(0, sim.count + 1))

    if rng.random() < 0.7:
        # start from a populated namespace
        pending.append(["NewTaxa", [rng.randrange(len(pool)) for _ in range(rng.randint(2, 7))]])
        if nfree >= 2 and rng.random() < 0.3:
            # pooled Taxon objects, some of them more than once (e.g. the leaf taxa of several trees)
            pending.append(["AddTaxa", [rng.randrange(nfree) for _ in range(rng.randint(2, 5))], rng.randrange(3)])
    def abort_op():
        # a batch addition that FAILS part-way (after k >= 0 elements were handed over), followed by further additions
        if rng.random() < 0.7:
            non = [t for t in range(sim.nobj) if t not in sim.idx]
            good = batch()
            if non and rng.random() < 0.6:
                good.insert(rng.randint(0, len(good)), rng.choice(non))
            tail = [rng.randrange(sim.nobj) for _ in range(rng.randint(0, 2))] if sim.nobj else []
            op = ["AddTaxaAbort", good, rng.randrange(4), tail]
        else:
            op = ["NewTaxaAbort", repeats([L() for _ in range(rng.randint(0, 3))]), rng.choice([0, 2, 3])]
        for _ in range(rng.randint(0, 2)):
            r = rng.random()
            if r < 0.4:
                pending.append(["NewTaxon", L()])
            elif r < 0.6:
                pending.append(["RequireTaxon", rng.randrange(len(pool)), CS()])
            elif r < 0.8:
                pending.append(["AddTaxa", batch(), rng.randrange(3)])
            else:
                pending.append(["AddTaxon", T(), rng.randrange(3)])
        return op

    while len(ops) < n:
        if pending:
            op = pending.pop(0)
        elif abort and rng.random() < abort:
            op = abort_op()
        else:
            k = rng.random()
            if k < 0.10:
                op = ["NewTaxon", L()]
            elif k < 0.14:
                op = ["AddTaxa", batch(), rng.randrange(3)]
            elif k < 0.19:
                op = ["NewTaxa", repeats([L() for _ in range(rng.randint(0, 3))])]
            elif k < 0.27:
                op = ["RequireTaxon", L(), CS()]
            elif k < 0.32:
                op = ["AddTaxon", T(), rng.randrange(3)]
            elif k < 0.375:
                op = ["RemoveTaxon", T(), rng.randrange(3)]
            elif k < 0.41:
                op = ["RemoveLabel", L(), CS(), rng.random() < 0.6]
            elif k < 0.445:
                op = ["DiscardLabel", L(), CS(), rng.random() < 0.6]
            elif k < 0.452:
                op = ["Clear"]
            elif k < 0.505:
                op = ["NewTaxon", L()]
            elif k < 0.555:
                op = ["Sort", rng.random() < 0.4]
            elif k < 0.585:
                op = ["Reverse"]
            elif k < 0.635:
                op = ["Relabel", T(), rng.randrange(len(pool))]
            elif k < 0.665:
                op = ["GetTaxon", L(), CS()]
            elif k < 0.705:
                op = ["FindAll", L(), CS()]
            elif k < 0.725:
                op = ["HasLabel", L(), CS()]
            elif k < 0.745:
                op = ["HasLabels", repeats([L() for _ in range(rng.randint(0, 3))]), CS()]
            elif k < 0.775:
                op = ["GetTaxa", repeats([L() for _ in range(rng.randint(0, 3))]), CS(), rng.random() < 0.5]
            elif k < 0.805:
                op = ["TaxonBitmask", T()]
            elif k < 0.845:
                r = rng.random()
                if sim.members and r < 0.7:
                    ts = rng.sample(sim.members, rng.randint(0, min(4, len(sim.members))))
                elif sim.members and r < 0.85:
                    ts = [rng.choice(sim.members) for _ in range(rng.randint(1, 4))]
                else:
                    ts = [T() for _ in range(rng.randint(0, 3))]
                op = ["TaxaBitmask", ts, rng.randrange(2)]
                if all(t in sim.idx for t in ts) and rng.random() < 0.6:
                    m = 0
                    for t in ts:
                        m |= 1 << sim.idx[t]
                    pending.append(["BitmaskTaxa", m])          # the round trip
            elif k < 0.855:
                op = ["AllBitmask"]
            elif k < 0.885:
                op = ["BitmaskTaxa", mask()]
            elif k < 0.895:
                op = ["AccIndex", T()]
            elif k < 0.945:
                op = ["NewickGroups", mask(), rng.randrange(2)]
            elif k < 0.958:
                op = ["SetMutable", rng.random() < 0.5]
            elif k < 0.97:
                op = ["SetCS", rng.random() < 0.5]
            elif k < 0.985:
                op = ["CopyConstruct", rng.randrange(2)]
            else:
                op = ["DeepCopy"]
        ops.append(op)
        sim.apply(op)
    return {"pool": pool, "free": free, "cs": cs, "ops": ops}


def observe(case):
    """Run the op history on the real TaxonNamespace. Returns list of [out, state]."""
    import dendropy
    from dendropy.utility import deprecate
    if deprecate.DEPRECATION_WARNING_FILTER != "ignore":
        deprecate.configure_deprecation_warning_behavior("ignore")     # ns.remove() is a deprecated spelling
    pool = case["pool"]
    objs = []          # tid -> Taxon
    tid = {}           # id(obj) -> tid

    def reg(t):
        if id(t) not in tid:
            tid[id(t)] = len(objs)
            objs.append(t)
        return tid[id(t)]

    for li in case["free"]:
        reg(dendropy.Taxon(label=pool[li]))
    ns = dendropy.TaxonNamespace(is_case_sensitive=case["cs"])
    res = []
    for op in case["ops"]:
        name = op[0]
        kw = {}
        try:
            if name == "AddTaxon":
                if op[1] >= len(objs):
                    # a tid that does not exist yet: model treats it as a fresh foreign object;
                    # create it now so both sides agree (label: none needed -> use pool[0])
                    raise core_skip()
                v = op[2] if len(op) > 2 else 0
                if v == 1:
                    ns.append(objs[op[1]])
                elif v == 2:
                    ns.add_taxa([objs[op[1]]])
                else:
                    ns.add_taxon(objs[op[1]])
                out = ["OUnit"]
            elif name == "AddTaxa":
                if any(i >= len(objs) for i in op[1]):
                    raise core_skip()
                batch = [objs[i] for i in op[1]]
                v = op[2] if len(op) > 2 else 0
                if v == 1:
                    r = ns.add_taxa(t for t in batch)           # any iterable, e.g. a generator
                elif v == 2:
                    r = ns.add_taxa(tuple(batch))
                else:
                    r = ns.add_taxa(batch)
                assert r is None
                out = ["OUnit"]
            elif name == "AddTaxaAbort":
                # a batch that FAILS part-way: the iterable hands over the Taxon objects op[1] and then raises
                # (a generator hitting a bad row) or continues with an element that cannot be a member
                # (unhashable) followed by further taxa op[3] that are never reached
                if any(i >= len(objs) for i in op[1] + op[3]):
                    raise core_skip()
                r = ns.add_taxa(failing_iterable([objs[i] for i in op[1]], op[2], [objs[i] for i in op[3]]))
                out = ["ONoError", repr(r)]          # the batch must not succeed (reported by the oracle)
            elif name == "NewTaxaAbort":
                r = ns.new_taxa(failing_iterable([pool[i] for i in op[1]], op[2], []))
                out = ["ONoError", repr(r)]
            elif name == "NewTaxon":
                t = ns.new_taxon(pool[op[1]]); out = ["OTax", reg(t)]
            elif name == "NewTaxa":
                ts = ns.new_taxa([pool[i] for i in op[1]]); out = ["OTaxa", [reg(t) for t in ts]]
            elif name == "RequireTaxon":
                t = ns.require_taxon(pool[op[1]], is_case_sensitive=op[2]); out = ["OTax", reg(t)]
            elif name == "RemoveTaxon":
                if op[1] >= len(objs):
                    raise core_skip()
                v = op[2] if len(op) > 2 else 0
                o = objs[op[1]]
                pos = [i for i, t in enumerate(ns) if t is o]
                if v == 1 and pos:
                    del ns[pos[0]]
                elif v == 2:
                    with warnings.catch_warnings():
                        warnings.simplefilter("ignore")
                        ns.remove(o)
                else:
                    ns.remove_taxon(o)
                out = ["OUnit"]
            elif name == "RemoveLabel":
                ns.remove_taxon_label(pool[op[1]], is_case_sensitive=op[2], first_match_only=op[3]); out = ["OUnit"]
            elif name == "DiscardLabel":
                ns.discard_taxon_label(pool[op[1]], is_case_sensitive=op[2], first_match_only=op[3]); out = ["OUnit"]
            elif name == "Clear":
                ns.clear(); out = ["OUnit"]
            elif name == "Sort":
                ns.sort(reverse=op[1]); out = ["OUnit"]
            elif name == "Reverse":
                ns.reverse(); out = ["OUnit"]
            elif name == "Relabel":
                if op[1] >= len(objs):
                    raise core_skip()
                objs[op[1]].label = pool[op[2]]; out = ["OUnit"]
            elif name == "GetTaxon":
                t = ns.get_taxon(pool[op[1]], is_case_sensitive=op[2]); out = ["OTax", None if t is None else reg(t)]
            elif name == "FindAll":
                out = ["OTaxa", [reg(t) for t in ns.findall(pool[op[1]], is_case_sensitive=op[2])]]
            elif name == "HasLabel":
                out = ["OBool", bool(ns.has_taxon_label(pool[op[1]], is_case_sensitive=op[2]))]
            elif name == "HasLabels":
                out = ["OBool", bool(ns.has_taxa_labels([pool[i] for i in op[1]], is_case_sensitive=op[2]))]
            elif name == "GetTaxa":
                out = ["OTaxa", [reg(t) for t in ns.get_taxa([pool[i] for i in op[1]], is_case_sensitive=op[2], first_match_only=op[3])]]
            elif name == "TaxonBitmask":
                if op[1] >= len(objs):
                    raise core_skip()
                out = ["OInt", ns.taxon_bitmask(objs[op[1]])]
            elif name == "TaxaBitmask":
                if any(i >= len(objs) for i in op[1]):
                    raise core_skip()
                if len(op) > 2 and op[2] == 1:
                    out = ["OInt", ns.get_taxa_bitmask(taxa=[objs[i] for i in op[1]])]
                else:
                    out = ["OInt", ns.taxa_bitmask(taxa=[objs[i] for i in op[1]])]
            elif name == "AllBitmask":
                out = ["OInt", ns.all_taxa_bitmask()]
            elif name == "BitmaskTaxa":
                out = ["OTaxa", [reg(t) for t in ns.bitmask_taxa_list(op[1])]]
            elif name == "AccIndex":
                if op[1] >= len(objs):
                    raise core_skip()
                out = ["OInt", ns.accession_index(objs[op[1]])]
            elif name == "NewickGroups":
                if len(op) > 2 and op[2] == 1:
                    s = ns.split_as_newick_string(op[1])
                else:
                    s = ns.bitmask_as_newick_string(op[1])
                out = parse_groups(s, pool, ns, op[1])
            elif name == "SetMutable":
                ns.is_mutable = op[1]; out = ["OUnit"]
            elif name == "SetCS":
                ns.is_case_sensitive = op[1]; out = ["OUnit"]
            elif name == "CopyConstruct":
                if len(op) > 1 and op[1] == 1:
                    ns = copy.copy(ns)
                else:
                    ns = dendropy.TaxonNamespace(ns)
                out = ["OUnit"]
            elif name == "DeepCopy":
                ns = copy.deepcopy(ns)
                for t in ns:
                    reg(t)
                out = ["OUnit"]
            elif name == "XBitString":
                if len(op) > 2 and op[2] == 1:
                    with warnings.catch_warnings():
                        warnings.simplefilter("ignore")
                        bs = ns.split_as_string(op[1])
                else:
                    bs = ns.bitmask_as_bitstring(op[1])
                assert set(bs) <= set("01"), bs
                out = ["YBits", [c == "1" for c in bs]]
            elif name == "XLabelMap":
                d = ns.label_taxon_map(is_case_sensitive=op[1])
                out = ["YMap", [[pool.index(k), reg(v)] for k, v in d.items()]]
                # the mapping protocol agrees with items()
                assert all(d[k] is v for k, v in d.items()) and len(d) == len(out[1])
            elif name in ("XBipartition", "XBipartitionLabels"):
                kw = {}
                if op[2] is not None:
                    kw["is_rooted"] = op[2]
                if name == "XBipartition":
                    if any(i >= len(objs) for i in op[1]):
                        raise core_skip()
                    b = ns.taxa_bipartition(taxa=[objs[i] for i in op[1]], **kw)
                else:
                    b = ns.taxa_bipartition(labels=[pool[i] for i in op[1]], **kw)
                out = ["YBip", b._split_bitmask, b._leafset_bitmask, b._tree_leafset_bitmask]
                assert b.split_bitmask == out[1] and b.leafset_bitmask == out[2]
            elif name == "XTaxaBitmaskLabels":
                f = ns.get_taxa_bitmask if (len(op) > 4 and op[4] == 1) else ns.taxa_bitmask
                out = ["OInt", f(labels=[pool[i] for i in op[1]], is_case_sensitive=op[2], first_match_only=op[3])]
            elif name == "XGetItem":
                out = ["OTax", reg(ns[op[1]])]
            elif name == "XGetSlice":
                out = ["OTaxa", [reg(t) for t in ns[op[1]:op[2]]]]
            elif name == "XGetItemLabel":
                out = ["OTax", reg(ns[pool[op[1]]])]
            elif name == "XContains":
                if op[1] >= len(objs):
                    raise core_skip()
                out = ["OBool", bool(objs[op[1]] in ns)]
            elif name == "XLabels":
                out = ["OGroup1", [pool.index(x) for x in ns.labels()]]
            else:
                raise RuntimeError("unknown op " + name)
        except core_skip:
            out = ["SKIP"]
        except Exception as e:
            out = ["OErr", core.exc_enum(e)]
        state = [[reg(t), acc_index(ns, t)] for t in ns]
        # container protocol agrees with the member list (checked by the oracle)
        proto = bool(len(ns) == len(state) and all(t in ns for t in ns)
                     and all(ns[i] is t for i, t in enumerate(ns))
                     and [reg(t) for t in reversed(ns)] == [x[0] for x in reversed(state)]
                     and not any(o in ns for o in objs if not any(o is t for t in ns)))
        res.append([out, state, [pool.index(t.label) for t in ns], bool(ns.is_mutable), bool(ns.is_case_sensitive), proto,
                    ns.all_taxa_bitmask()])
    return res


class core_skip(Exception):
    pass


ABORT_KINDS = {0: "ValueErr", 1: "TypeErr", 2: "KeyErr", 3: "ValueErr"}


def failing_iterable(good, kind, tail):
    """an iterable that yields `good` and then fails: kind 0 / 2 = a generator raising ValueError / KeyError
    (a caller-side reader meeting a bad row / an unknown name), kind 1 = a LIST whose next element is
    unhashable (TypeError raised by the namespace's own membership test) followed by `tail`,
    kind 3 = an iterator object whose __next__ raises ValueError"""
    if kind == 1:
        return list(good) + [[]] + list(tail)
    if kind == 3:
        class It(object):
            def __init__(self):
                self.i = 0

            def __iter__(self):
                return self

            def __next__(self):
                if self.i >= len(good):
                    raise ValueError("bad row %d" % self.i)
                self.i += 1
                return good[self.i - 1]
        return It()

    def g():
        for x in good:
            yield x
        if kind == 2:
            raise KeyError("unknown name")
        raise ValueError("blank row")
    return g()


def acc_index(ns, t):
    """accession index of a listed taxon; -1 when the namespace has none for it (the oracle reports that)"""
    try:
        return ns.accession_index(t)
    except KeyError:
        return -1


def parse_groups(s, pool, ns=None, mask=0):
    """the label groups named by a newick rendering of a bitmask. An EMPTY label is rendered as nothing, so
    "()" is either no label or one empty label: decided by the number of members (and, for the single case
    that stays ambiguous - one member, labelled "", both groups "()" - by the member's bit)"""
    assert s.endswith(";")
    s = s[:-1]
    n = None if ns is None else len(ns)
    if s.startswith("(("):
        l, r = s[2:-2].split("), (")
        f = lambda x: [pool.index(y) for y in x.split(", ")] if x != "" else []
        gl, gr = f(l), f(r)
        if n is not None and len(gl) + len(gr) != n and "" in pool:
            e = [pool.index("")]
            if l == "" and r == "":
                if n == 2:
                    gl, gr = e, e
                elif n == 1:
                    gl, gr = (e, []) if (mask & ns.taxon_bitmask(ns[0])) else ([], e)
            elif l == "":
                gl = e
            elif r == "":
                gr = e
        return ["OGroups", gl, gr]
    body = s[1:-1]
    if body == "" and (n == 0 or (n is None and "" not in pool)):
        return ["OGroup1", []]
    return ["OGroup1", [pool.index(y) for y in body.split(",")]]


def normalise(case, obs):
    """Drop ops the harness skipped (tids that do not exist yet) - returns (ops, obs) aligned."""
    ops = [o for o, r in zip(case["ops"], obs) if r[0] != ["SKIP"]]
    ob = [r for r in obs if r[0] != ["SKIP"]]
    return ops, ob


# ---- oracle: the property, stated independently on the implementation's behaviour ----

def oracle(case, obs):
    pool = case["pool"]
    ops, ob = normalise(case, obs)
    prev = {}       # tid -> accession index while continuously a member
    prev_members = []
    labels = {i: pool[l] for i, l in enumerate(case["free"])}
    mutable = True
    cs_ns = case["cs"]
    seen = set(range(len(case["free"])))
    owned = set()       # accession indices that some member has been seen to own
    prev_all = 0        # all_taxa_bitmask() after the previous step
    for step, (op, rec) in enumerate(zip(ops, ob)):
        out, state, labs, is_mut, is_cs = rec[:5]
        if len(rec) > 5 and not rec[5]:
            return ("len / in / [] / reversed of the namespace disagree with its member list after step %d %s" % (step, op), "container-protocol")
        name = op[0]
        allm = rec[6] if len(rec) > 6 else None
        if any(i < 0 for _t, i in state):
            return ("the namespace lists a Taxon object without an accession index after step %d %s: %s" % (step, op, state), "member-without-bit:" + name)
        # Inv after every operation: the members are pairwise distinct objects ...
        if len(set(t for t, _ in state)) != len(state):
            return ("the namespace lists a Taxon object more than once after step %d %s: members %s" % (step, op, [t for t, _ in state]), "duplicate-member:" + name)
        if allm is not None:
            # ... each with one bit inside all_taxa_bitmask, and all_taxa_bitmask has no bit that never had an owner
            for t, i in state:
                if not (allm >> i) & 1:
                    return ("member %d has bit %d outside all_taxa_bitmask %d after step %d %s" % (t, 1 << i, allm, step, op), "bit-outside-all-taxa:" + name)
            owned.update(i for _t, i in state)
            orphan = [i for i in range(allm.bit_length()) if i not in owned]
            if allm & (allm + 1) or orphan:
                return ("all_taxa_bitmask %d has bits %s that no member ever owned (step %d %s)" % (allm, orphan, step, op), "all-taxa-bit-never-owned:" + name)
        idx = {}
        for t, i in state:
            if i in idx.values():
                return ("two members share accession index %d (bitmask %d) after step %d %s" % (i, 1 << i, step, op), "shared-bit")
            idx[t] = i
        members = [t for t, _ in state]
        if name != "DeepCopy":
            for t, i in state:
                if t in prev and prev[t] != i:
                    return ("member taxon %d changed bit %d -> %d at step %d %s" % (t, prev[t], i, step, op), "bit-changed:" + name)
        else:
            if [i for _, i in state] != [prev[t] for t in prev_members]:
                return ("deep copy changed the bits of the copied taxa at step %d" % step, "deepcopy-bits")
            if [pool[l] for l in labs] != [labels[t] for t in prev_members]:
                return ("deep copy changed the labels of the copied taxa at step %d" % step, "deepcopy-labels")
            if set(t for t, _ in state) & seen:
                return ("deep copy shares a Taxon object with its original at step %d" % step, "deepcopy-shared")
        if not mutable and name not in ("SetMutable", "DeepCopy", "CopyConstruct"):
            if set(members) - set(prev_members):
                return ("immutable namespace gained a member at step %d %s" % (step, op), "immutable-grew")
        # label bookkeeping (independent of the library's caches)
        cur_label = {t: pool[l] for t, l in zip(members, labs)}
        labels.update(cur_label)

        def match(l, cs):
            c = cs_ns if cs is None else cs
            return [t for t in prev_members if (labels[t] == pool[l] if c else labels[t].lower() == pool[l].lower())]

        if name == "CopyConstruct" and (out != ["OUnit"] or members != prev_members or idx != prev):
            return ("copy of the namespace differs in members or bits at step %d" % step, "copy-bits")
        if name == "Sort" and members != sorted(prev_members, key=lambda t: labels[t], reverse=op[1]):
            return ("sort did not order the members by label (stable) at step %d" % step, "sort-order")
        if name == "Reverse" and members != prev_members[::-1]:
            return ("reverse did not reverse the member order at step %d" % step, "reverse-order")
        if name == "Clear" and members:
            return ("clear left members behind at step %d" % step, "clear")
        if name == "RemoveTaxon":
            if op[1] in prev_members:
                if out != ["OUnit"] or members != [t for t in prev_members if t != op[1]]:
                    return ("remove_taxon(%d) removed %s (out %s) at step %d" % (op[1], [t for t in prev_members if t not in members], out, step), "remove-taxon")
            elif out != ["OErr", "ValueErr"] or members != prev_members:
                return ("remove_taxon of a non-member: %s, members changed: %s (step %d)" % (out, members != prev_members, step), "remove-nonmember")
        if name == "AccIndex":
            if out != (["OInt", prev[op[1]]] if op[1] in prev else ["OErr", "KeyErr"]):
                return ("accession_index(%d) = %s at step %d" % (op[1], out, step), "accession-index")
        if name == "HasLabel" and out != ["OBool", bool(match(op[1], op[2]))]:
            return ("has_taxon_label returned %s, matching members are %s (step %d %s)" % (out, match(op[1], op[2]), step, op), "has-label")
        if name == "HasLabels" and out != ["OBool", all(bool(match(l, op[2])) for l in op[1])]:
            return ("has_taxa_labels returned %s (step %d %s)" % (out, step, op), "has-labels")
        if name == "GetTaxa":
            want = []
            for l in op[1]:
                m = match(l, op[2])
                if op[3]:
                    want.extend(m[:1])
                else:
                    want.extend(t for t in m if t not in want)
            if out != ["OTaxa", want]:
                return ("get_taxa returned %s, expected %s (step %d %s)" % (out, want, step, op), "get-taxa")
        if name in ("AddTaxaAbort", "NewTaxaAbort"):
            # a batch that fails part-way: the error is the iterable's (or the namespace's own refusal, which comes
            # first and changes nothing); what was handed over before the failure is added exactly as by the
            # single-element calls; the counter covers it (all_taxa_bitmask), so later additions get fresh bits
            base_count = prev_all.bit_length()
            if out[0] != "OErr":
                return ("%s with a failing iterable did not raise: %s (step %d %s)" % (name, out, step, op), "abort-batch-no-error:" + name)
            if name == "AddTaxaAbort":
                new = []
                for t in op[1]:
                    if t not in prev_members and t not in new:
                        new.append(t)
                refused = bool(new) and not mutable
            else:
                new = members[len(prev_members):]
                refused = not mutable
                if not refused and (len(new) != len(op[1]) or set(new) & seen or [labels[t] for t in new] != [pool[l] for l in op[1]]):
                    return ("new_taxa failing after %d labels left new members %s (step %d %s)" % (len(op[1]), new, step, op), "abort-batch-members:" + name)
            if refused:
                if out != ["OErr", "TypeErr"] or members != prev_members or idx != prev or (allm is not None and allm != prev_all):
                    return ("%s on an immutable namespace: %s, members %s -> %s (step %d)" % (name, out, prev_members, members, step), "abort-batch-immutable:" + name)
            else:
                if out != ["OErr", ABORT_KINDS[op[2]]]:
                    return ("%s: the error of the iterable was turned into %s (step %d %s)" % (name, out, step, op), "abort-batch-error-kind:" + name)
                if members != prev_members + new:
                    return ("%s failing after %s: members %s -> %s (step %d)" % (name, op[1], prev_members, members, step), "abort-batch-members:" + name)
                if [idx[t] for t in new] != list(range(base_count, base_count + len(new))) or \
                        (allm is not None and allm != (1 << (base_count + len(new))) - 1):
                    return ("%s failing after %s: the %d members added before the failure have indices %s, all_taxa_bitmask %d -> %s: the counter does not cover them (step %d)"
                            % (name, op[1], len(new), [idx[t] for t in new], prev_all, allm, step), "abort-batch-counter:" + name)
        if name == "AddTaxa":
            # the batch = its distinct not-yet-member objects, once each, in the order of first occurrence
            new = []
            for t in op[1]:
                if t not in prev_members and t not in new:
                    new.append(t)
            if mutable or not new:
                base_count = prev_all.bit_length()
                if out != ["OUnit"] or members != prev_members + new:
                    return ("add_taxa(%s) to members %s gave %s, members %s (step %d)" % (op[1], prev_members, out, members, step), "add-taxa-batch-members")
                if [idx[t] for t in new] != list(range(base_count, base_count + len(new))) or \
                        (allm is not None and allm != (1 << (base_count + len(new))) - 1):
                    return ("add_taxa(%s): the %d new members got indices %s, all_taxa_bitmask %d -> %s (step %d)"
                            % (op[1], len(new), [idx[t] for t in new], prev_all, allm, step), "add-taxa-batch-bits")
            elif out != ["OErr", "TypeErr"] or members != prev_members:
                return ("add_taxa(%s) with a non-member on an immutable namespace: %s, members %s -> %s (step %d)" % (op[1], out, prev_members, members, step), "add-taxa-immutable")
        if name in ("NewTaxon", "NewTaxa") and mutable:
            k = 1 if name == "NewTaxon" else len(op[1])
            new = members[len(prev_members):]
            if members[:len(prev_members)] != prev_members or len(new) != k or set(new) & seen \
                    or [labels[t] for t in new] != [pool[l] for l in ([op[1]] if name == "NewTaxon" else op[1])]:
                return ("%s did not append exactly the new taxa (step %d %s)" % (name, step, op), "new-taxon")
        if name == "FindAll" and out[0] == "OTaxa":
            if out[1] != match(op[1], op[2]):
                return ("findall returned %s, members matching are %s (step %d %s)" % (out[1], match(op[1], op[2]), step, op), "findall")
        if name == "GetTaxon" and out[0] == "OTax":
            m = match(op[1], op[2])
            if out[1] != (m[0] if m else None):
                return ("get_taxon returned %s, first matching member is %s (step %d %s)" % (out[1], m[:1], step, op), "get_taxon")
        if name == "RequireTaxon":
            m = match(op[1], op[2])
            if m:
                if out != ["OTax", m[0]] or members != prev_members:
                    return ("require_taxon with an existing match did not return the first match unchanged (step %d %s)" % (step, op), "require-existing")
            elif mutable:
                if out[0] != "OTax" or members != prev_members + [out[1]] or labels.get(out[1]) != pool[op[1]]:
                    return ("require_taxon without a match did not create exactly one new member (step %d %s)" % (step, op), "require-new")
        if name in ("RemoveLabel", "DiscardLabel"):
            m = match(op[1], op[2])
            if m:
                gone = m[:1] if op[3] else m
                if out != ["OUnit"] or members != [t for t in prev_members if t not in gone]:
                    return ("%s removed %s instead of %s (out %s) at step %d" % (name, [t for t in prev_members if t not in members], gone, out, step), "remove-label")
        if name == "BitmaskTaxa":
            want = [i for i in range(op[1].bit_length()) if (op[1] >> i) & 1]
            if out[0] == "OTaxa":
                bits = [idx.get(t) for t in out[1]]
                if bits != want:
                    return ("bitmask_taxa_list(%d) returned taxa with bits %s" % (op[1], bits), "bitmask-taxa")
            elif all(i in idx.values() for i in want):
                return ("bitmask_taxa_list(%d) failed with %s although every bit belongs to a member" % (op[1], out), "bitmask-taxa-error")
        if name == "TaxaBitmask":
            if all(t in idx for t in op[1]):
                want = 0
                for t in op[1]:
                    want |= 1 << idx[t]
                if out != ["OInt", want]:
                    return ("taxa_bitmask returned %s, expected %d" % (out, want), "taxa-bitmask")
            elif out != ["OErr", "KeyErr"]:
                return ("taxa_bitmask with a non-member returned %s" % (out,), "taxa-bitmask-nonmember")
        if name == "TaxonBitmask" and out[0] == "OInt":
            if op[1] not in idx or out[1] != 1 << idx[op[1]]:
                return ("taxon_bitmask(%d) = %d is not the single bit of its accession index" % (op[1], out[1]), "single-bit")
        if name == "NewickGroups" and out[0] == "OGroups":
            left = [pool.index(labels[t]) for t in members if (op[1] >> idx[t]) & 1]
            right = [pool.index(labels[t]) for t in members if not (op[1] >> idx[t]) & 1]
            if out[1] != left or out[2] != right:
                return ("bitmask_as_newick_string(%d) names %s | %s, the taxa with those bits are %s | %s" % (op[1], out[1], out[2], left, right), "newick-groups")
        if name == "Relabel":
            labels[op[1]] = pool[op[2]]
        seen.update(members)
        if out[0] in ("OTax",) and out[1] is not None:
            seen.add(out[1])
        prev = idx
        prev_members = members
        mutable = is_mut
        cs_ns = is_cs
        if allm is not None:
            prev_all = allm
    return None


# ---- Coq term of a case ----

def c_out(o):
    k = o[0]
    if k == "OUnit":
        return "OUnit"
    if k == "OTax":
        return "(OTax %s)" % copt(o[1], cz)
    if k == "OTaxa":
        return "(OTaxa %s)" % clist([cz(x) for x in o[1]])
    if k == "OBool":
        return "(OBool %s)" % cbool(o[1])
    if k == "OInt":
        return "(OInt %s)" % cz(o[1])
    if k == "OErr":
        return "(OErr %s)" % o[1]
    if k == "OGroups":
        return "(OGroups %s %s)" % (clist([cz(x) for x in o[1]]), clist([cz(x) for x in o[2]]))
    if k == "OGroup1":
        return "(OGroup1 %s)" % clist([cz(x) for x in o[1]])
    raise ValueError(o)


def c_op(op):
    n = op[0]
    cso = lambda c: copt(c, cbool)
    zl = lambda l: clist([cz(x) for x in l])
    if n in ("AddTaxon", "RemoveTaxon", "TaxonBitmask", "AccIndex", "NewTaxon", "BitmaskTaxa", "NewickGroups"):
        return "(%s %s)" % (n, cz(op[1]))
    if n in ("NewTaxa", "TaxaBitmask", "AddTaxa"):
        return "(%s %s)" % (n, zl(op[1]))
    if n in ("RequireTaxon", "GetTaxon", "FindAll", "HasLabel"):
        return "(%s %s %s)" % (n, cz(op[1]), cso(op[2]))
    if n in ("RemoveLabel", "DiscardLabel"):
        return "(%s %s %s %s)" % (n, cz(op[1]), cso(op[2]), cbool(op[3]))
    if n == "HasLabels":
        return "(HasLabels %s %s)" % (zl(op[1]), cso(op[2]))
    if n == "GetTaxa":
        return "(GetTaxa %s %s %s)" % (zl(op[1]), cso(op[2]), cbool(op[3]))
    if n in ("Clear", "Reverse", "AllBitmask", "CopyConstruct", "DeepCopy"):
        return n
    if n in ("Sort", "SetMutable", "SetCS"):
        return "(%s %s)" % (n, cbool(op[1]))
    if n == "Relabel":
        return "(Relabel %s %s)" % (cz(op[1]), cz(op[2]))
    raise ValueError(op)


def to_coq(case, obs):
    pool = case["pool"]
    ops, ob = normalise(case, obs)
    lower = clist([cpair(cz(i), cz(pool.index(s.lower()) if s.lower() in pool else 1000 + i)) for i, s in enumerate(pool)])
    # labels whose lower-case form is not in the pool get a private class id (1000+i); two such
    # labels with equal lower-case forms must share it:
    low = {}
    pairs = []
    for i, s in enumerate(pool):
        l = s.lower()
        if l in pool:
            pairs.append((i, pool.index(l)))
        else:
            low.setdefault(l, 1000 + i)
            pairs.append((i, low[l]))
    lower = clist([cpair(cz(a), cz(b)) for a, b in pairs])
    free = clist([cpair(cz(i), cz(l)) for i, l in enumerate(case["free"])])
    exp = clist([cpair(c_out(o), clist([cpair(cz(t), cz(i)) for t, i in st])) for o, st, *_ in ob])
    return "(mkCase %s %s %s %s %s)" % (lower, free, cbool(case["cs"]), clist([c_op(o) for o in ops]), exp)


def nontrivial(case, obs):
    ops, ob = normalise(case, obs)
    return len(ops) >= 3 and any(len(st) >= 2 for _o, st, *_ in ob)


def exhaustive_cases():
    """every op sequence of length <= 3 over a 25-op alphabet, and every sequence of length 4 over
    an 11-op alphabet, on the 3-label pool A/a/b with one free Taxon object"""
    import itertools
    pool = ["A", "a", "b"]
    alpha = [["NewTaxon", 0], ["NewTaxon", 1], ["NewTaxon", 2], ["RequireTaxon", 0, None], ["RequireTaxon", 1, True],
             ["RemoveTaxon", 0], ["RemoveTaxon", 1], ["RemoveLabel", 1, None, True], ["DiscardLabel", 0, False, False],
             ["Clear"], ["Sort", False], ["Sort", True], ["Reverse"], ["Relabel", 0, 2], ["FindAll", 0, None],
             ["TaxonBitmask", 0], ["BitmaskTaxa", 3], ["NewickGroups", 2], ["SetMutable", False], ["DeepCopy"], ["CopyConstruct"],
             ["AddTaxon", 0], ["TaxaBitmask", [1, 0]], ["GetTaxa", [0, 2], None, False], ["AddTaxa", [0, 1, 0]]]
    for n in (1, 2, 3):
        for seq in itertools.product(alpha, repeat=n):
            yield {"pool": pool, "free": [2], "cs": False, "ops": [list(o) for o in seq]}
    alpha4 = [["NewTaxon", 0], ["NewTaxon", 1], ["RequireTaxon", 0, None], ["AddTaxon", 0], ["RemoveTaxon", 1],
              ["RemoveLabel", 1, None, True], ["Sort", False], ["DeepCopy"], ["NewickGroups", 2], ["BitmaskTaxa", 5],
              ["Clear"]]
    for seq in itertools.product(alpha4, repeat=4):
        yield {"pool": pool, "free": [2], "cs": True, "ops": [list(o) for o in seq]}


# ---- eighth wave: batch additions that fail part-way (Model/C10AbortModel.v) ----

AHEADER = "From DV Require Import Model.PyPrims Model.C10Model Model.C10AbortModel.\nFrom Coq Require Import ZArith. Open Scope Z_scope."


def gen_acase(rng, maxlen):
    """a base history in which about one operation in eight is add_taxa / new_taxa over an iterable that fails
    part-way; the history continues afterwards (mostly with further additions)"""
    if rng.random() < 0.25:
        # the short shape: populate, fail, add
        c = gen_case(rng, 3, abort=0.0)
        c2 = gen_case(rng, rng.randint(2, 6), abort=0.9)
        if c["pool"] == c2["pool"] and c["free"] == c2["free"] and c["cs"] == c2["cs"]:
            return {"pool": c["pool"], "free": c["free"], "cs": c["cs"], "ops": c["ops"] + c2["ops"]}
        return c2
    return gen_case(rng, maxlen, abort=0.13)


def c_aop(op):
    n = op[0]
    zl = lambda l: clist([cz(x) for x in l])
    if n in ("AddTaxaAbort", "NewTaxaAbort"):
        return "(%s %s %s)" % (n, zl(op[1]), ABORT_KINDS[op[2]])
    return "(ABase %s)" % c_op(op)


def to_coq_a(case, obs):
    pool = case["pool"]
    ops, ob = normalise(case, obs)
    low = {}
    pairs = []
    for i, s in enumerate(pool):
        l = s.lower()
        if l in pool:
            pairs.append((i, pool.index(l)))
        else:
            low.setdefault(l, 1000 + i)
            pairs.append((i, low[l]))
    lower = clist([cpair(cz(a), cz(b)) for a, b in pairs])
    free = clist([cpair(cz(i), cz(l)) for i, l in enumerate(case["free"])])
    co = lambda o: "OUnit" if o[0] == "ONoError" else c_out(o)
    exp = clist([cpair(co(o), clist([cpair(cz(t), cz(i)) for t, i in st])) for o, st, *_ in ob])
    return "(mkACase %s %s %s %s %s)" % (lower, free, cbool(case["cs"]), clist([c_aop(o) for o in ops]), exp)


def nontrivial_a(case, obs):
    ops, ob = normalise(case, obs)
    # a batch that failed AFTER it had added something, and a later operation that added a member
    for k, (op, rec) in enumerate(zip(ops, ob)):
        if op[0] in ("AddTaxaAbort", "NewTaxaAbort") and k > 0 and len(rec[1]) > len(ob[k - 1][1]):
            if any(len(ob[j][1]) > len(ob[j - 1][1]) for j in range(k + 1, len(ob))):
                return True
    return False


# ---- second wave: rendering / read-only operations (Model/C10ModelExt.v) ----

XHEADER = "From DV Require Import Model.PyPrims Model.C10Model Model.C10ModelExt.\nFrom Coq Require Import ZArith. Open Scope Z_scope."


def gen_xcase(rng, maxlen):
    """a base history with the second-wave operations interleaved (operands steered by the sim)"""
    base = gen_case(rng, maxlen)
    pool = base["pool"]
    sim = _Sim(pool, base["free"], base["cs"])
    ops = []

    def L():
        if sim.members and rng.random() < 0.7:
            l = sim.label[rng.choice(sim.members)]
            vs = [i for i, s in enumerate(pool) if s.lower() == pool[l].lower()]
            return rng.choice(vs) if rng.random() < 0.4 else l
        return rng.randrange(len(pool))

    def T():
        if sim.members and rng.random() < 0.75:
            return rng.choice(sim.members)
        return rng.randrange(sim.nobj + 1)

    def mask():
        live = [sim.idx[t] for t in sim.members]
        m = 0
        for i in rng.sample(live, rng.randint(0, len(live))):
            m |= 1 << i
        r = rng.random()
        if r < 0.15:
            m |= 1 << rng.randint(0, sim.count + 2)
        elif r < 0.25:
            m = rng.getrandbits(rng.randint(0, sim.count + 3))
        return m

    def xop():
        k = rng.random()
        CS = rng.choice([None, None, True, False])
        ROOT = rng.choice([None, None, True, False])
        n = len(sim.members)
        if k < 0.18:
            return ["XBitString", mask(), rng.randrange(2)]
        if k < 0.34:
            return ["XLabelMap", CS]
        if k < 0.50:
            r = rng.random()
            if sim.members and r < 0.8:
                ts = rng.sample(sim.members, rng.randint(0, min(4, n)))
            else:
                ts = [T() for _ in range(rng.randint(0, 3))]
            return ["XBipartition", ts, ROOT]
        if k < 0.58:
            return ["XBipartitionLabels", [L() for _ in range(rng.randint(0, 3))], rng.choice([None, None, None, True, False])]
        if k < 0.72:
            return ["XTaxaBitmaskLabels", [L() for _ in range(rng.randint(0, 3))], CS, rng.random() < 0.5, rng.randrange(2)]
        if k < 0.80:
            return ["XGetItem", rng.randint(-n - 2, n + 1)]
        if k < 0.88:
            f = lambda: rng.choice([None, rng.randint(-n - 2, n + 2)])
            return ["XGetSlice", f(), f()]
        if k < 0.90:
            return ["XGetItemLabel", L()]
        if k < 0.96:
            return ["XContains", T()]
        return ["XLabels"]

    for op in base["ops"]:
        while rng.random() < 0.3:
            ops.append(xop())
        ops.append(op)
        sim.apply(op)
    while rng.random() < 0.6:
        ops.append(xop())
    return {"pool": pool, "free": base["free"], "cs": base["cs"], "ops": ops}


def c_xout(o):
    k = o[0]
    if k == "YBits":
        return "(YBits %s)" % clist([cbool(x) for x in o[1]])
    if k == "YMap":
        return "(YMap %s)" % clist([cpair(cz(a), cz(b)) for a, b in o[1]])
    if k == "YBip":
        return "(YBip %s %s %s)" % (cz(o[1]), cz(o[2]), cz(o[3]))
    return "(YBase %s)" % c_out(o)


def c_xop(op):
    n = op[0]
    cso = lambda c: copt(c, cbool)
    zl = lambda l: clist([cz(x) for x in l])
    if n == "XBitString":
        return "(XBitString %s)" % cz(op[1])
    if n == "XLabelMap":
        return "(XLabelMap %s)" % cso(op[1])
    if n in ("XBipartition", "XBipartitionLabels"):
        return "(%s %s %s)" % (n, zl(op[1]), cso(op[2]))
    if n == "XTaxaBitmaskLabels":
        return "(XTaxaBitmaskLabels %s %s %s)" % (zl(op[1]), cso(op[2]), cbool(op[3]))
    if n in ("XGetItem", "XGetItemLabel", "XContains"):
        return "(%s %s)" % (n, cz(op[1]))
    if n == "XGetSlice":
        return "(XGetSlice %s %s)" % (copt(op[1], cz), copt(op[2], cz))
    if n == "XLabels":
        return "XLabels"
    return "(XBase %s)" % c_op(op)


def to_coq_x(case, obs):
    pool = case["pool"]
    ops, ob = normalise(case, obs)
    low = {}
    pairs = []
    for i, s in enumerate(pool):
        l = s.lower()
        if l in pool:
            pairs.append((i, pool.index(l)))
        else:
            low.setdefault(l, 1000 + i)
            pairs.append((i, low[l]))
    lower = clist([cpair(cz(a), cz(b)) for a, b in pairs])
    free = clist([cpair(cz(i), cz(l)) for i, l in enumerate(case["free"])])
    exp = clist([cpair(c_xout(o), clist([cpair(cz(t), cz(i)) for t, i in st])) for o, st, *_ in ob])
    return "(mkXCase %s %s %s %s %s)" % (lower, free, cbool(case["cs"]), clist([c_xop(o) for o in ops]), exp)


def oracle_x(case, obs):
    """the base oracle (the new operations must not disturb anything) + what each new operation names"""
    v = oracle(case, obs)
    if v:
        return v
    pool = case["pool"]
    ops, ob = normalise(case, obs)
    labels = {i: pool[l] for i, l in enumerate(case["free"])}
    prev_members, prev_idx, cs_ns = [], {}, case["cs"]
    ever = 0            # number of accession indices handed out so far, seen from outside
    for step, (op, rec) in enumerate(zip(ops, ob)):
        out, state, labs, is_mut, is_cs = rec[:5]
        name = op[0]
        members = [t for t, _ in state]
        idx = dict((t, i) for t, i in state)
        labels.update({t: pool[l] for t, l in zip(members, labs)})
        if idx:
            ever = max(ever, max(idx.values()) + 1)
        if name.startswith("X") and (members != prev_members or idx != prev_idx):
            return ("%s changed the members or their bits (step %d)" % (name, step), "readonly-op-mutates:" + name)

        def match(l, cs):
            c = cs_ns if cs is None else cs
            return [t for t in members if (labels[t] == pool[l] if c else labels[t].lower() == pool[l].lower())]

        if name == "XBitString" and out[0] == "YBits":
            bits = out[1]
            for k in range(max(len(bits), op[1].bit_length())):
                ch = bits[len(bits) - 1 - k] if k < len(bits) else None
                if ch != bool((op[1] >> k) & 1):
                    return ("bitmask_as_bitstring(%d): position %d from the right is %s" % (op[1], k, ch), "bitstring-position")
            named = [t for t in members if idx[t] < len(bits) and bits[len(bits) - 1 - idx[t]]]
            want = [t for t in members if (op[1] >> idx[t]) & 1]
            if named != want:
                return ("bitmask_as_bitstring(%d) marks members %s, the bitmask has %s" % (op[1], named, want), "bitstring-names")
            if op[1] < (1 << ever) and len(bits) != max(ever, 1) and ever > 0 and len(bits) != ever:
                return ("bitmask_as_bitstring(%d) has width %d, %d indices were handed out" % (op[1], len(bits), ever), "bitstring-width")
        if name == "XLabelMap" and out[0] == "YMap":
            c = cs_ns if op[1] is None else op[1]
            key = (lambda s: s) if c else (lambda s: s.lower())
            keys = [key(pool[k]) for k, _ in out[1]]
            if len(set(keys)) != len(keys):
                return ("label_taxon_map has two entries for one key (step %d)" % step, "label-map-duplicate-key")
            for li, t in out[1]:
                m = match(li, c)
                if not m or t != m[-1] or labels[t] != pool[li]:
                    return ("label_taxon_map maps %r to %s; members with that label are %s (step %d)" % (pool[li], t, m, step), "label-map-value")
            for t in members:
                if key(labels[t]) not in keys:
                    return ("label_taxon_map has no entry for the label of member %d (step %d)" % (t, step), "label-map-missing")
        if name in ("XBipartition", "XBipartitionLabels", "XTaxaBitmaskLabels"):
            if name == "XBipartition":
                sel = op[1] if all(t in idx for t in op[1]) else None
            else:
                cs = op[2] if name == "XTaxaBitmaskLabels" else None
                first = op[3] if name == "XTaxaBitmaskLabels" else False
                sel = []
                for l in op[1]:
                    m = match(l, cs)
                    sel.extend(m[:1] if first else m)
            if sel is not None:
                want = 0
                for t in sel:
                    want |= 1 << idx[t]
                if name == "XTaxaBitmaskLabels":
                    if out != ["OInt", want]:
                        return ("taxa_bitmask(labels=%s) = %s, the matching members have bits %d" % (op[1], out, want), "taxa-bitmask-labels")
                elif out[0] == "YBip":
                    allm = out[3]
                    if out[2] != want or allm & want != want:
                        return ("taxa_bipartition leafset bitmask %d (tree %d), selected members have %d" % (out[2], allm, want), "bipartition-leafset")
                    rooted = op[2] is True
                    if out[1] != (want if (rooted or not want & 1) else allm & ~want):
                        return ("taxa_bipartition split bitmask %d for leafset %d, tree %d, rooted %s" % (out[1], want, allm, op[2]), "bipartition-split")
        if name == "XGetItem":
            n = len(members)
            want = ["OTax", members[op[1]]] if -n <= op[1] < n else ["OErr", "IndexErr"]
            if out != want:
                return ("ns[%d] = %s, expected %s" % (op[1], out, want), "getitem")
        if name == "XGetSlice" and out != ["OTaxa", members[op[1]:op[2]]]:
            return ("ns[%s:%s] = %s" % (op[1], op[2], out), "getslice")
        if name == "XGetItemLabel" and out != ["OErr", "ValueErr"]:
            return ("ns[label] = %s" % (out,), "getitem-label")
        if name == "XContains" and out != ["OBool", op[1] in members]:
            return ("(%d in ns) = %s, members %s" % (op[1], out, members), "contains")
        if name == "XLabels" and out != ["OGroup1", [pool.index(labels[t]) for t in members]]:
            return ("labels() = %s" % (out,), "labels")
        if name == "Relabel":
            labels[op[1]] = pool[op[2]]
        prev_members, prev_idx, cs_ns = members, idx, is_cs
    return None


# ---- labels that are falsy but not None: "" and 0 (implementation against the naive statement only; the
# model's labels are ids into a pool of strings, to which "" belongs - see POOLS - but 0 does not) ----

FALSY_POOL = [0, "", "a", "A", "b"]


def gen_fcase(rng):
    k = rng.randint(1, 6)
    return {"falsy": True, "cs": rng.random() < 0.5,
            "members": [rng.choice([0, 1, 0, 1, 2, 3, 4]) for _ in range(k)],
            "relabel": [[rng.randrange(k), rng.randrange(5)] for _ in range(rng.randint(0, 2))],
            "queries": [[rng.choice(["findall", "get_taxon", "has_taxon_label", "get_taxa", "taxa_bitmask", "require_taxon",
                                     "has_taxa_labels", "discard_taxon_label"]),
                         rng.choice([0, 1, 0, 1, 2, 3, 4]), rng.choice([None, True, False])] for _ in range(rng.randint(1, 5))]}


def falsy_check(case):
    """None | (what, key): every lookup names exactly the members whose label equals the query (case-sensitive) or
    whose str(label).lower() equals the query's - `0` and "" are labels, only None means 'no label'"""
    import dendropy
    P = FALSY_POOL
    ns = dendropy.TaxonNamespace(is_case_sensitive=case["cs"])
    for li in case["members"]:
        ns.new_taxon(P[li]) if li % 2 else ns.add_taxon(dendropy.Taxon(label=P[li]))
    for k, li in case["relabel"]:
        ns[k].label = P[li]
    for meth, qi, cs in case["queries"]:
        q = P[qi]
        c = case["cs"] if cs is None else cs
        members = list(ns)
        same = lambda a, b: type(a) is type(b) and a == b
        want = [t for t in members if (same(t.label, q) if c else str(t.label).lower() == str(q).lower())]
        ident = lambda l: [id(t) for t in l]
        tag = "%s(%r, is_case_sensitive=%r) on labels %r (namespace is_case_sensitive=%r)" % (meth, q, cs, [t.label for t in members], case["cs"])
        if meth == "findall":
            got = ns.findall(q, is_case_sensitive=cs)
            bad = ident(got) != ident(want)
        elif meth == "get_taxon":
            got = ns.get_taxon(q, is_case_sensitive=cs)
            bad = got is not (want[0] if want else None)
        elif meth == "has_taxon_label":
            got = ns.has_taxon_label(q, is_case_sensitive=cs)
            bad = bool(got) != bool(want)
        elif meth == "has_taxa_labels":
            got = ns.has_taxa_labels([q, q], is_case_sensitive=cs)
            bad = bool(got) != bool(want)
        elif meth == "get_taxa":
            got = ns.get_taxa([q], is_case_sensitive=cs)
            bad = ident(got) != ident(want)
        elif meth == "taxa_bitmask":
            got = ns.taxa_bitmask(labels=[q], is_case_sensitive=cs)
            bad = got != sum(ns.taxon_bitmask(t) for t in want)
        elif meth == "require_taxon":
            got = ns.require_taxon(q, is_case_sensitive=cs)
            if want:
                bad = got is not want[0] or ident(ns) != ident(members)
            else:
                bad = ident(ns) != ident(members) + [id(got)] or not same(got.label, q)
        else:
            ns.discard_taxon_label(q, is_case_sensitive=cs)
            got = [t.label for t in ns]
            bad = ident(ns) != [id(t) for t in members if not any(t is w for w in want)]
        if bad:
            return ("%s returned %r; the matching members are %r" % (tag, got if not isinstance(got, list) else [getattr(t, "label", t) for t in got],
                                                                       [t.label for t in want]), "falsy-label:" + meth)
    return None


def falsy_stage(ctx, n, rng):
    for _ in range(n):
        case = gen_fcase(rng)
        ctx.evaluations += 1
        ctx.count("falsy-label lookups (direct)")
        v = falsy_check(case)
        if v:
            ctx.violation(v[0], {"case": case, "observed": v[0]}, key=v[1])
            if ctx.violations:
                return


def search(ctx, budget_s):
    import time
    t0 = time.time()
    rng = random.Random(ctx.seed + 77)
    n = 0
    while time.time() - t0 < budget_s / 2.0 and n < 20000:
        # every other history contains batch additions over iterables that fail part-way
        case = gen_acase(rng, 30) if n % 2 else gen_case(rng, 30)
        obs = observe(case)
        v = oracle(case, obs)
        n += 1
        if v:
            ctx.violation(v[0], {"case": case, "observed": obs}, key=v[1])
            if ctx.violations:
                return
    ctx.notes.append("search: %d further histories through the oracle, no unlisted violation" % n)
    falsy_stage(ctx, 2000, rng)
    if ctx.violations:
        return
    from dv import c10_copy
    c10_copy.search_m(ctx, budget_s / 2.0)


def run(tier, seed, replay=None):
    ctx = core.Ctx("C10", tier, seed)
    ctx.assumptions = [
        "model coq/Model/C10Model.v is a hand transcription of taxonmodel.py; tied by this correspondence run",
        "labels are ids into a finite pool; str.lower is an uninterpreted function in the theorems",
        "bitmask arguments are non-negative (bitmask_taxa_list(-1) does not terminate; outside the property's quantifier)",
    ]
    if replay:
        import json
        r = json.load(open(replay))["replay"]
        case = r["case"]
        if case.get("falsy"):
            print("oracle:", falsy_check(case))
            return 0
        obs = observe(case)
        print("oracle:", oracle(case, obs))
        return 0
    ok = proof_ok = core.proof_stage(ctx, ["Model/C10ModelExt.vo", "Model/C10CopyModel.vo", "Model/C10AbortModel.vo", "Props/C10.vo"],
                                          gen_needed=("BitFns", "Namespace", "NamespaceCopy"))
    if not ok:
        core.broken_proof(ctx, search)
    n = 400 if tier == "quick" else 6000
    cases = [gen_case(ctx.rng, 25 if tier == "quick" else 60) for _ in range(n)]
    if tier == "thorough":
        cases.extend(exhaustive_cases())
    for c in cases:
        for o in c["ops"]:
            ctx.count(o[0])

    def observe_counted(case):
        obs = observe(case)
        vac = dup = perm = False
        for op, rec in zip(case["ops"], obs):
            out, state = rec[0], rec[1]
            ctx.count("outcome:%s:%s" % (op[0], out[1] if out[0] == "OErr" else ("skipped" if out[0] == "SKIP" else "ok")))
            ix = [i for _t, i in state]
            vac = vac or (bool(ix) and len(ix) <= max(ix))
            dup = dup or len(set(rec[2])) < len(rec[2])
            perm = perm or ix != sorted(ix)
            if op[0] == "NewickGroups" and out[0] == "OGroups" and (ix != sorted(ix) or (ix and len(ix) <= max(ix))):
                ctx.count("newick rendering where list position <> bit")
            if op[0] == "BitmaskTaxa" and out[0] == "OTaxa" and len(out[1]) >= 2:
                ctx.count("bitmask_taxa_list returning >= 2 taxa")
        ctx.count("history size %s" % ("1-5" if len(obs) <= 5 else "6-15" if len(obs) <= 15 else "16-30" if len(obs) <= 30 else "31+"))
        ctx.count("max members %d" % min(9, max([len(r[1]) for r in obs] or [0])))
        if vac:
            ctx.count("history reaches a vacated index")
        if dup:
            ctx.count("history reaches duplicate labels")
        if perm:
            ctx.count("history reaches member order <> bit order")
        return obs

    core.corr_stage(ctx, cases, observe_counted, to_coq, HEADER, "case_ok", oracle=oracle,
                    show_fn="case_run", nontrivial=nontrivial, search=search, shard=250,
                    sample_fn=lambda c, o: {"ops": c["ops"][:8], "pool": c["pool"], "last_state": normalise(c, o)[1][-1][1] if normalise(c, o)[1] else None})
    nx = 300 if tier == "quick" else 4000
    xcases = [gen_xcase(ctx.rng, 15 if tier == "quick" else 40) for _ in range(nx)]

    def observe_x(case):
        obs = observe(case)
        for op, rec in zip(case["ops"], obs):
            if op[0].startswith("X"):
                out = rec[0]
                ctx.count("outcome:%s:%s" % (op[0], out[1] if out[0] == "OErr" else ("skipped" if out[0] == "SKIP" else "ok")))
                if op[0] == "XLabelMap" and out[0] == "YMap" and len(out[1]) < len(rec[1]):
                    ctx.count("label_taxon_map with colliding labels")
                if op[0] == "XBipartition" and out[0] == "YBip" and out[1] != out[2]:
                    ctx.count("taxa_bipartition normalised to the complement")
                if op[0] == "XBitString" and out[0] == "YBits" and len(rec[1]) < len(out[1]):
                    ctx.count("bitstring wider than the member count (vacated or unallocated bits)")
        return obs

    core.corr_stage(ctx, xcases, observe_x, to_coq_x, XHEADER, "xcase_ok", oracle=oracle_x,
                    show_fn="xcase_run", nontrivial=nontrivial, search=None, shard=250, label="xops correspondence",
                    sample_fn=lambda c, o: {"ops": c["ops"][:10], "pool": c["pool"]})
    # eighth wave: batch additions over iterables that FAIL part-way (Model/C10AbortModel.v); the history goes on
    na = 200 if tier == "quick" else 3000
    acases = [gen_acase(ctx.rng, 20 if tier == "quick" else 50) for _ in range(na)]

    def observe_a(case):
        obs = observe(case)
        ops_, ob_ = case["ops"], obs
        prev_len = 0
        for op, rec in zip(ops_, ob_):
            if op[0] in ("AddTaxaAbort", "NewTaxaAbort"):
                out = rec[0]
                ctx.count("outcome:%s:%s" % (op[0], out[1] if out[0] == "OErr" else ("skipped" if out[0] == "SKIP" else "no error")))
                ctx.count("failing batch that had added %s" % ("nothing" if len(rec[1]) == prev_len else ">=1 member"))
            prev_len = len(rec[1])
        if nontrivial_a(case, obs):
            ctx.count("history: batch fails after adding members, later operation adds a member")
        return obs

    core.corr_stage(ctx, acases, observe_a, to_coq_a, AHEADER, "acase_ok", oracle=oracle,
                    show_fn="acase_run", nontrivial=nontrivial_a, search=None, shard=250, label="failing-batch correspondence",
                    sample_fn=lambda c, o: {"ops": c["ops"][:10], "pool": c["pool"]})
    # labels that are falsy but not None ("" and 0), implementation against the naive statement
    falsy_stage(ctx, 400 if tier == "quick" else 6000, ctx.rng)
    # third wave: histories over SEVERAL namespaces (constructors, copy.copy, copy.deepcopy, ==, <): Model/C10CopyModel.v
    from dv import c10_copy
    c10_copy.stage(ctx, tier)
    # direct tie of the string-based helpers bitprocessing.int_as_bitstring / bit_length (hand-modelled:
    # bin / lstrip / rjust are outside py2coq's integer subset)
    from dendropy.utility import bitprocessing
    bvals = list(range(0, 70)) + [ctx.rng.getrandbits(ctx.rng.randint(1, 80)) for _ in range(130 if tier == "quick" else 1500)]
    bcases = []
    for v in bvals:
        r = ctx.rng.random()
        ln = None if r < 0.2 else ctx.rng.randint(0, v.bit_length() + 3) if r < 0.8 else 0
        bcases.append({"n": v, "len": ln})

    def observe_b(c):
        kw = {} if c["len"] is None else {"length": c["len"]}
        bs = bitprocessing.int_as_bitstring(c["n"], **kw)
        assert set(bs) <= set("01")
        return [[ch == "1" for ch in bs], bitprocessing.bit_length(c["n"]), bitprocessing.bit_length(-c["n"])]

    def oracle_b(c, o):
        bits, bl, nbl = o
        n = c["n"]
        if bl != nbl or bl != n.bit_length():
            return ("bit_length(%d) = %d, bit_length(%d) = %d" % (n, bl, -n, nbl), "bit-length")
        if sum(1 << k for k, b in enumerate(reversed(bits)) if b) != n or len(bits) != max(c["len"] if c["len"] is not None else bl, bl, 1):
            return ("int_as_bitstring(%d, %s) = %s" % (n, c["len"], bits), "int-as-bitstring")
        return None

    core.corr_stage(ctx, bcases, observe_b,
                    lambda c, o: "(mkBCase %s %s %s %s %s)" % (cz(c["n"]), copt(c["len"], cz), clist([cbool(x) for x in o[0]]), cz(o[2]), cz(o[1])),
                    XHEADER, "bcase_ok", oracle=oracle_b, show_fn="bcase_run", nontrivial=lambda c, o: c["n"] > 1,
                    search=None, shard=400, label="bitstring correspondence")
    return ctx.finish(level="proof",
                      rule="random op histories (<=25 quick / <=60 thorough ops) drawn by a state-aware generator (operands mostly members / present labels incl. case variants / subsets of live bits; taxa_bitmask followed by bitmask_taxa_list of its result) over label pools with duplicates and case variants, both case settings, several API spellings per op (append/add_taxa, del ns[i]/remove, copy.copy, split_as_newick_string, get_taxa_bitmask); the batch entry points add_taxa(list / tuple / generator of Taxon objects in which the SAME not-yet-member object, and members, occur repeatedly), new_taxa / has_taxa_labels / get_taxa with the same label repeated inside one batch, TaxonNamespace([...]) with repeated objects and labels; after every operation the oracle checks that the members are pairwise distinct objects, each with one accession index inside all_taxa_bitmask, and that all_taxa_bitmask has no bit that never had an owner; thorough adds every history of length <=3 over a 25-op alphabet and every history of length 4 over an 11-op alphabet; a case is non-trivial when it has >=3 executed ops and reaches a namespace with >=2 members; distinct by full case content; second wave: 300 quick / 4000 thorough such histories with bitmask_as_bitstring, split_as_string, label_taxon_map, taxa_bipartition(taxa=/labels=), taxa_bitmask(labels=), get_taxa_bitmask, ns[i], ns[a:b], ns[label], in, labels() interleaved; 200 quick / 1570 thorough (n, length) pairs for int_as_bitstring / bit_length; multi-namespace wave: 240 quick / 5000 thorough histories (<=22 / <=50 ops) over up to 5 namespaces sharing Taxon objects, built by TaxonNamespace() / TaxonNamespace([taxa and labels]) / TaxonNamespace(other) with and without the is_mutable / is_case_sensitive keywords, copy.copy, __copy__, copy.deepcopy, with the base operations addressed to any of them (operands steered to members, to taxa of the OTHER namespaces and to present labels), taxon_namespace_scoped_copy, == and <; every namespace is observed after every step (members, indices, counter via all_taxa_bitmask, flags; in half of the cases also taxon_bitmask of every member); failing batches: 200 quick / 3000 thorough histories in which about one operation in eight is add_taxa / new_taxa over an iterable that fails part-way (generator raising ValueError / KeyError, iterator raising in __next__, list with an unhashable element followed by further taxa), the exception caught and the history continued (mostly with further additions), non-trivial when a batch failed after adding a member and a later operation added another; label pools include the empty string; 400 quick / 6000 thorough direct lookups with the labels 0 and \"\" against the naive statement")
