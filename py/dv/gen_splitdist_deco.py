"""Translator (property C05, wave 6): SplitDistributionSummarizer.configure (with its defaults),
SplitDistributionSummarizer._decorate and the DECORATION VIEW of
SplitDistributionSummarizer.summarize_splits_on_tree  ->  coq/Gen/SplitDistDeco.v.

The loop body of summarize_splits_on_tree is translated twice, as two views of the same statements:
  * Gen/SplitDist.v (py/dv/c05_gen_impl2.py) keeps support / edge.length / node.age and SKIPS the
    label and the _decorate loops after checking their shape;
  * this module keeps the support value, the percentage scaling, every self._decorate(..) call with
    the flags and field names it is given, the node label, the age_* / length_* loops over
    zip(<fieldnames>, summary_stats_fieldnames), the no-data values, and SKIPS the
    `self.set_edge_lengths` chain and the trailing edge-length pass after checking that they contain
    nothing but assignments to node.edge.length / node.age, raises, and the interface call
    tree.set_edge_lengths_from_node_ages (only_length_effects below).
The two views act on disjoint parts of a node as long as no configured attribute name is "age",
"label", "length" or "annotations" (the defaults are the field names themselves).

Everything emitted is read off the AST: keyword keys and defaults of every kwargs.pop, the field-name
constants and format strings, which flag guards which _decorate call, target (node / node.edge),
the order of setattr / annotations.drop / add_bound_attribute / add_new in _decorate, keyword names
of those calls, branch conditions and their order.  Statement shapes outside the whitelist raise
Unsupported: py2coq then writes a stub and every dependent proof breaks (fail closed).  The Python
meaning of every primitive is stated in coq/Model/C05GenPrims4.v.
"""
import ast
import os

from dv.gen_splitdist import Unsupported, bad, qlit

OUTPUT = "SplitDistDeco.v"
TCM = os.path.join("datamodel", "treecollectionmodel.py")

# configure: declared keywords and the model type of the attribute they set
KW_FIELDS = {
    "set_edge_lengths": "MODE",
    "add_support_as_node_attribute": "B", "add_support_as_node_annotation": "B",
    "set_support_as_node_label": "OB",
    "add_node_age_summaries_as_node_attributes": "B", "add_node_age_summaries_as_node_annotations": "B",
    "add_edge_length_summaries_as_edge_attributes": "B", "add_edge_length_summaries_as_edge_annotations": "B",
    "support_label_decimals": "Z", "support_as_percentages": "B", "support_label_compose_fn": "OU",
    "minimum_edge_length": "OQ", "error_on_negative_edge_lengths": "B",
}
# the record Model/C05GenPrims4.dopts, in field order
DOPTS_FIELDS = [
    ("set_edge_lengths", "MODE"), ("add_support_as_node_attribute", "B"), ("add_support_as_node_annotation", "B"),
    ("set_support_as_node_label", "OB"), ("add_node_age_summaries_as_node_attributes", "B"),
    ("add_node_age_summaries_as_node_annotations", "B"), ("add_edge_length_summaries_as_edge_attributes", "B"),
    ("add_edge_length_summaries_as_edge_annotations", "B"), ("support_label_decimals", "Z"),
    ("support_as_percentages", "B"), ("support_label_compose_fn", "OU"), ("primary_fieldnames", "LSTR"),
    ("summary_stats_fieldnames", "LSTR"), ("no_data_values", "SDICT"), ("node_age_summaries_fieldnames", "LSTR"),
    ("edge_length_summaries_fieldnames", "LSTR"), ("fieldnames", "LSTR"), ("dyn", "DYN"),
    ("minimum_edge_length", "OQ"), ("error_on_negative_edge_lengths", "B"),
]
DOPTS_TY = dict(DOPTS_FIELDS)


def cstr(s):
    return '"%s"%%string' % s.replace('"', '""')


def find_class(tree, name):
    for n in tree.body:
        if isinstance(n, ast.ClassDef) and n.name == name:
            return n
    raise Unsupported("class %s not found" % name)


def find_method(cls, name):
    for n in cls.body:
        if isinstance(n, ast.FunctionDef) and n.name == name:
            return n
    raise Unsupported("%s.%s not found" % (cls.name, name))


def strip_doc(body):
    if body and isinstance(body[0], ast.Expr) and isinstance(body[0].value, ast.Constant) \
            and isinstance(body[0].value.value, str):
        return body[1:]
    return body


def is_self_attr(e, name=None):
    return isinstance(e, ast.Attribute) and isinstance(e.value, ast.Name) and e.value.id == "self" \
        and (name is None or e.attr == name)


def format_call(e, argname=None):
    """'<fmt>'.format(<name>) -> (fmt, name)"""
    if isinstance(e, ast.Call) and isinstance(e.func, ast.Attribute) and e.func.attr == "format" \
            and isinstance(e.func.value, ast.Constant) and isinstance(e.func.value.value, str) \
            and len(e.args) == 1 and not e.keywords and isinstance(e.args[0], ast.Name):
        fmt = e.func.value.value
        if fmt.count("{}") != 1 or fmt.replace("{}", "").count("{") or fmt.replace("{}", "").count("}"):
            bad(e, "format string with other than one plain replacement field")
        if argname is not None and e.args[0].id != argname:
            bad(e, "format argument")
        return fmt, e.args[0].id
    return None


# ------------------------------------------------------------------------------------------
# configure
# ------------------------------------------------------------------------------------------
def const_of(node, ty):
    if not isinstance(node, ast.Constant):
        bad(node, "default is not a constant")
    v = node.value
    if ty == "B" and isinstance(v, bool):
        return "true" if v else "false"
    if ty == "OB" and (v is None or isinstance(v, bool)):
        return "None" if v is None else ("(Some %s)" % ("true" if v else "false"))
    if ty == "Z" and isinstance(v, int) and not isinstance(v, bool):
        return "(%d)" % v
    if ty == "MODE" and v is None:
        return "ELNone"
    if ty in ("OQ", "OU") and v is None:
        return "None"
    bad(node, "default %r does not fit the model type %s" % (v, ty))


def compile_configure(tcm):
    sm = find_class(tcm, "SplitDistributionSummarizer")
    fn = find_method(sm, "configure")
    a = fn.args
    if [x.arg for x in a.args] != ["self"] or a.vararg or a.kwonlyargs or not a.kwarg or a.kwarg.arg != "kwargs":
        raise Unsupported("configure: signature")
    # __init__ must forward its **kwargs to configure and do nothing else
    init = find_method(sm, "__init__")
    ib = strip_doc(init.body)
    if not (len(ib) == 1 and ast.unparse(ib[0]) == "self.configure(**kwargs)" and init.args.kwarg
            and init.args.kwarg.arg == "kwargs" and [x.arg for x in init.args.args] == ["self"]):
        raise Unsupported("SplitDistributionSummarizer.__init__ is not `self.configure(**kwargs)`")
    lines, assigned = [], {}

    def setf(name, text, node):
        if name not in DOPTS_TY:
            bad(node, "attribute %s is not a field of the model's summarizer record" % name)
        if name in assigned:
            bad(node, "attribute %s assigned twice" % name)
        assigned[name] = True
        lines.append("let s_%s := %s in" % (name, text))

    def getf(e):
        if not is_self_attr(e) or e.attr not in assigned:
            bad(e, "read of an attribute not assigned before")
        return "s_" + e.attr, DOPTS_TY[e.attr]

    for s in strip_doc(fn.body):
        if isinstance(s, ast.Assign) and len(s.targets) == 1 and is_self_attr(s.targets[0]):
            name, v = s.targets[0].attr, s.value
            # self.X = kwargs.pop("X", <const>)
            if isinstance(v, ast.Call) and ast.unparse(v.func) == "kwargs.pop":
                if len(v.args) != 2 or v.keywords or not isinstance(v.args[0], ast.Constant):
                    bad(s, "kwargs.pop shape")
                key = v.args[0].value
                if key != name:
                    bad(s, "keyword %r configures attribute %r" % (key, name))
                if key not in KW_FIELDS:
                    bad(s, "undeclared keyword")
                setf(name, "py_kwpop (kw_%s kwargs) %s" % (key, const_of(v.args[1], KW_FIELDS[key])), s)
                continue
            # list of string constants
            if isinstance(v, ast.List) and all(isinstance(x, ast.Constant) and isinstance(x.value, str) for x in v.elts):
                if DOPTS_TY.get(name) != "LSTR":
                    bad(s, "list attribute")
                setf(name, "[" + "; ".join(cstr(x.value) for x in v.elts) + "]", s)
                continue
            # SplitDistribution.<CONSTANT tuple of strings>
            if isinstance(v, ast.Attribute) and isinstance(v.value, ast.Name) and v.value.id == "SplitDistribution":
                sd = find_class(tcm, "SplitDistribution")
                hit = [n for n in sd.body if isinstance(n, ast.Assign) and len(n.targets) == 1
                       and isinstance(n.targets[0], ast.Name) and n.targets[0].id == v.attr]
                if len(hit) != 1 or not isinstance(hit[0].value, (ast.Tuple, ast.List)) or not all(
                        isinstance(x, ast.Constant) and isinstance(x.value, str) for x in hit[0].value.elts):
                    bad(s, "class constant")
                setf(name, "[" + "; ".join(cstr(x.value) for x in hit[0].value.elts) + "]", s)
                continue
            # {'k': [], ...}
            if isinstance(v, ast.Dict):
                if DOPTS_TY.get(name) != "SDICT" or not all(
                        isinstance(k, ast.Constant) and isinstance(k.value, str) and isinstance(x, ast.List) and not x.elts
                        for k, x in zip(v.keys, v.values)):
                    bad(s, "dict attribute")
                setf(name, "[" + "; ".join("(%s, DEmptyList)" % cstr(k.value) for k in v.keys) + "]", s)
                continue
            # list("<fmt>".format(f) for f in self.Y)
            if isinstance(v, ast.Call) and isinstance(v.func, ast.Name) and v.func.id == "list" and len(v.args) == 1 \
                    and isinstance(v.args[0], ast.GeneratorExp):
                g = v.args[0]
                if len(g.generators) != 1 or g.generators[0].ifs or not isinstance(g.generators[0].target, ast.Name):
                    bad(s, "generator shape")
                var = g.generators[0].target.id
                fc = format_call(g.elt, var)
                if not fc:
                    bad(s, "generator element")
                src, sty = getf(g.generators[0].iter)
                if sty != "LSTR":
                    bad(s, "generator source")
                setf(name, "map (fun %s => py_format1 %s %s) %s" % (var, cstr(fc[0]), var, src), s)
                continue
            # self.a + self.b + ...
            if isinstance(v, ast.BinOp) and isinstance(v.op, ast.Add):
                parts = []

                def flat(e):
                    if isinstance(e, ast.BinOp) and isinstance(e.op, ast.Add):
                        flat(e.left)
                        flat(e.right)
                    else:
                        t, ty = getf(e)
                        if ty != "LSTR":
                            bad(e, "list concatenation operand")
                        parts.append(t)
                flat(v)
                setf(name, "(" + " ++ ".join(parts) + ")", s)
                continue
            bad(s, "assignment in configure")
        # for fieldname in self.fieldnames: setattr(self, "<fmt>".format(fieldname), kwargs.pop("<fmt>".format(fieldname), <dflt>))
        if isinstance(s, ast.For) and isinstance(s.target, ast.Name) and not s.orelse:
            var = s.target.id
            src, sty = getf(s.iter)
            if sty != "LSTR":
                bad(s, "loop source")
            body = []
            for b in s.body:
                c = b.value if isinstance(b, ast.Expr) else None
                if not (isinstance(c, ast.Call) and isinstance(c.func, ast.Name) and c.func.id == "setattr"
                        and len(c.args) == 3 and not c.keywords and isinstance(c.args[0], ast.Name) and c.args[0].id == "self"):
                    bad(b, "statement in the field-name loop")
                fk = format_call(c.args[1], var)
                p = c.args[2]
                if not fk or not (isinstance(p, ast.Call) and ast.unparse(p.func) == "kwargs.pop" and len(p.args) == 2
                                  and not p.keywords):
                    bad(b, "setattr shape")
                fp = format_call(p.args[0], var)
                if not fp or fp[0] != fk[0]:
                    bad(b, "the keyword popped is not the attribute set")
                d = p.args[1]
                if isinstance(d, ast.Name) and d.id == var:
                    dflt = "(DvStr %s)" % var
                elif isinstance(d, ast.Constant) and isinstance(d.value, bool):
                    dflt = "(DvBool %s)" % ("true" if d.value else "false")
                else:
                    bad(b, "default of the field-name keyword")
                key = "(py_format1 %s %s)" % (cstr(fk[0]), var)
                body.append("let s_dyn := py_setattr_dyn s_dyn %s (py_kwpop_dyn kwargs %s %s) in" % (key, key, dflt))
            if "dyn" in assigned:
                bad(s, "second field-name loop")
            assigned["dyn"] = True
            lines.append("let s_dyn := py_for %s (fun %s s_dyn =>\n    %s\n    s_dyn) [] in"
                         % (src, var, "\n    ".join(body)))
            continue
        # if kwargs: TypeError(..)   -- an exception object is built and dropped: no effect
        if isinstance(s, ast.If) and isinstance(s.test, ast.Name) and s.test.id == "kwargs" and not s.orelse \
                and len(s.body) == 1 and isinstance(s.body[0], ast.Expr) and isinstance(s.body[0].value, ast.Call) \
                and isinstance(s.body[0].value.func, ast.Name) and s.body[0].value.func.id == "TypeError":
            lines.append("(* if kwargs: TypeError(..) -- built and dropped, nothing is raised *)")
            continue
        bad(s, "statement in configure")
    missing = [f for f, _ in DOPTS_FIELDS if f not in assigned]
    if missing:
        raise Unsupported("configure never assigns %s" % missing)
    body = "\n  ".join(lines) + "\n  mkDopts " + " ".join("s_" + f for f, _ in DOPTS_FIELDS)
    return "(* SplitDistributionSummarizer.configure, line %d (and __init__, which only forwards its keyword arguments to configure) *)\n" \
           "Definition gen_configure (kwargs : skw) : dopts :=\n  %s.\n" % (fn.lineno, body)


# ------------------------------------------------------------------------------------------
# _decorate
# ------------------------------------------------------------------------------------------
class Deco:
    """_decorate: every path ends the function; the state is the variable `target`"""

    def __init__(self, fn):
        self.fn = fn
        names = [x.arg for x in fn.args.args]
        if names != ["self", "target", "fieldname", "value", "set_attribute", "set_annotation"] \
                or fn.args.vararg or fn.args.kwarg or fn.args.defaults:
            raise Unsupported("_decorate: signature %s" % names)
        self.env = {"target": "DECO", "fieldname": "STR", "value": "DV", "set_attribute": "B", "set_annotation": "B"}

    def getattr_fmt(self, e):
        if isinstance(e, ast.Call) and isinstance(e.func, ast.Name) and e.func.id == "getattr" and len(e.args) == 2 \
                and not e.keywords and isinstance(e.args[0], ast.Name) and e.args[0].id == "self":
            fc = format_call(e.args[1], "fieldname")
            if fc:
                return "(py_format1 %s fieldname)" % cstr(fc[0])
        return None

    def name(self, e, ty):
        if isinstance(e, ast.Name) and self.env.get(e.id) == ty:
            return e.id
        bad(e, "expected a %s variable" % ty)

    def block(self, stmts):
        if not stmts:
            return "Ok target"
        s, rest = stmts[0], stmts[1:]
        if isinstance(s, ast.Assign) and len(s.targets) == 1 and isinstance(s.targets[0], ast.Name):
            k = self.getattr_fmt(s.value)
            if k is None:
                bad(s, "assignment in _decorate")
            self.env[s.targets[0].id] = "STR"
            return "py_bind (py_getattr_str self %s) (fun %s =>\n  %s)" % (k, s.targets[0].id, self.block(rest))
        if isinstance(s, ast.Expr) and isinstance(s.value, ast.Call):
            c = s.value
            f = ast.unparse(c.func)
            kws = {k.arg: k.value for k in c.keywords}
            if f == "setattr" and len(c.args) == 3 and not c.keywords:
                t = self.name(c.args[0], "DECO")
                return "let %s := py_setattr %s %s %s in\n  %s" % (
                    t, t, self.name(c.args[1], "STR"), self.name(c.args[2], "DV"), self.block(rest))
            if f == "target.annotations.drop" and not c.args and set(kws) == {"name"}:
                return "let target := py_annotations_drop target %s in\n  %s" % (self.name(kws["name"], "STR"), self.block(rest))
            if f == "target.annotations.add_bound_attribute" and not c.args and set(kws) == {"attr_name", "annotation_name"}:
                return "let target := py_add_bound_attribute target %s %s in\n  %s" % (
                    self.name(kws["attr_name"], "STR"), self.name(kws["annotation_name"], "STR"), self.block(rest))
            if f == "target.annotations.add_new" and not c.args and set(kws) == {"name", "value"}:
                return "let target := py_add_new target %s %s in\n  %s" % (
                    self.name(kws["name"], "STR"), self.name(kws["value"], "DV"), self.block(rest))
            bad(s, "call in _decorate")
        if isinstance(s, ast.If):
            if rest:
                bad(s, "statements after an if in _decorate")
            env0 = dict(self.env)
            k = self.getattr_fmt(s.test)
            a = self.block(s.body)
            self.env = dict(env0)
            b = self.block(s.orelse)
            self.env = env0
            if k is not None:
                return "py_bind (py_getattr_truth self %s) (fun dyn =>\n  if dyn\n  then %s\n  else %s)" % (k, a, b)
            return "if %s\n  then %s\n  else %s" % (self.name(s.test, "B"), a, b)
        bad(s, "statement in _decorate")


def compile_decorate(tcm):
    fn = find_method(find_class(tcm, "SplitDistributionSummarizer"), "_decorate")
    body = Deco(fn).block(strip_doc(fn.body))
    return ("(* SplitDistributionSummarizer._decorate, line %d *)\n"
            "Definition gen_decorate (self : dopts) (target : deco) (fieldname : string) (value : dval)\n"
            "           (set_attribute set_annotation : bool) : res deco :=\n  %s.\n" % (fn.lineno, body))


# ------------------------------------------------------------------------------------------
# the decoration view of summarize_splits_on_tree
# ------------------------------------------------------------------------------------------
SD_PROPS = {"split_node_age_summaries": ("gen_get_split_node_age_summaries", "ODS"),
            "split_edge_length_summaries": ("gen_get_split_edge_length_summaries", "ODS"),
            "split_frequencies": ("gen_get_split_frequencies", "ODQ")}
LENGTH_TARGETS = ("node.edge.length", "node.age")


def only_length_effects(stmts):
    """the statements assign node.edge.length / node.age, raise, pass, branch, loop over the tree's nodes
    or call tree.set_edge_lengths_from_node_ages - and nothing else"""
    for s in stmts:
        if isinstance(s, (ast.Pass, ast.Raise)):
            continue
        if isinstance(s, ast.Assign):
            if len(s.targets) != 1 or ast.unparse(s.targets[0]) not in LENGTH_TARGETS:
                return False
            if any(isinstance(n, ast.Call) and ast.unparse(n.func) != "self.no_data_values.get" for n in ast.walk(s.value)):
                return False
            continue
        if isinstance(s, ast.If):
            if any(isinstance(n, ast.Call) for n in ast.walk(s.test)):
                return False
            if not only_length_effects(s.body) or not only_length_effects(s.orelse):
                return False
            continue
        if isinstance(s, ast.Try):
            if s.finalbody or s.orelse or not only_length_effects(s.body) \
                    or not all(only_length_effects(h.body) for h in s.handlers):
                return False
            continue
        if isinstance(s, ast.For):
            if ast.unparse(s.iter) != "tree" or ast.unparse(s.target) != "node" or s.orelse \
                    or not only_length_effects(s.body):
                return False
            continue
        if isinstance(s, ast.Expr) and isinstance(s.value, ast.Call) \
                and ast.unparse(s.value.func) == "tree.set_edge_lengths_from_node_ages":
            continue
        return False
    return True


def mentions_set_edge_lengths(test):
    return any(is_self_attr(n, "set_edge_lengths") for n in ast.walk(test))


class View:
    def __init__(self, fn):
        self.fn = fn
        self.env = {"split_distribution": "SDX", "tree": "TREE", "is_bipartitions_updated": "B"}
        self.tmp = 0

    def fresh(self, base):
        self.tmp += 1
        return "%s%d" % (base, self.tmp)

    # ---- expressions: -> (pre-bindings, text, type); a pre-binding is ("let"|"bind", pattern, text)
    def ex(self, e):
        if isinstance(e, ast.Constant):
            v = e.value
            if isinstance(v, bool):
                return [], ("true" if v else "false"), "B"
            if isinstance(v, float):
                return [], qlit(v), "Q"
            if isinstance(v, int):
                return [], "(%d)" % v, "Z"
            if isinstance(v, str):
                return [], cstr(v), "STR"
            bad(e, "constant")
        if isinstance(e, ast.Name):
            if e.id in self.env:
                return [], e.id, self.env[e.id]
            bad(e, "unknown name")
        if is_self_attr(e):
            if e.attr in DOPTS_TY and e.attr != "dyn":
                return [], "(d_%s self)" % e.attr, DOPTS_TY[e.attr]
            bad(e, "summarizer attribute outside the model's record")
        if isinstance(e, ast.Attribute):
            src = ast.unparse(e)
            if src == "node.edge.bipartition.split_bitmask" and self.env.get("node") == "DNODE":
                return [], "(py_dn_split node)", "Z"
            if isinstance(e.value, ast.Name) and self.env.get(e.value.id) == "SDX" and e.attr in SD_PROPS:
                f, ty = SD_PROPS[e.attr]
                v = self.fresh("r")
                return [("let", "'(%s, %s)" % (e.value.id, v), "%s cfg %s" % (f, e.value.id))], v, ty
            bad(e, "attribute")
        if isinstance(e, ast.BinOp) and isinstance(e.op, ast.Mult):
            p1, a, ta = self.ex(e.left)
            p2, b, tb = self.ex(e.right)
            if ta == "Q" and tb == "Z":
                return p1 + p2, "(py_fmul %s (py_Z2Q %s))" % (a, b), "Q"
            bad(e, "multiplication of %s by %s" % (ta, tb))
        if isinstance(e, ast.UnaryOp) and isinstance(e.op, ast.Not):
            p, t, ty = self.ex(e.operand)
            return p, "(negb %s)" % self.truth(t, ty, e), "B"
        if isinstance(e, ast.BoolOp):
            pre, parts = [], []
            for v in e.values:
                p, t, ty = self.ex(v)
                if p:
                    bad(e, "effectful operand of a boolean operator")
                parts.append(self.truth(t, ty, v))
            op = "andb" if isinstance(e.op, ast.And) else "orb"
            out = parts[-1]
            for x in reversed(parts[:-1]):
                out = "(%s %s %s)" % (op, x, out)
            return pre, out, "B"
        if isinstance(e, ast.Compare) and len(e.ops) == 1:
            op, r = e.ops[0], e.comparators[0]
            if isinstance(op, (ast.Is, ast.IsNot)) and isinstance(r, ast.Constant) and r.value is None:
                p, t, ty = self.ex(e.left)
                if ty not in ("OU", "OB", "OQ"):
                    bad(e, "`is None` on %s" % ty)
                res = "(py_is_none %s)" % t
                return p, (res if isinstance(op, ast.Is) else "(negb %s)" % res), "B"
            if isinstance(op, (ast.In, ast.NotIn)):
                p1, k, kty = self.ex(e.left)
                p2, d, dty = self.ex(r)
                if kty == "Z" and dty == "ODS":
                    res = "(py_odict_has %s %s)" % (d, k)
                    return p1 + p2, (res if isinstance(op, ast.In) else "(negb %s)" % res), "B"
            bad(e, "comparison")
        if isinstance(e, ast.Call):
            return self.call(e)
        if isinstance(e, ast.Subscript):
            bad(e, "bare subscript")
        bad(e, "expression")

    def truth(self, t, ty, node):
        if ty == "B":
            return t
        if ty == "OB":
            return "(py_truth_obool %s)" % t
        if ty == "ODS":
            return "(py_truth_odict %s)" % t
        bad(node, "truthiness of %s" % ty)

    def call(self, e):
        f = e.func
        src = ast.unparse(f)
        # <dict>.get(k, d)
        if isinstance(f, ast.Attribute) and f.attr == "get" and len(e.args) == 2 and not e.keywords:
            # summaries[split].get(field, dflt)
            if isinstance(f.value, ast.Subscript):
                p1, d, dty = self.ex(f.value.value)
                p2, k, kty = self.ex(f.value.slice)
                p3, fld, fty = self.ex(e.args[0])
                p4, dv, dvty = self.ex(e.args[1])
                if (dty, kty, fty, dvty) != ("ODS", "Z", "STR", "DV"):
                    bad(e, "summary lookup types")
                v = self.fresh("sv")
                return p1 + p2 + p3 + p4 + [("bind", v, "(py_summ_get %s %s %s %s)" % (d, k, fld, dv))], v, "DV"
            p1, d, dty = self.ex(f.value)
            p2, k, kty = self.ex(e.args[0])
            p3, dv, dvty = self.ex(e.args[1])
            if dty == "ODQ" and kty == "Z" and dvty == "Q":
                return p1 + p2 + p3, "(py_odict_get %s %s %s)" % (d, k, dv), "Q"
            if dty == "SDICT" and kty == "STR":
                return p1 + p2 + p3, "(py_sdict_get %s %s %s)" % (d, k, self.as_dv(dv, dvty, e)), "DV"
            bad(e, ".get on %s" % dty)
        if isinstance(f, ast.Name) and f.id == "zip" and len(e.args) == 2 and not e.keywords:
            p1, a, ta = self.ex(e.args[0])
            p2, b, tb = self.ex(e.args[1])
            if ta == "LSTR" and tb == "LSTR":
                return p1 + p2, "(py_zip %s %s)" % (a, b), "ZIPSTR"
            bad(e, "zip of %s, %s" % (ta, tb))
        if isinstance(f, ast.Name) and self.env.get(f.id) == "LABELFN" and len(e.args) == 1 and not e.keywords:
            p, a, ta = self.ex(e.args[0])
            if ta != "Q":
                bad(e, "label function argument")
            v = self.fresh("lb")
            return p + [("bind", v, "(%s %s)" % (f.id, a))], v, "LABEL"
        bad(e, "call")

    def as_dv(self, t, ty, node):
        if ty == "DV":
            return t
        if ty == "Q":
            return "(DFloat %s)" % t
        bad(node, "cannot hand a %s to _decorate / use it as a field value" % ty)

    def wrap(self, pre, body):
        for kind, pat, text in reversed(pre):
            if kind == "let":
                body = "let %s := %s in\n  %s" % (pat, text, body)
            else:
                body = "py_bind %s (fun %s =>\n  %s)" % (text, pat, body)
        return body

    # ---- lambdas for the label
    def label_lambda(self, lam):
        if not (isinstance(lam, ast.Lambda) and [a.arg for a in lam.args.args] == ["freq"]):
            bad(lam, "label lambda")
        b = lam.body
        if ast.unparse(b) == "self.support_label_compose_fn(freq)":
            return "(fun freq => py_label_compose (match d_support_label_compose_fn self with Some f => f | None => tt end) freq)"
        if isinstance(b, ast.Call) and isinstance(b.func, ast.Attribute) and b.func.attr == "format" \
                and isinstance(b.func.value, ast.Constant) and b.func.value.value == "{:.{places}f}" \
                and len(b.args) == 1 and ast.unparse(b.args[0]) == "freq" and len(b.keywords) == 1 \
                and b.keywords[0].arg == "places":
            p, t, ty = self.ex(b.keywords[0].value)
            if p or ty != "Z":
                bad(b, "places argument")
            return "(fun freq => py_label_format freq %s)" % t
        bad(lam, "label lambda body")

    # ---- statements.  vars: the variables a nested block may rebind, returned at its end
    def block(self, stmts, end):
        """end() -> text closing the block"""
        if not stmts:
            return end()
        s, rest = stmts[0], stmts[1:]
        nxt = lambda: self.block(rest, end)
        src = ast.unparse(s)
        if isinstance(s, ast.Assert) and src == \
                "assert len(self.node_age_summaries_fieldnames) == len(self.summary_stats_fieldnames)":
            return "(* %s *)\n  " % src + nxt()
        if isinstance(s, ast.If):
            return self.if_(s, nxt)
        if isinstance(s, ast.Assign) and len(s.targets) == 1:
            tg = s.targets[0]
            if isinstance(tg, ast.Name):
                p, t, ty = self.ex(s.value)
                if tg.id in self.env and self.env[tg.id] != ty:
                    bad(s, "variable %s changes its type" % tg.id)
                self.env[tg.id] = ty
                return self.wrap(p, "let %s := %s in\n  %s" % (tg.id, t, nxt()))
            if ast.unparse(tg) == "node.label" and self.env.get("node") == "DNODE":
                p, t, ty = self.ex(s.value)
                if ty != "LABEL":
                    bad(s, "label value")
                return self.wrap(p, "let node := py_dn_set_label node %s in\n  %s" % (t, nxt()))
            bad(s, "assignment")
        if isinstance(s, ast.Expr) and isinstance(s.value, ast.Call) and ast.unparse(s.value.func) == "self._decorate":
            c = s.value
            kws = {k.arg: k.value for k in c.keywords}
            if c.args or set(kws) != {"target", "fieldname", "value", "set_attribute", "set_annotation"}:
                bad(s, "_decorate call shape")
            tsrc = ast.unparse(kws["target"])
            if self.env.get("node") != "DNODE" or tsrc not in ("node", "node.edge"):
                bad(s, "_decorate target")
            getter, setter = ("dn_node", "py_dn_set_node") if tsrc == "node" else ("dn_edge", "py_dn_set_edge")
            pre = []
            args = []
            for k, want in (("fieldname", "STR"), ("value", "DV"), ("set_attribute", "B"), ("set_annotation", "B")):
                p, t, ty = self.ex(kws[k])
                pre += p
                if want == "DV":
                    t = self.as_dv(t, ty, s)
                elif ty != want:
                    bad(s, "_decorate argument %s has type %s" % (k, ty))
                args.append(t)
            v = self.fresh("dt")
            return self.wrap(pre, "py_bind (gen_decorate self (%s node) %s) (fun %s =>\n  let node := %s node %s in\n  %s)"
                             % (getter, " ".join(args), v, setter, v, nxt()))
        if isinstance(s, ast.For):
            return self.for_(s, nxt)
        if isinstance(s, ast.Return) and src == "return tree" and not rest:
            return "Ok (split_distribution, u_outs)"
        bad(s, "statement")

    def if_(self, s, nxt):
        src = ast.unparse(s.test)
        if src == "split_distribution.taxon_namespace is not tree.taxon_namespace" and len(s.body) == 1 \
                and isinstance(s.body[0], ast.Raise) and not s.orelse:
            return "(* if %s: raise -- namespace identity *)\n  " % src + nxt()
        if src == "not is_bipartitions_updated" and len(s.body) == 1 and not s.orelse \
                and ast.unparse(s.body[0]) == "tree.encode_bipartitions()":
            return "(* if not is_bipartitions_updated: tree.encode_bipartitions() -- the nodes are given as encoded *)\n  " + nxt()
        # the label function
        if len(s.body) == 1 and len(s.orelse) == 1 and all(
                isinstance(x, ast.Assign) and ast.unparse(x.targets[0]) == "support_label_fn" for x in s.body + s.orelse):
            p, c, cty = self.ex(s.test)
            if p or cty != "B":
                bad(s, "label-function condition")
            a = self.label_lambda(s.body[0].value)
            b = self.label_lambda(s.orelse[0].value)
            self.env["support_label_fn"] = "LABELFN"
            return "let support_label_fn := if %s\n    then %s\n    else %s in\n  %s" % (c, a, b, nxt())
        # the other view: everything governed by self.set_edge_lengths
        if mentions_set_edge_lengths(s.test):
            if not only_length_effects([s]):
                bad(s, "the set_edge_lengths statement does something else than assigning node.edge.length / node.age")
            return "(* if %s ...: edge lengths / node ages -- the other view (Gen/SplitDist.v) *)\n  " % src[:60] + nxt()
        # generic: one rebinding of a single variable
        a1, a2 = self.assigned_raw(s.body), self.assigned_raw(s.orelse)
        vs = [x for x in a1 + [y for y in a2 if y not in a1] if x in self.env or (x in a1 and x in a2)]
        if len(vs) != 1:
            bad(s, "if rebinding %s" % vs)
        v = vs[0]
        p, c, cty = self.ex(s.test)
        c = self.truth(c, cty, s)
        env0 = dict(self.env)
        tys = []

        def endk():
            if v not in self.env:
                bad(s, "variable %s not defined at the end of a branch" % v)
            tys.append(self.env[v])
            return "Ok %s" % v
        a = self.block(s.body, endk)
        self.env = dict(env0)
        b = self.block(s.orelse, endk)
        self.env = env0
        if len(set(tys)) != 1:
            bad(s, "variable %s has types %s in the branches" % (v, tys))
        self.env[v] = tys[0]
        return self.wrap(p, "py_bind (if %s\n  then %s\n  else %s) (fun %s =>\n  %s)" % (c, a, b, v, nxt()))

    def assigned(self, stmts):
        # locals introduced and consumed inside the block do not escape
        return [v for v in self.assigned_raw(stmts) if v in self.env]

    def assigned_raw(self, stmts):
        out = []
        for st in stmts:
            for n in ast.walk(st):
                name = None
                if isinstance(n, ast.Assign):
                    t = n.targets[0]
                    if isinstance(t, ast.Name):
                        name = t.id
                    elif ast.unparse(t) == "node.label":
                        name = "node"
                    else:
                        bad(n, "assignment target")
                if isinstance(n, ast.Call) and ast.unparse(n.func) == "self._decorate":
                    name = "node"
                if name and name not in out:
                    out.append(name)
        return out

    def for_(self, s, nxt):
        if s.orelse:
            bad(s, "for-else")
        if ast.unparse(s.iter) == "tree" and ast.unparse(s.target) == "node":
            if "u_outs" in self.env:
                bad(s, "second loop over the tree in the decoration view")
            env0 = dict(self.env)
            self.env["node"] = "DNODE"
            body = self.block(s.body, lambda: "Ok (py_append u_outsacc node)")
            self.env = env0
            self.env["u_outs"] = "LDNODE"
            return "py_bind (py_forM (py_dtree_nodes tree) (fun node u_outsacc =>\n  %s) []) (fun u_outs =>\n  %s)" % (body, nxt())
        p, it, ity = self.ex(s.iter)
        if ity == "ZIPSTR" and isinstance(s.target, ast.Tuple) and len(s.target.elts) == 2 \
                and all(isinstance(x, ast.Name) for x in s.target.elts) and self.env.get("node") == "DNODE":
            a, b = [x.id for x in s.target.elts]
            env0 = dict(self.env)
            self.env[a], self.env[b] = "STR", "STR"
            if self.assigned(s.body) != ["node"]:
                bad(s, "field loop rebinding %s" % self.assigned(s.body))
            body = self.block(s.body, lambda: "Ok node")
            self.env = env0
            return self.wrap(p, "py_bind (py_forM %s (fun '(%s, %s) node =>\n  %s) node) (fun node =>\n  %s)"
                             % (it, a, b, body, nxt()))
        bad(s, "loop")


def compile_view(tcm):
    fn = find_method(find_class(tcm, "SplitDistributionSummarizer"), "summarize_splits_on_tree")
    names = [a.arg for a in fn.args.args]
    if names != ["self", "split_distribution", "tree", "is_bipartitions_updated"] or fn.args.vararg or fn.args.kwarg:
        raise Unsupported("summarize_splits_on_tree: signature %s" % names)
    v = View(fn)
    stmts = strip_doc(fn.body)
    # the trailing edge-length pass: everything between the node loop and `return tree`
    body = v.block(stmts, lambda: bad(fn, "control reaches the end of summarize_splits_on_tree"))
    return ("(* SplitDistributionSummarizer.summarize_splits_on_tree, line %d: the decoration view *)\n"
            "Definition gen_decoration_view (cfg : config) (self : dopts) (split_distribution : sdx) (tree : list dnode)\n"
            "           (is_bipartitions_updated : bool) : res (sdx * list dnode) :=\n  %s.\n" % (fn.lineno, body))


HEADER = """(* GENERATED by py/dv/gen_splitdist_deco.py from datamodel/treecollectionmodel.py -- do not edit *)
From Coq Require Import ZArith QArith Qabs List Bool String.
From DV Require Import Model.PyPrims Gen.BitFns Model.C05Model Model.C05Spec Model.C05Model2
     Model.C05GenPrims Model.C05GenPrims2 Model.C05GenPrims4 Gen.SplitDist.
Import ListNotations.
Open Scope Z_scope.
"""


def generate(repo):
    with open(os.path.join(repo, "src", "dendropy", TCM)) as f:
        tcm = ast.parse(f.read())
    return "\n".join([HEADER, compile_configure(tcm), compile_decorate(tcm), compile_view(tcm)])
