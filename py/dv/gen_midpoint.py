"""Translator: Tree.reroot_at_midpoint (datamodel/treemodel/_tree.py)  ->  coq/Gen/Midpoint.v.

A small type-directed statement compiler over the Python `ast`.  The body of the method is compiled
statement by statement into one Gallina function in the `res` monad over the representation of
coq/Model/C07Model.v (id-carrying rose trees, lengths as Z; the function is applied to the tree with
doubled lengths).  The run-time library and the Python semantics relied upon are stated in
coq/Model/C07GenMidPrims.v; the proof that the generated function equals C07Model.midpoint_core is
coq/Proofs/C07GenMidpoint.v.

What comes from the AST: every operator and comparison direction, which variable is read / assigned,
argument order, the keyword arguments of the calls (bound against the CURRENT signatures of
Tree.reseed_at / Tree.encode_bipartitions, defaults included), the loop structure (`for` with `break`,
`while` with `break` -> for_break / while_fuel over the tuple of variables the body assigns), the
order of the statements.  Interface operations (only their call shape is compiled): the
PhylogeneticDistanceMatrix queries, Tree.leaf_node_iter, Tree.reseed_at,
Tree.update_bipartitions, and the POINTER BLOCK of the method (the statements that change the object graph
through local variables - the edge split): ONE operation here (op_split_block, applied to the variables the
block reads in order of first use), whatever the statements inside are; py/dv/gen_mutators.py compiles those
statements one by one over the heap (Gen/Mutators.v Tree_reroot_at_midpoint__edge_split) and Props/C07Gen.v
proves the compiled block equal to the operation, see Fn.pointer_block_call.

Wave 8: Node.distance_from_root (datamodel/treemodel/_node.py) is NOT an interface operation: class NodeFn
compiles the method itself with the same statement compiler (`self` is a node reference; if/elif chain with
short-circuit and/or, `not`, `== None` / `!= None` / truth value of a length, the `bound method == None` test,
float(), the while loop over the parent pointers, `return` at the end of every branch) into
gen_distance_from_root in the same file; gen_reroot_at_midpoint calls it.  Proofs/C07GenDfr.v proves it equal to
C07Model.dfr for every mixture of None, zero and non-zero lengths.

Whitelist: anything not recognised raises Unsupported (fail closed)."""
import ast
import os

from dv.gen_mutators import pointer_block, is_pointer_stmt, Unsupported as MutUnsupported

OUTPUT = "Midpoint.v"


class Unsupported(Exception):
    pass


# ---------------------------------------------------------------------------------------- types
Z, OZ, BOOL, NODE, EDGE, NODEID, TAXON, PDM, NONE, GSTATE, OPTPAIR = (
    "Z", "OZ", "BOOL", "NODE", "EDGE", "NODEID", "TAXON", "PDM", "NONE", "GSTATE", "OPTPAIR")


def TList(t):
    return ("LIST", t)


OPTIONAL = (OZ, NODE, EDGE, TAXON)


def join(a, b):
    if a is None:
        return b
    if b is None or a == b:
        return a
    for x, y in ((a, b), (b, a)):
        if x == NONE:
            if y in OPTIONAL:
                return y
            if y == Z:
                return OZ
        if x == Z and y == OZ:
            return OZ
    raise Unsupported("cannot join types %s and %s" % (a, b))


def dump(n):
    return ast.dump(n)[:120]


def assigned_vars(stmts):
    """Names assigned anywhere in the statements (order of first occurrence); `self` when the object
    graph is mutated (attribute store below self / a node, a mutating method call)."""
    out = []

    def add(n):
        if n not in out:
            out.append(n)

    def target(t):
        if isinstance(t, ast.Name):
            add(t.id)
        elif isinstance(t, ast.Tuple):
            for e in t.elts:
                target(e)
        elif isinstance(t, ast.Subscript) and isinstance(t.value, ast.Name):
            add(t.value.id)
        elif isinstance(t, ast.Attribute):
            add("self")
        else:
            raise Unsupported("assignment target " + dump(t))

    def walk(ss):
        for s in ss:
            if isinstance(s, ast.Assign):
                for t in s.targets:
                    target(t)
                if isinstance(s.value, ast.Call) and _is_node_ctor(s.value):
                    add("self")
            elif isinstance(s, ast.AugAssign):
                target(s.target)
            elif isinstance(s, ast.For):
                walk(s.body)
                if s.orelse:
                    raise Unsupported("for-else")
            elif isinstance(s, ast.While):
                walk(s.body)
                if s.orelse:
                    raise Unsupported("while-else")
            elif isinstance(s, ast.If):
                walk(s.body)
                walk(s.orelse)
            elif isinstance(s, ast.Expr) and isinstance(s.value, ast.Call):
                add("self")
            elif isinstance(s, (ast.Break, ast.Assert, ast.Return, ast.ImportFrom, ast.Expr, ast.Pass)):
                pass
            else:
                raise Unsupported("statement " + dump(s))

    walk(stmts)
    return out


def has_break(stmts):
    for s in stmts:
        if isinstance(s, (ast.Break, ast.Return)):
            return True
        if isinstance(s, ast.If) and (has_break(s.body) or has_break(s.orelse)):
            return True
    return False


def _is_node_ctor(call):
    f = call.func
    return (isinstance(f, ast.Attribute) and f.attr == "Node" and isinstance(f.value, ast.Name)
            and f.value.id == "_node" and not call.args and not call.keywords)


def bind_call(sig, call, skip_first=True):
    """Python's argument binding of `call` against the FunctionDef `sig`: name -> ast expr."""
    a = sig.args
    if a.vararg or a.kwarg or a.kwonlyargs or a.posonlyargs:
        raise Unsupported("signature form of " + sig.name)
    names = [x.arg for x in a.args]
    if skip_first:
        names = names[1:]
    defaults = dict(zip(names[len(names) - len(a.defaults):], a.defaults))
    bound = {}
    if len(call.args) > len(names):
        raise Unsupported("too many arguments for " + sig.name)
    for n, e in zip(names, call.args):
        bound[n] = e
    for kw in call.keywords:
        if kw.arg is None or kw.arg not in names or kw.arg in bound:
            raise Unsupported("keyword %r of %s" % (kw.arg, sig.name))
        bound[kw.arg] = kw.value
    for n in names:
        if n not in bound:
            if n not in defaults:
                raise Unsupported("missing argument %s of %s" % (n, sig.name))
            bound[n] = defaults[n]
    return bound


class Ctx(object):
    """where a block ends: `end` is emitted after the last statement, `brk` at a break"""

    def __init__(self, end, brk=None, top=False):
        self.end, self.brk, self.top = end, brk, top


class Fn(object):
    self_type = GSTATE
    fuel_term = "(loop_fuel self)"
    node_methods = ()

    def __init__(self, fn, sigs):
        self.fn = fn
        try:
            self.ptr_block = pointer_block(fn)
        except MutUnsupported as e:
            raise Unsupported(str(e))
        self.sigs = sigs
        self.env = {}
        self.strict = False
        self.n = 0
        self.before = {}

    # ------------------------------------------------------------------ helpers
    def fresh(self, base):
        self.n += 1
        return "%s_%d" % (base, self.n)

    def declare(self, name, ty):
        if self.strict:
            return
        self.env[name] = join(self.env.get(name), ty)

    def coerce(self, term, ty, to):
        if ty == to:
            return term
        if ty == Z and to == OZ:
            return "(Some %s)" % term
        if ty == NONE and to in OPTIONAL:
            return "None"
        if ty == NONE and not self.strict:
            return term
        if to == NONE and not self.strict:
            return term
        raise Unsupported("cannot use a %s where a %s is expected (%s)" % (ty, to, term))

    @staticmethod
    def tup(vs):
        if not vs:
            return "tt"
        return vs[0] if len(vs) == 1 else "(" + ", ".join(vs) + ")"

    @staticmethod
    def pat(vs, quote=True):
        # `fun '(a, b) => ..` needs the quote, the pattern position of the `do` notation does not take it
        if not vs:
            return "_"
        return vs[0] if len(vs) == 1 else ("'" if quote else "") + "(" + ", ".join(vs) + ")"

    # ------------------------------------------------------------------ expressions
    # returns (binds, term, type); binds are lines to emit before the term is used
    def expr(self, e):
        if isinstance(e, ast.Name):
            if e.id == "self":
                return [], "self", self.self_type
            if e.id not in self.env:
                raise Unsupported("unknown name " + e.id)
            return [], e.id, self.env[e.id]
        if isinstance(e, ast.Constant):
            if e.value is None:
                return [], "None", NONE
            if e.value is True or e.value is False:
                return [], ("true" if e.value else "false"), BOOL
            if isinstance(e.value, int):
                return [], ("%d" % e.value if e.value >= 0 else "(%d)" % e.value), Z
            if isinstance(e.value, float) and e.value == 0.0:
                return [], "0", Z                           # 0.0: lengths are exact dyadics, see C07GenMidPrims
            raise Unsupported("constant " + dump(e))
        if isinstance(e, ast.List):
            parts = [self.expr(x) for x in e.elts]
            if any(b for b, _, _ in parts):
                raise Unsupported("effects in a list display")
            ty = None
            for _, _, t in parts:
                ty = join(ty, t)
            ty = NODE if ty == NONE else ty       # [None, None] is a list of node references here
            return [], "[" + "; ".join(self.coerce(t, y, ty) for _, t, y in parts) + "]", TList(ty)
        if isinstance(e, ast.Tuple):
            parts = [self.expr(x) for x in e.elts]
            if any(b for b, _, _ in parts):
                raise Unsupported("effects in a tuple display")
            ty = None
            for _, _, t in parts:
                ty = join(ty, t)
            return [], "[" + "; ".join(self.coerce(t, y, ty) for _, t, y in parts) + "]", TList(ty)
        if isinstance(e, ast.Subscript):
            b1, lt, lty = self.expr(e.value)
            b2, it, ity = self.expr(e.slice)
            if not (isinstance(lty, tuple) and lty[0] == "LIST") or ity != Z:
                raise Unsupported("subscript " + dump(e))
            v = self.fresh("item")
            return b1 + b2 + ["do %s <- list_get %s %s ;;" % (v, lt, it)], v, lty[1]
        if isinstance(e, ast.Attribute):
            return self.attribute(e)
        if isinstance(e, ast.Compare):
            return self.compare(e)
        if isinstance(e, ast.BoolOp):
            parts = [self.expr(x) for x in e.values]
            if any(b for b, _, _ in parts[1:]):
                # short circuit: the right operand (and what it reads - an attribute of None raises) is
                # evaluated only when the left one does not decide
                if len(parts) != 2:
                    raise Unsupported("effects in the right operands of a chained and/or")
                (b0, t0, y0), (b1, t1, y1) = parts
                v = self.fresh("and" if isinstance(e.op, ast.And) else "or")
                right = b1 + ["Ok %s" % self.truth(t1, y1)]
                if isinstance(e.op, ast.And):
                    return (b0 + ["do %s <- (if %s then (" % (v, self.truth(t0, y0))] + right + [") else Ok false) ;;"],
                            v, BOOL)
                return (b0 + ["do %s <- (if %s then Ok true else (" % (v, self.truth(t0, y0))] + right + [")) ;;"],
                        v, BOOL)
            op = {ast.Or: " || ", ast.And: " && "}[type(e.op)]
            return parts[0][0], "(" + op.join(self.truth(t, y) for _, t, y in parts) + ")", BOOL
        if isinstance(e, ast.UnaryOp) and isinstance(e.op, ast.Not):
            b, t, ty = self.expr(e.operand)
            return b, "(negb %s)" % self.truth(t, ty), BOOL
        if isinstance(e, ast.BinOp):
            b1, lt, lty = self.expr(e.left)
            b2, rt, rty = self.expr(e.right)
            if isinstance(e.op, ast.Sub):
                if lty == Z and rty == Z:
                    return b1 + b2, "(%s - %s)" % (lt, rt), Z
                v = self.fresh("diff")
                return (b1 + b2 + ["do %s <- py_sub %s %s ;;" % (v, self.coerce(lt, lty, OZ), self.coerce(rt, rty, OZ))],
                        v, Z)
            if isinstance(e.op, ast.Add) and lty == Z and rty == Z:
                return b1 + b2, "(%s + %s)" % (lt, rt), Z
            if (isinstance(e.op, ast.Div) and lty == Z and isinstance(e.right, ast.Constant)
                    and e.right.value == 2 and isinstance(e.left, ast.Call)
                    and isinstance(e.left.func, ast.Name) and e.left.func.id == "float"):
                return b1, "(py_half %s)" % lt, Z           # float(d) / 2, see C07GenMidPrims.py_half
            raise Unsupported("binary operation " + dump(e))
        if isinstance(e, ast.Call):
            return self.call(e)
        raise Unsupported("expression " + dump(e))

    def truth(self, t, ty):
        if ty == BOOL:
            return t
        if ty in (NODE, EDGE):
            # Node / Edge define neither __bool__ nor __len__ (checked in generate): true iff not None
            return "(is_some %s)" % t
        if ty == OZ:
            # an edge length (None, int or float): None, 0 and 0.0 are false
            return "(oz_truth %s)" % t
        if ty == Z:
            return "(negb (%s =? 0))" % t
        raise Unsupported("truth value of a %s" % ty)

    def attribute(self, e):
        b, vt, vty = self.expr(e.value)
        v = self.fresh(e.attr.strip("_"))
        table = {
            (NODE, "taxon"): ("rd_taxon", TAXON),
            (NODE, "_parent_node"): ("rd_parent", NODE),
            (NODE, "edge"): ("rd_edge", EDGE),
            (EDGE, "length"): ("edge_length", OZ),
            (EDGE, "head_node"): ("edge_head", NODE),
            (EDGE, "tail_node"): ("edge_tail", NODE),
        }
        if (vty, e.attr) in table:
            f, ty = table[(vty, e.attr)]
            return b + ["do %s <- %s %s ;;" % (v, f, vt)], v, ty
        if vty == NONE and not self.strict:
            return b, vt, NONE
        raise Unsupported("attribute %s of a %s" % (e.attr, vty))

    def compare(self, e):
        if len(e.ops) != 1:
            raise Unsupported("chained comparison")
        op = e.ops[0]
        rhs = e.comparators[0]
        if (isinstance(op, (ast.Eq, ast.NotEq, ast.Is, ast.IsNot)) and isinstance(rhs, ast.Constant)
                and rhs.value is None and isinstance(e.left, ast.Attribute) and e.left.attr in self.node_methods):
            # `<node>.<method> == None`: the attribute is a BOUND METHOD (a plain `def` of Node, checked in
            # generate; it is not called), which is never None; only reading <node> has an effect
            b, vt, vty = self.expr(e.left.value)
            if vty != NODE:
                raise Unsupported("method %s of a %s" % (e.left.attr, vty))
            v = self.fresh("obj")
            return (b + ["do %s <- rd_edge %s ;;" % (v, vt)],        # attribute access on None raises
                    "true" if isinstance(op, (ast.NotEq, ast.IsNot)) else "false", BOOL)
        b1, lt, lty = self.expr(e.left)
        b2, rt, rty = self.expr(rhs)
        b = b1 + b2
        if isinstance(op, (ast.Eq, ast.NotEq)) and rty == NONE and lty == OZ:
            # a length is None, an int or a float: `== None` holds exactly for None
            t = "(is_some %s)" % lt
            return b, (t if isinstance(op, ast.NotEq) else "(negb %s)" % t), BOOL
        if isinstance(op, (ast.Is, ast.IsNot)):
            neg = isinstance(op, ast.IsNot)
            if rty == NONE and lty in OPTIONAL:
                t = "(is_some %s)" % lt
                return b, (t if neg else "(negb %s)" % t), BOOL
            if lty == TAXON and rty == TAXON:
                t = "(oz_eqb %s %s)" % (lt, rt)        # taxon objects are their identities
            elif lty == NODE and rty == NODEID:
                t = "(node_is_id %s %s)" % (lt, rt)
            elif lty == NODEID and rty == NODE:
                t = "(node_is_id %s %s)" % (rt, lt)
            elif not self.strict and NONE in (lty, rty):
                t = "true"
            else:
                raise Unsupported("identity test between %s and %s" % (lty, rty))
            return b, ("(negb %s)" % t if neg else t), BOOL
        if isinstance(op, ast.Eq) and lty == Z and rty == Z:
            return b, "(%s =? %s)" % (lt, rt), BOOL
        if isinstance(op, (ast.Lt, ast.Gt, ast.LtE, ast.GtE)) and lty in (Z, OZ, NONE) and rty in (Z, OZ, NONE):
            v = self.fresh("cmp")
            f = {ast.Lt: "py_lt", ast.Gt: "py_gt", ast.LtE: "py_le", ast.GtE: "py_ge"}[type(op)]
            return b + ["do %s <- %s %s %s ;;" % (v, f, self.coerce(lt, lty, OZ), self.coerce(rt, rty, OZ))], v, BOOL
        raise Unsupported("comparison " + dump(e))

    def call(self, e):
        f = e.func
        if isinstance(f, ast.Name) and f.id == "float" and len(e.args) == 1 and not e.keywords:
            b, t, ty = self.expr(e.args[0])
            if ty in (OZ, NONE):
                v = self.fresh("float")
                return b + ["do %s <- py_float %s ;;" % (v, self.coerce(t, ty, OZ))], v, Z    # float(None): TypeError
            if ty != Z:
                raise Unsupported("float() of a %s" % ty)
            return b, t, Z
        if not isinstance(f, ast.Attribute) or e.keywords:
            raise Unsupported("call " + dump(e))
        if (isinstance(f.value, ast.Name) and f.value.id == "PhylogeneticDistanceMatrix" and f.attr == "from_tree"
                and len(e.args) == 1 and isinstance(e.args[0], ast.Name) and e.args[0].id == "self"):
            if "PhylogeneticDistanceMatrix" not in self.imported:
                raise Unsupported("PhylogeneticDistanceMatrix is not the imported class")
            v = self.fresh("pdm")
            return ["do %s <- pdm_from_tree pr self ;;" % v], v, PDM
        b, rt, rty = self.expr(f.value)
        args = [self.expr(a) for a in e.args]
        for ab, _, _ in args:
            b = b + ab
        key = (rty, f.attr, len(args))
        if key == (PDM, "max_pairwise_distance_taxa", 0):
            return b, "(pdm_max_pair %s)" % rt, OPTPAIR
        if key in ((PDM, "patristic_distance", 2), (PDM, "mrca", 2)):
            a1 = self.coerce(args[0][1], args[0][2], TAXON)
            a2 = self.coerce(args[1][1], args[1][2], TAXON)
            v = self.fresh("dist" if f.attr == "patristic_distance" else "mrca")
            fn, ty = ("pdm_patristic", Z) if f.attr == "patristic_distance" else ("pdm_mrca", NODEID)
            return b + ["do %s <- %s %s %s %s ;;" % (v, fn, rt, a1, a2)], v, ty
        if key == (GSTATE, "leaf_node_iter", 0):
            return b, "(leaf_node_iter self)", TList(NODE)
        if key == (NODE, "distance_from_root", 0):
            v = self.fresh("dfr")
            # Node.distance_from_root is translated too (gen_distance_from_root above in the same file)
            return b + ["do %s <- gen_distance_from_root %s ;;" % (v, rt)], v, Z
        raise Unsupported("method %s of a %s with %d arguments" % (f.attr, rty, len(args)))

    # ------------------------------------------------------------------ statements
    def flag(self, e):
        b, t, ty = self.expr(e)
        if b or ty != BOOL:
            raise Unsupported("flag argument " + dump(e))
        return t

    def stmt_call(self, e):
        """a call used as a statement: lines that rebind `self`"""
        f = e.func
        if not isinstance(f, ast.Attribute):
            raise Unsupported("call statement " + dump(e))
        b, rt, rty = self.expr(f.value)
        if rty == GSTATE and f.attr == "reseed_at":
            bound = bind_call(self.sigs["reseed_at"], e)
            nb, nt, nty = self.expr(bound.pop("new_seed_node"))
            if nty != NODE:
                raise Unsupported("reseed_at of a %s" % nty)
            if sorted(bound) != ["collapse_unrooted_basal_bifurcation", "suppress_unifurcations", "update_bipartitions"]:
                raise Unsupported("parameters of reseed_at: %s" % sorted(bound))
            return b + nb + ["do self <- op_reseed_at self %s %s %s %s ;;" % (
                nt, self.flag(bound["update_bipartitions"]), self.flag(bound["suppress_unifurcations"]),
                self.flag(bound["collapse_unrooted_basal_bifurcation"]))]
        if rty == GSTATE and f.attr == "update_bipartitions":
            bound = bind_call(self.sigs["encode_bipartitions"], e)
            for k, dflt in (("suppress_storage", False), ("is_bipartitions_mutable", False)):
                v = bound.pop(k)
                if not (isinstance(v, ast.Constant) and v.value is dflt):
                    raise Unsupported("update_bipartitions(%s=...)" % k)
            if sorted(bound) != ["collapse_unrooted_basal_bifurcation", "suppress_unifurcations"]:
                raise Unsupported("parameters of encode_bipartitions: %s" % sorted(bound))
            return b + ["let self := op_update_bipartitions self %s %s in" % (
                self.flag(bound["suppress_unifurcations"]), self.flag(bound["collapse_unrooted_basal_bifurcation"]))]
        raise Unsupported("call statement %s on a %s" % (f.attr, rty))

    def pointer_block_call(self):
        """The pointer block of the method (the maximal run of statements that change the object graph
        through local variables: dv.gen_mutators.pointer_block) as ONE operation, op_split_block, applied
        to the variables the block reads, in order of first use; it binds the variable the block assigns.
        Nothing about the statements inside the block is checked here: they are compiled one by one over
        the heap by gen_mutators (Gen/Mutators.v Tree_reroot_at_midpoint__edge_split, same parameters in
        the same order), and Props/C07Gen.v proves that compiled block equal to op_split_block."""
        _stmts, inputs, out = self.ptr_block
        args = []
        for name, kind in inputs:
            b, t, ty = self.expr(ast.Name(id=name, ctx=ast.Load()))
            if b:
                raise Unsupported("pointer block: effects in an input")
            args.append(self.coerce(t, ty, OZ if kind == "len" else NODE))
        self.declare(out, NODE)
        return ["do (self, %s) <- op_split_block fresh self %s ;;" % (out, " ".join(args))]

    def assign(self, target, value):
        if isinstance(target, ast.Name):
            b, t, ty = self.expr(value)
            self.declare(target.id, ty)
            return b + ["let %s := %s in" % (target.id, self.coerce(t, ty, self.env[target.id]))]
        if isinstance(target, ast.Tuple) and all(isinstance(x, ast.Name) for x in target.elts) and len(target.elts) == 2:
            b, t, ty = self.expr(value)
            if ty != OPTPAIR:
                raise Unsupported("unpacking a %s" % ty)
            for x in target.elts:
                self.declare(x.id, TAXON)
            return b + ["do (%s, %s) <- unpack2 %s ;;" % (target.elts[0].id, target.elts[1].id, t)]
        if isinstance(target, ast.Subscript) and isinstance(target.value, ast.Name):
            b0, lt, lty = self.expr(target.value)
            b1, it, ity = self.expr(target.slice)
            b2, vt, vty = self.expr(value)
            if not (isinstance(lty, tuple) and lty[0] == "LIST") or ity != Z:
                raise Unsupported("subscript store " + dump(target))
            return b0 + b1 + b2 + ["do %s <- list_set %s %s %s ;;" % (lt, lt, it, self.coerce(vt, vty, lty[1]))]
        if isinstance(target, ast.Attribute):
            if (isinstance(target.value, ast.Name) and target.value.id == "self" and target.attr == "is_rooted"):
                b, t, ty = self.expr(value)
                if b or ty != BOOL:
                    raise Unsupported("is_rooted = " + dump(value))
                return ["let self := op_set_rooted self (Some %s) in" % t]
        raise Unsupported("assignment to " + dump(target))

    def block(self, stmts, ctx):
        if not stmts:
            if ctx.top:
                raise Unsupported("the method does not end with a return")
            return [ctx.end]
        s, rest = stmts[0], stmts[1:]
        if isinstance(s, ast.Expr) and isinstance(s.value, ast.Constant) and isinstance(s.value.value, str):
            return self.block(rest, ctx)
        if isinstance(s, ast.Pass):
            return self.block(rest, ctx)
        if isinstance(s, ast.ImportFrom):
            if s.module != "dendropy.calculate.phylogeneticdistance" or s.level != 0:
                raise Unsupported("import from " + str(s.module))
            for a in s.names:
                if a.asname:
                    raise Unsupported("import ... as")
                self.imported.add(a.name)
            return self.block(rest, ctx)
        if isinstance(s, ast.Assign):
            if len(s.targets) != 1:
                raise Unsupported("chained assignment")
            return self.assign(s.targets[0], s.value) + self.block(rest, ctx)
        if isinstance(s, ast.AugAssign):
            if not isinstance(s.target, ast.Name):
                raise Unsupported("augmented assignment to " + dump(s.target))
            return self.assign(s.target, ast.BinOp(left=ast.Name(id=s.target.id, ctx=ast.Load()), op=s.op,
                                                   right=s.value)) + self.block(rest, ctx)
        if s is self.ptr_block[0][0]:
            n = len(self.ptr_block[0])
            if len(stmts) < n or any(a is not b for a, b in zip(stmts[:n], self.ptr_block[0])):
                raise Unsupported("pointer block is not a run of this statement list")
            return self.pointer_block_call() + self.block(stmts[n:], ctx)
        if is_pointer_stmt(s):
            raise Unsupported("pointer statement outside the pointer block: " + dump(s))
        if isinstance(s, ast.Expr) and isinstance(s.value, ast.Call):
            return self.stmt_call(s.value) + self.block(rest, ctx)
        if isinstance(s, ast.Assert):
            b, t, ty = self.expr(s.test)
            return b + ["if negb %s then Err AssertErr else" % self.truth(t, ty)] + self.block(rest, ctx)
        if isinstance(s, ast.Break):
            if ctx.brk is None:
                raise Unsupported("break outside a loop")
            return [ctx.brk]
        if isinstance(s, ast.Return):
            return self.ret(s, rest, ctx)
        if isinstance(s, ast.If):
            b, t, ty = self.expr(s.test)
            c = self.truth(t, ty)
            if has_break(s.body) or has_break(s.orelse):
                # the rest of the block is continued in the branches that do not leave it
                return (b + ["if %s then (" % c] + self.block(list(s.body) + rest, ctx) + [") else ("]
                        + self.block(list(s.orelse) + rest, ctx) + [")"])
            # joined after the `if`: what was defined before it or is assigned in both branches; a name
            # first assigned in one branch only is local to that branch
            if not self.strict:
                self.before[id(s)] = set(self.env)      # pass 1 visits in program order
            known = self.before[id(s)]
            both = set(assigned_vars(list(s.body))) & set(assigned_vars(list(s.orelse)))
            vs = [v for v in assigned_vars([s]) if v == "self" or v in known or v in both]
            inner = Ctx("Ok %s" % self.tup(vs))
            return (b + ["do %s <- (if %s then (" % (self.pat(vs, False), c)] + self.block(list(s.body), inner)
                    + [") else ("] + self.block(list(s.orelse), inner) + [")) ;;"] + self.block(rest, ctx))
        if isinstance(s, ast.For):
            if not isinstance(s.target, ast.Name):
                raise Unsupported("for target " + dump(s.target))
            b, it, ity = self.expr(s.iter)
            if not (isinstance(ity, tuple) and ity[0] == "LIST"):
                raise Unsupported("iteration over a %s" % (ity,))
            x = s.target.id
            self.declare(x, ity[1])
            vs = self.loop_vars(s.body, x)
            inner = Ctx("Ok (%s, false)" % self.tup(vs), "Ok (%s, true)" % self.tup(vs))
            return (b + ["do %s <- for_break %s (fun %s %s =>" % (self.pat(vs, False), it, x, self.pat(vs))]
                    + self.block(list(s.body), inner) + [") %s ;;" % self.tup(vs)] + self.block(rest, ctx))
        if isinstance(s, ast.While):
            vs = self.loop_vars(s.body, None)
            if not self.strict:      # the types the body gives to the loop variables are needed for the test
                save = self.n
                self.block(list(s.body), Ctx("Ok (%s, false)" % self.tup(vs), "Ok (%s, true)" % self.tup(vs)))
                self.n = save
            b, t, ty = self.expr(s.test)
            t = self.truth(t, ty)
            inner = Ctx("Ok (%s, false)" % self.tup(vs), "Ok (%s, true)" % self.tup(vs))
            return (["do %s <- while_fuel %s (fun %s =>" % (self.pat(vs, False), self.fuel_term, self.pat(vs))]
                    + b + ["Ok %s) (fun %s =>" % (t, self.pat(vs))]
                    + self.block(list(s.body), inner) + [") %s ;;" % self.tup(vs)] + self.block(rest, ctx))
        raise Unsupported("statement " + dump(s))

    def ret(self, s, rest, ctx):
        v = s.value
        if not (ctx.top and not rest and isinstance(v, ast.Attribute) and v.attr == "seed_node"
                and isinstance(v.value, ast.Name) and v.value.id == "self"):
            raise Unsupported("return " + dump(s))
        return ["Ok self"]        # the value returned is the seed node of the final state

    def check_defined(self, vs, what):
        for v in vs:
            if v != "self" and v not in self.env:
                raise Unsupported("%s defines the new variable %s" % (what, v))

    def loop_vars(self, body, target):
        vs = [v for v in assigned_vars(body) if v != target]
        if "self" in vs:
            raise Unsupported("the object graph is changed inside a loop")
        self.check_defined(vs, "loop body")
        return vs

    # ------------------------------------------------------------------ driver
    def translate(self):
        a = self.fn.args
        if a.vararg or a.kwarg or a.kwonlyargs or a.posonlyargs:
            raise Unsupported("argument form")
        params = [x.arg for x in a.args]
        if params[:1] != ["self"] or len(a.defaults) != len(params) - 1:
            raise Unsupported("parameters " + repr(params))
        dflts = []
        for d in a.defaults:
            if not (isinstance(d, ast.Constant) and isinstance(d.value, bool)):
                raise Unsupported("default " + dump(d))
            dflts.append("true" if d.value else "false")
        lines = None
        for strict in (False, True):
            self.strict = strict
            self.n = 0
            self.imported = set()
            if not strict:
                self.env = {p: BOOL for p in params[1:]}
            lines = self.block(list(self.fn.body), Ctx(None, None, top=True))
        head = ("Definition gen_reroot_at_midpoint (pr : option (option Z * option Z)) (fresh : Z) (self : gstate)\n"
                "    %s : res gstate :=" % " ".join("(%s : bool)" % p for p in params[1:]))
        dl = ("Definition gen_reroot_at_midpoint_defaults : list bool := [%s].   (* %s *)"
              % ("; ".join(dflts), ", ".join(params[1:])))
        return head + "\n" + "\n".join(lines) + ".\n\n" + dl + "\n"


class NodeFn(Fn):
    """Node.distance_from_root: `self` is a node reference, the method returns a number on every path
    (every `return` is the last statement of its branch; the loop has none)"""
    self_type = NODE
    fuel_term = "(node_fuel self)"
    node_methods = ("distance_from_root",)

    def __init__(self, fn):
        self.fn = fn
        self.ptr_block = ([object()], [], None)       # no pointer block in this method
        self.sigs = {}
        self.env = {}
        self.strict = False
        self.n = 0
        self.before = {}

    def ret(self, s, rest, ctx):
        if not ctx.top or rest or s.value is None:
            raise Unsupported("return " + dump(s))
        b, t, ty = self.expr(s.value)
        if ty != Z:
            raise Unsupported("return of a %s" % ty)
        return b + ["Ok %s" % t]

    def translate(self):
        a = self.fn.args
        if a.vararg or a.kwarg or a.kwonlyargs or a.posonlyargs or [x.arg for x in a.args] != ["self"]:
            raise Unsupported("argument form of distance_from_root")
        if self.fn.decorator_list:
            raise Unsupported("distance_from_root is decorated")
        for n in ast.walk(self.fn):
            if isinstance(n, ast.While) and has_break(n.body):
                raise Unsupported("return / break inside the loop of distance_from_root")
        lines = None
        for strict in (False, True):
            self.strict = strict
            self.n = 0
            self.imported = set()
            if not strict:
                self.env = {}
            lines = self.block(list(self.fn.body), Ctx(None, None, top=True))
        return ("Definition gen_distance_from_root (self : node) : res Z :=\n" + "\n".join(lines) + ".\n")


def find_method(tree, cls, name):
    for n in tree.body:
        if isinstance(n, ast.ClassDef) and n.name == cls:
            for m in n.body:
                if isinstance(m, ast.FunctionDef) and m.name == name:
                    return m
    raise Unsupported("%s.%s not found" % (cls, name))


def check_plain_identity(tree, cls):
    """truth value of an instance = `is not None`: the class must not define __bool__ / __len__"""
    for n in tree.body:
        if isinstance(n, ast.ClassDef) and n.name == cls:
            for m in n.body:
                if isinstance(m, ast.FunctionDef) and m.name in ("__bool__", "__len__", "__nonzero__"):
                    raise Unsupported("%s defines %s" % (cls, m.name))
            return
    raise Unsupported("class %s not found" % cls)


def generate(repo):
    tm = os.path.join(repo, "src", "dendropy", "datamodel", "treemodel")
    with open(os.path.join(tm, "_tree.py")) as f:
        tree = ast.parse(f.read())
    with open(os.path.join(tm, "_node.py")) as f:
        node_mod = ast.parse(f.read())
    check_plain_identity(node_mod, "Node")
    dfr_fn = find_method(node_mod, "Node", "distance_from_root")
    with open(os.path.join(tm, "_edge.py")) as f:
        check_plain_identity(ast.parse(f.read()), "Edge")
    fn = find_method(tree, "Tree", "reroot_at_midpoint")
    sigs = {"reseed_at": find_method(tree, "Tree", "reseed_at"),
            "encode_bipartitions": find_method(tree, "Tree", "encode_bipartitions")}
    ub = find_method(tree, "Tree", "update_bipartitions")
    body = [s for s in ub.body if not (isinstance(s, ast.Expr) and isinstance(s.value, ast.Constant))]
    ok = (len(body) == 1 and isinstance(body[0], ast.Expr) and isinstance(body[0].value, ast.Call)
          and ast.dump(body[0].value) == ast.dump(ast.parse("self.encode_bipartitions(*args, **kwargs)").body[0].value))
    if not ok:
        raise Unsupported("update_bipartitions does not forward to encode_bipartitions")
    out = ["(* GENERATED by py/dv/gen_midpoint.py from datamodel/treemodel/_tree.py (Tree.reroot_at_midpoint, line %d)"
           % fn.lineno,
           "   -- do not edit.  Meaning of the primitives: coq/Model/C07GenMidPrims.v *)",
           "From Coq Require Import ZArith List Bool.",
           "From DV Require Import Model.PyPrims Model.Tree Model.C07Model Model.C07GenMidPrims.",
           "Import ListNotations.",
           "Open Scope Z_scope.",
           "Open Scope bool_scope.",
           "",
           "(* Node.distance_from_root (datamodel/treemodel/_node.py, line %d) *)" % dfr_fn.lineno,
           NodeFn(dfr_fn).translate(),
           Fn(fn, sigs).translate()]
    return "\n".join(out)


if __name__ == "__main__":
    import sys
    print(generate(sys.argv[1] if len(sys.argv) > 1 else "/repo"))
