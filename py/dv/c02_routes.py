"""C02, read-back ROUTES: every document the writers produce (Newick, NEXUS with and without TRANSLATE, NeXML)
is read back through every documented reader entry point, alone and interleaved with other reads:

  TreeList.get, TreeList.read (into a fresh list), Tree.get(tree_offset=k) for every k, DataSet.get,
  Tree.yield_from_files (file object and path; schema and - for Newick/NEXUS - "nexus/newick"; with and
  without a caller-supplied namespace), TreeArray.read (built on the iterator),

and HISTORIES over two documents: two lazy iterators advanced in an arbitrary interleaving, with eager reads
(TreeList.get / Tree.get / DataSet.get / TreeArray.read) of either document between the steps.

Oracle (independent, on the implementation only, in the property's own terms): every reader gives back the
trees that were written (topology, child order, taxa, internal labels, lengths, rooting) over a namespace with
the written labels; every taxon of a delivered tree is a member (by identity) of the namespace that reader
reads into; and a tree delivered earlier does not change when ANY reader is advanced later (all delivered
trees are kept alive and re-observed after every step).

Correspondence: coq/Model/C02Routes.v - each reader of a history must deliver what the model's reader delivers
on its own document (Newick.read_newick / C02Nexus / C02Nexml), i.e. readers are independent objects.
"""
import io
import json
import os
import tempfile

from dv import core
from dv import c02
from dv import c02_nexus
from dv import c02_nexml

HEADER = ("From DV Require Import Model.PyPrims Model.Tokenizer Model.Newick Model.C02Model Model.C02Nexus Model.C02NexusModel "
          "Model.C02Nexml Model.C02NexmlModel Model.C02Routes.\n"
          "From Coq Require Import ZArith List. Import ListNotations. Open Scope Z_scope.")

FMTS = ["newick", "nexus", "nexus-translate", "nexml"]
EAGER = ["TreeList.get", "Tree.get", "DataSet.get", "TreeList.read", "TreeArray.read"]


# ----------------------------------------------------------------------------------------------
# generation
# ----------------------------------------------------------------------------------------------

def digitise(case, rng):
    """rename taxa to decimal-integer strings that are 1-based POSITIONS of other taxa (in the namespace order and in
    the order of first appearance in the written trees), permuted, so that a label k is first met when >= k taxa are
    already known and the k-th of them is another taxon"""
    labels = list(case["ns"])
    n = len(labels)
    if n < 2:
        return case
    perm = list(range(1, n + 1))
    for _ in range(20):
        rng.shuffle(perm)
        if any(p != i + 1 for i, p in enumerate(perm)):
            break
    k = rng.randint(1, n)
    victims = sorted(rng.sample(range(n), k))
    if rng.random() < 0.5:
        # the numbered taxa come LAST in the namespace (names first, specimen numbers after them)
        victims = list(range(n - k, n))
    ren = {}
    low = set(x.lower() for x in labels)
    for v in victims:
        num = str(perm[v] if rng.random() < 0.8 else rng.randint(1, n))
        if rng.random() < 0.1:
            num = "0" + num
        if num.lower() in low or num in ren.values():
            continue
        ren[labels[v]] = num
    low_after = [ren.get(l, l).lower() for l in labels]
    if len(set(low_after)) != len(low_after):
        return case
    for key in ("ns", "create"):
        if key in case:
            case[key] = [ren.get(l, l) for l in case[key]]
    case["hist"] = [op if isinstance(op, str) else [op[0], ren.get(op[1], op[1])] for op in case.get("hist", [])]
    for _r, sp in case["trees"]:
        for nd in c02.spec_nodes(sp):
            if nd["taxon"] in ren:
                nd["taxon"] = ren[nd["taxon"]]
    case["ns"] = c02.apply_history(case["create"], case["hist"]) if "create" in case else case["ns"]
    return case


def gen_doc(rng, maxleaves, fmt=None):
    case = c02_nexus.gen_case(rng, maxleaves)
    fmt = fmt or rng.choice(FMTS + ["newick", "nexus-translate"])
    case["kind"] = "roundtrip"
    case["fmt"] = fmt
    case["translate"] = (fmt == "nexus-translate")
    if fmt == "nexml":
        case["wkw"] = {}
    if rng.random() < 0.5:
        if rng.random() < 0.6 and len(case["trees"]) < 3 and case["ns"]:
            # more trees over the same labels: a later tree introduces the numbered tips
            extra = c02.gen_roundtrip_case(rng, maxleaves)
            pool = list(case["ns"])
            for r, sp in extra["trees"][:2]:
                nodes = c02.spec_nodes(sp)
                leaves = [nd for nd in nodes if not nd["kids"]]
                if len(leaves) > len(pool):
                    continue
                for nd in nodes:
                    nd["taxon"] = None
                    nd["label"] = None
                for nd, l in zip(leaves, rng.sample(pool, len(leaves))):
                    nd["taxon"] = l
                if case["wkw"].get("suppress_rooting"):
                    r = case["trees"][0][0]
                case["trees"].append([r, sp])
        digitise(case, rng)
    return case


def gen_case(rng, maxleaves):
    """one or two documents + a reading history"""
    kind = rng.choice(["alone", "alone", "history", "history", "history"])
    docs = [gen_doc(rng, maxleaves)]
    if kind == "alone":
        return {"kind": "routes", "docs": docs, "plan": [], "readers": []}
    k = rng.random()
    if k < 0.15:
        docs.append(json.loads(json.dumps(docs[0])))          # the same document read by two iterators
    elif k < 0.6:
        docs.append(gen_doc(rng, maxleaves, docs[0]["fmt"]))  # same format
    else:
        docs.append(gen_doc(rng, maxleaves))
    nreaders = rng.choice([2, 2, 2, 3])
    readers = []
    for i in range(nreaders):
        readers.append({"doc": i % 2 if i < 2 else rng.randrange(2), "path": rng.random() < 0.15,
                        "own_ns": rng.random() < 0.15, "alt": rng.random() < 0.15})
    plan = []
    for _ in range(rng.randint(2, 10)):
        if rng.random() < 0.7:
            plan.append(["next", rng.randrange(nreaders)])
        else:
            plan.append(["eager", rng.randrange(2), rng.choice(EAGER)])
    return {"kind": "routes", "docs": docs, "plan": plan, "readers": readers}


# ----------------------------------------------------------------------------------------------
# implementation side
# ----------------------------------------------------------------------------------------------

def schema_of(fmt):
    return "nexus" if fmt.startswith("nexus") else fmt


def write_doc(doc):
    tl = c02.build_treelist(doc)
    wkw = dict(doc["wkw"])
    if doc["translate"]:
        wkw["translate_tree_taxa"] = True
    text = tl.as_string(schema_of(doc["fmt"]), **wkw)
    accs = [tl.taxon_namespace.accession_index(t) for t in tl.taxon_namespace]
    rkw = c02.reader_kwargs(doc) if doc["fmt"] != "nexml" else {}
    return text, rkw, accs


def rich(trees, ns):
    """delivered trees + the namespace their reader reads into -> canonical structure; taxon index -1 = the taxon object
    is NOT a member of that namespace"""
    members = list(ns)
    idx = {id(t): i for i, t in enumerate(members)}

    def f(n):
        ln = n.edge.length
        return [None if n.taxon is None else idx.get(id(n.taxon), -1), None if n.taxon is None else n.taxon.label, n.label,
                None if ln is None else repr(ln), None if ln is None else repr(float(ln)),
                list(n.comments) + ["<edge>" + c for c in n.edge.comments], [f(c) for c in n.child_nodes()]]
    return {"trees": [[t.is_rooted, list(t.comments), f(t.seed_node)] for t in trees], "ns": [t.label for t in members]}


def exc(e):
    return {"exc": "%s: %s" % (type(e).__name__, str(e)[:160]), "err": core.exc_enum(e)}


def eager_read(kind, text, schema, rkw, ntrees, keep, univ=()):
    """one eager read of a whole document; the delivered objects are appended to `keep` (kept alive)"""
    import dendropy
    try:
        with core.alarm(10):
            if kind == "TreeList.get":
                tl = dendropy.TreeList.get(data=text, schema=schema, **rkw)
                keep.append(tl)
                return rich(list(tl), tl.taxon_namespace)
            if kind == "TreeList.read":
                tl = dendropy.TreeList()
                tl.read(data=text, schema=schema, **rkw)
                keep.append(tl)
                return rich(list(tl), tl.taxon_namespace)
            if kind == "DataSet.get":
                ds = dendropy.DataSet.get(data=text, schema=schema, **rkw)
                keep.append(ds)
                if len(ds.tree_lists) != 1 or len(ds.taxon_namespaces) != 1:
                    return {"exc": "DataSet.get delivered %d tree lists over %d namespaces" % (len(ds.tree_lists), len(ds.taxon_namespaces)), "err": "OtherErr", "synthetic": True}
                tl = ds.tree_lists[0]
                if tl.taxon_namespace is not ds.taxon_namespaces[0]:
                    return {"exc": "DataSet.get: the tree list is not over the data set's namespace", "err": "OtherErr", "synthetic": True}
                return rich(list(tl), tl.taxon_namespace)
            if kind == "Tree.get":
                # every tree by its offset, each read on its own
                out = None
                for k in range(ntrees):
                    t = dendropy.Tree.get(data=text, schema=schema, tree_offset=k, **rkw)
                    keep.append(t)
                    r = rich([t], t.taxon_namespace)
                    if out is None:
                        out = r
                    elif r["ns"] != out["ns"]:
                        return {"exc": "Tree.get(tree_offset=%d) namespace %s, tree_offset=0 gave %s" % (k, r["ns"], out["ns"]), "err": "OtherErr", "synthetic": True}
                    else:
                        out["trees"].extend(r["trees"])
                if out is None:
                    return {"skip": True}
                # one past the end must not deliver a tree
                try:
                    t = dendropy.Tree.get(data=text, schema=schema, tree_offset=ntrees, **rkw)
                    if t is not None:
                        return {"exc": "Tree.get(tree_offset=%d) delivered a tree, %d were written" % (ntrees, ntrees), "err": "OtherErr", "synthetic": True}
                except Exception:
                    pass
                return out
            if kind == "TreeArray.read":
                ta = dendropy.TreeArray()
                ta.read(data=text, schema=schema, **rkw)
                keep.append(ta)
                return {"array": dump_array(ta, univ)}
    except Exception as e:
        return exc(e)
    raise ValueError(kind)


def universes(doc):
    return [sorted(set(nd["taxon"] for nd in c02.spec_nodes(sp) if nd["taxon"] is not None)) for _r, sp in doc["trees"]]


def dump_array(ta, univ):
    ns = ta.taxon_namespace
    out = []
    for i in range(len(ta)):
        splits, lens = ta.get_split_bitmask_and_edge_tuple(i)
        sides = [sorted(t.label for t in ns.bitmask_taxa_list(b)) for b in splits]
        if not ta.is_rooted_trees and i < len(univ):
            # an unrooted split is stored as the side that lacks the namespace's first taxon: name it by the smaller of its
            # two sides among the written tree's own taxa (independent of the namespace order)
            sides = [min(s, sorted(set(univ[i]) - set(s))) if set(s) <= set(univ[i]) else s for s in sides]
        out.append([[s, None if e is None else repr(float(e))] for s, e in zip(sides, lens)])
    return {"rooted": ta.is_rooted_trees, "trees": out, "ns": sorted(t.label for t in ns)}


def array_from_written(doc):
    """the array filled from the WRITTEN trees (a fresh build, add_tree encodes bipartitions in place)"""
    import dendropy
    try:
        doc = dict(doc, create=list(doc["ns"]), hist=[])      # namespace order is immaterial here
        if doc["wkw"].get("suppress_edge_lengths"):
            doc = json.loads(json.dumps(doc))
            for _r, sp in doc["trees"]:
                for nd in c02.spec_nodes(sp):
                    nd["len"] = None
        tl = c02.build_treelist(doc)
        ta = dendropy.TreeArray(taxon_namespace=tl.taxon_namespace)
        for t in tl:
            ta.add_tree(t)
        return dump_array(ta, universes(doc))
    except Exception as e:
        return exc(e)


class LazyReader:
    """Tree.yield_from_files over one document"""

    def __init__(self, spec, text, schema, rkw, tmpfiles):
        import dendropy
        self.spec = spec
        self.ns = None if spec.get("own_ns") else dendropy.TaxonNamespace()
        self.trees = []
        self.at_delivery = []
        self.end = None          # None: running, True: exhausted, {"exc":..}: died
        sch = schema
        if spec.get("alt") and schema in ("newick", "nexus"):
            sch = "nexus/newick"
        if spec.get("path"):
            fd, path = tempfile.mkstemp(prefix="dv-c02routes-", dir="/var/tmp")
            with os.fdopen(fd, "w", encoding="utf-8") as f:
                f.write(text)
            tmpfiles.append(path)
            src = path
        else:
            src = io.StringIO(text)
        self.route = "Tree.yield_from_files(%s%s%s)" % (sch, ", path" if spec.get("path") else "", ", no namespace" if spec.get("own_ns") else "")
        try:
            kw = dict(rkw)
            if self.ns is not None:
                kw["taxon_namespace"] = self.ns
            self.it = iter(dendropy.Tree.yield_from_files(files=[src], schema=sch, **kw))
        except Exception as e:
            self.it = None
            self.end = exc(e)

    def step(self):
        if self.end is not None:
            return
        try:
            with core.alarm(10):
                t = next(self.it)
        except StopIteration:
            self.end = True
            return
        except Exception as e:
            self.end = exc(e)
            return
        if self.ns is None:
            self.ns = t.taxon_namespace
        self.trees.append(t)
        self.at_delivery.append(rich([t], self.ns)["trees"][0])

    def drain(self):
        n = 0
        while self.end is None and n < 100:
            self.step()
            n += 1

    def result(self):
        if self.end is not True and self.end is not None:
            return dict(self.end, delivered=len(self.trees))
        if self.ns is None:
            return {"trees": [], "ns": [], "no_ns": True}
        return rich(self.trees, self.ns)


def observe(case):
    docs = []
    for d in case["docs"]:
        text, rkw, accs = write_doc(d)
        docs.append({"text": text, "rkw": rkw, "accs": accs, "schema": schema_of(d["fmt"])})
    keep = []
    tmpfiles = []
    obs = {"docs": [{"written": x["text"], "rkw": x["rkw"], "accs": x["accs"]} for x in docs], "alone": [], "readers": [], "eager": [],
           "changed": []}
    try:
        # --- every route on every document, on its own
        for d, x in zip(case["docs"], docs):
            routes = {}
            n = len(d["trees"])
            for kind in EAGER:
                routes[kind] = eager_read(kind, x["text"], x["schema"], x["rkw"], n, keep, universes(d))
            for spec in ({}, {"path": True}, {"own_ns": True}, {"alt": True}):
                if spec.get("alt") and x["schema"] == "nexml":
                    continue
                r = LazyReader(spec, x["text"], x["schema"], x["rkw"], tmpfiles)
                r.drain()
                keep.append(r)
                routes[r.route] = r.result()
                if r.end is True and r.at_delivery != r.result()["trees"]:
                    routes[r.route] = {"exc": "a tree delivered by the iterator changed when the iterator was advanced", "err": "OtherErr", "synthetic": True}
            if any("array" in v for v in routes.values()):
                routes["TreeArray(written trees)"] = array_from_written(d)
            obs["alone"].append(routes)
        # --- the history
        readers = [LazyReader(spec, docs[spec["doc"]]["text"], docs[spec["doc"]]["schema"], docs[spec["doc"]]["rkw"], tmpfiles)
                   for spec in case["readers"]]
        eager_kept = []      # (doc index, kind, result at delivery, objects)

        def reobserve(step_no):
            for ri, r in enumerate(readers):
                if r.ns is not None and r.trees:
                    now = rich(r.trees, r.ns)["trees"]
                    if now != r.at_delivery[:len(now)] and not any(c[0] == "reader" and c[1] == ri for c in obs["changed"]):
                        obs["changed"].append(["reader", ri, step_no, r.at_delivery[:len(now)], now])
            for ei, (di, kind, res, objs) in enumerate(eager_kept):
                if "trees" in res:
                    tl = objs[0]
                    if kind == "Tree.get":
                        continue
                    if kind == "DataSet.get":
                        tl = tl.tree_lists[0]
                    now = rich(list(tl), tl.taxon_namespace)
                    if now != res and not any(c[0] == "eager" and c[1] == ei for c in obs["changed"]):
                        obs["changed"].append(["eager", ei, step_no, res["trees"], now["trees"]])
        for sn, step in enumerate(case["plan"]):
            if step[0] == "next":
                readers[step[1]].step()
            else:
                di, kind = step[1], step[2]
                mine = []
                res = eager_read(kind, docs[di]["text"], docs[di]["schema"], docs[di]["rkw"], len(case["docs"][di]["trees"]), mine,
                                 universes(case["docs"][di]))
                keep.extend(mine)
                eager_kept.append((di, kind, res, mine))
            reobserve(sn)
        for ri, r in enumerate(readers):
            r.drain()
            reobserve(len(case["plan"]) + ri)
        for r in readers:
            obs["readers"].append({"route": r.route, "doc": r.spec["doc"], "result": r.result()})
        for di, kind, res, _objs in eager_kept:
            obs["eager"].append({"route": kind, "doc": di, "result": res})
        keep.append(readers)
    finally:
        for p in tmpfiles:
            try:
                os.unlink(p)
            except OSError:
                pass
    return obs


# ----------------------------------------------------------------------------------------------
# oracle
# ----------------------------------------------------------------------------------------------

def plain_node(n):
    tx, txl, lb, _lr, lf, _cm, kids = n
    return {"taxon": txl, "label": lb, "len": lf, "kids": [plain_node(k) for k in kids]}


def foreign(n):
    if n[0] == -1:
        return n[1]
    for k in n[6]:
        f = foreign(k)
        if f is not None:
            return f
    return None


def route_key(route):
    return route.split("(")[0] + ("" if "(" not in route else "(" + route.split("(")[1].split(",")[0].rstrip(")") + ")")


def compare(doc, route, got, context=""):
    """the property on one reader's result: None | (what, key)"""
    fmt = doc["fmt"]
    pipe = fmt
    fam = fmt.split("-")[0]
    wkw = doc["wkw"]
    rk = "route:%s:%s" % (route_key(route), fmt)
    where = "%s of the %s document%s" % (route, fmt, context)
    if got.get("skip"):
        return None
    if "exc" in got:
        key = c02.classify(doc, pipe)
        return ("%s raised %s (labels %s, options %s)" % (where, got["exc"], doc["ns"][:8], wkw),
                key if not key.startswith("roundtrip-") else rk + ":raised")
    trees = doc["trees"]
    if len(got["trees"]) != len(trees):
        key = c02.classify(doc, pipe)
        return ("%s delivered %d trees for %d written" % (where, len(got["trees"]), len(trees)),
                key if not key.startswith("roundtrip-") else rk + ":count")
    for k, ((rooted, sp), (r2, _cm, t2)) in enumerate(zip(trees, got["trees"])):
        f = foreign(t2)
        if f is not None:
            return ("%s: tree %d carries the taxon %r which is not a member of the namespace the reader reads into (%s)"
                    % (where, k, f, got["ns"][:8]), rk + ":foreign-taxon")
        want_r = rooted
        if fam == "nexml" and rooted is None and r2 is False:
            want_r = False
        if r2 != want_r:
            key = c02.classify(doc, pipe)
            return ("%s: tree %d rooting %r came back as %r (options %s)" % (where, k, rooted, r2, wkw),
                    key if not key.startswith("roundtrip-") else rk + ":rooting")
        g = c02.strip_leaf_labels(plain_node(t2))
        want = c02.expected_tree(sp, fam, wkw, got_root_len=g["len"])
        if g != want:
            key = c02.classify(doc, pipe, g, want)
            return ("%s: tree %d differs: wrote %s, read %s" % (where, k, json.dumps(want)[:300], json.dumps(g)[:300]),
                    key if not key.startswith("roundtrip-") else rk + ":tree")
    if got.get("no_ns"):
        return None
    if fam == "newick":
        used = set()
        for _r, sp in trees:
            for nd in c02.spec_nodes(sp):
                if nd["taxon"] is not None:
                    used.add(nd["taxon"])
        if sorted(got["ns"]) != sorted(used):
            key = c02.classify(doc, pipe)
            return ("%s: namespace labels %s, expected %s" % (where, got["ns"], sorted(used)),
                    key if not key.startswith("roundtrip-") else rk + ":namespace")
    elif got["ns"] != doc["ns"]:
        key = c02.classify(doc, pipe)
        return ("%s: namespace labels/order %s, expected %s" % (where, got["ns"], doc["ns"]),
                key if not key.startswith("roundtrip-") else rk + ":namespace")
    return None


def compare_array(doc, routes):
    got = routes.get("TreeArray.read")
    want = routes.get("TreeArray(written trees)")
    if got is None or want is None or "exc" in want or doc.get("internal_taxa"):
        # (taxa on internal nodes: how their bits enter the stored split depends on the namespace order - not compared)
        return None         # the written trees themselves cannot be put into an array (mixed rooting, ...)
    rk = "route:TreeArray.read:%s" % doc["fmt"]
    if "exc" in got:
        key = c02.classify(doc, doc["fmt"])
        return ("TreeArray.read of the %s document raised %s; an array takes the written trees" % (doc["fmt"], got["exc"]),
                key if not key.startswith("roundtrip-") else rk + ":raised")
    got = got["array"]
    if doc["fmt"] == "newick":
        want = dict(want, ns=sorted(set(nd["taxon"] for _r, sp in doc["trees"] for nd in c02.spec_nodes(sp) if nd["taxon"] is not None)))
    for f in ("trees", "ns", "rooted"):
        if got[f] != want[f]:
            if f == "rooted" and doc["fmt"] == "nexml" and want[f] is None:
                continue
            key = c02.classify(doc, doc["fmt"])
            return ("TreeArray.read of the %s document differs from the array filled with the written trees in %s: %s vs %s"
                    % (doc["fmt"], f, json.dumps(got[f])[:300], json.dumps(want[f])[:300]),
                    key if not key.startswith("roundtrip-") else rk + ":" + f)
    return None


def oracle(case, obs):
    docs = [c02.erased_case(d) for d in case["docs"]]
    # known defects of the format itself first (they show on every route): through the plain TreeList.get route
    for d, routes in zip(docs, obs["alone"]):
        v = compare(d, "TreeList.get", routes["TreeList.get"])
        if v and not v[1].startswith("route:"):
            return v
    for d, routes in zip(docs, obs["alone"]):
        for route in sorted(routes):
            got = routes[route]
            if "array" in got or route.startswith("TreeArray"):
                continue
            v = compare(d, route, got)
            if v:
                return v
        v = compare_array(d, routes)
        if v:
            return v
    hist = " (history %s)" % json.dumps(case["plan"]) if case["plan"] else ""
    for ch in obs["changed"]:
        who = obs["readers"][ch[1]]["route"] if ch[0] == "reader" else obs["eager"][ch[1]]["route"]
        di = obs["readers"][ch[1]]["doc"] if ch[0] == "reader" else obs["eager"][ch[1]]["doc"]
        return ("a tree delivered by %s changed at step %d of the history %s: %s -> %s"
                % (who, ch[2], json.dumps(case["plan"]), json.dumps(ch[3])[:200], json.dumps(ch[4])[:200]),
                "history:%s:changed-later" % docs[di]["fmt"])
    for r in obs["readers"]:
        v = compare(docs[r["doc"]], r["route"], r["result"], " interleaved with other reads" + hist)
        if v:
            return (v[0], v[1].replace("route:", "history:", 1) if v[1].startswith("route:") else v[1])
    for r in obs["eager"]:
        got = r["result"]
        if r["route"] == "TreeArray.read":
            v = compare_array(docs[r["doc"]], {"TreeArray.read": got, "TreeArray(written trees)": obs["alone"][r["doc"]].get("TreeArray(written trees)")})
        else:
            v = compare(docs[r["doc"]], r["route"], got, " while iterators are suspended" + hist)
        if v:
            return (v[0], v[1].replace("route:", "history:", 1) if v[1].startswith("route:") else v[1])
    return None


# ----------------------------------------------------------------------------------------------
# Coq terms: every DISTINCT (document, delivered result) pair is a case of that format's model
# ----------------------------------------------------------------------------------------------

def model_tree(t):
    r, cm, n = t

    def f(n):
        tx, _txl, lb, lr, _lf, cmn, kids = n
        return [tx, lb, lr, cmn, [f(k) for k in kids]]
    return [r, cm, f(n)]


def results_of(case, obs, di):
    out = []
    for route, got in sorted(obs["alone"][di].items()):
        if "array" not in got and not route.startswith("TreeArray") and not got.get("skip") and not got.get("no_ns"):
            out.append(got)
    for r in obs["readers"] + obs["eager"]:
        if r["doc"] == di and not r["route"].startswith("TreeArray") and "array" not in r["result"] and not r["result"].get("skip") and not r["result"].get("no_ns"):
            out.append(r["result"])
    seen, uniq = set(), []
    for g in out:
        if g.get("synthetic"):
            continue        # a mismatch the harness itself detected between sub-reads (reported by the oracle)
        if "exc" in g:
            g = {"err": g["err"]}
        k = json.dumps(g, sort_keys=True)
        if k not in seen:
            seen.add(k)
            uniq.append(g)
    return uniq


_ELEMS = {}


def sub_term(doc, dobs, got):
    fmt = doc["fmt"]
    text = dobs["written"]
    rkw = dobs["rkw"]
    if "err" in got:
        rd = {"err": got["err"]}
    else:
        trees = [model_tree(t) for t in got["trees"]]
    if fmt == "newick":
        if "err" not in got:
            rd = {"ok": trees, "ns": got["ns"]}
        o = {"written": text, "read": rd, "rkw": rkw, "floats": c02.float_table(text, rkw.get("preserve_underscores", False))}
        return "(RNewick %s)" % c02.to_coq(doc, o)
    if fmt.startswith("nexus"):
        if "err" not in got:
            rd = {"ok": [[got["ns"]], [[0, trees]]]}
        o = {"written": text, "read": rd, "rkw": rkw, "accs": dobs["accs"],
             "floats": c02.float_table(text, rkw.get("preserve_underscores", False))}
        return "(RNexus %s)" % c02_nexus.to_coq(doc, o)
    el = c02_nexml.elements(text)
    floats = {}
    for t in el["trees"]:
        for e in ([t["rootedge"]] if t["rootedge"] else []) + t["edges"]:
            if e[3] is not None:
                try:
                    floats[e[3]] = repr(float(e[3]))
                except ValueError:
                    floats[e[3]] = None
    if "err" not in got:
        for t in trees:
            def nocm(n):
                n[3] = []
                for k in n[4]:
                    nocm(k)
            nocm(t[2])
            t[1] = []
        rd = {"ok": [got["ns"], trees]}
    o = {"doc": el, "floats": sorted(floats.items()), "read": rd, "text": text}
    return "(RNexml %s)" % c02_nexml.to_coq(doc, o)


def to_coq(case, obs):
    terms = []
    for di, doc in enumerate(case["docs"]):
        for got in results_of(case, obs, di):
            terms.append(sub_term(doc, obs["docs"][di], got))
    return "[" + ";".join(terms) + "]"


def nontrivial(case, obs):
    return sum(len(c02.spec_nodes(sp)) for d in case["docs"] for _r, sp in d["trees"]) >= 3


def sample_fn(case, obs):
    return {"formats": [d["fmt"] for d in case["docs"]], "labels": [d["ns"][:8] for d in case["docs"]], "plan": case["plan"],
            "readers": [r["route"] for r in obs["readers"]], "written": [x["written"][:200] for x in obs["docs"]]}


def count_case(ctx, case):
    ctx.count("routes:" + ("history" if case["plan"] else "alone"))
    for d in case["docs"]:
        ctx.count("routes:fmt:" + d["fmt"])
        if any(l.isdigit() for l in d["ns"]):
            ctx.count("routes:digit-labels")
        ctx.count("routes:ntrees:%d" % len(d["trees"]))
    for s in case["plan"]:
        ctx.count("routes:step:" + (s[0] if s[0] == "next" else s[2]))


# ----------------------------------------------------------------------------------------------
# fixed cases
# ----------------------------------------------------------------------------------------------

def witness_cases():
    def leaf(l, ln=None):
        return {"taxon": l, "label": None, "len": ln, "kids": []}

    def cherry2(a, b, c, d):
        return {"taxon": None, "label": None, "len": None, "kids": [
            {"taxon": None, "label": None, "len": 0.5, "kids": [leaf(a, 1.0), leaf(b, 2.0)]},
            {"taxon": None, "label": None, "len": 1.5, "kids": [leaf(c, 3.0), leaf(d, 4.0)]}]}

    def doc(fmt, ns, trees, rooted=True):
        return {"kind": "roundtrip", "fmt": fmt, "translate": fmt == "nexus-translate", "ns": list(ns), "create": list(ns), "hist": [],
                "wkw": {}, "internal_taxa": False, "trees": [[rooted, t] for t in trees]}
    out = []
    for fmt in FMTS:
        # integer labels out of order of appearance; names first and numbered tips first met in the second tree
        out.append({"kind": "routes", "plan": [], "readers": [],
                    "docs": [doc(fmt, ["1", "2", "3", "4"], [cherry2("3", "1", "4", "2"), cherry2("2", "4", "1", "3")])]})
        out.append({"kind": "routes", "plan": [], "readers": [],
                    "docs": [doc(fmt, ["A", "B", "C", "D", "1", "2"], [cherry2("A", "B", "C", "D"), cherry2("C", "D", "1", "2")])]})
        # two documents iterated in step; a parse inside the loop
        d1 = doc(fmt, ["alpha", "beta", "gamma", "delta"], [cherry2("alpha", "beta", "gamma", "delta"), cherry2("alpha", "gamma", "beta", "delta"),
                                                            cherry2("alpha", "delta", "beta", "gamma")])
        d2 = doc(fmt, ["P. one", "Q_two", "R'three", "S[four]"], [cherry2("P. one", "Q_two", "R'three", "S[four]"),
                                                                  cherry2("P. one", "R'three", "Q_two", "S[four]"),
                                                                  cherry2("P. one", "S[four]", "Q_two", "R'three")], rooted=False)
        two = [{"doc": 0}, {"doc": 1}]
        out.append({"kind": "routes", "docs": [d1, d2], "readers": two,
                    "plan": [["next", 0], ["next", 1], ["next", 0], ["next", 1], ["next", 0], ["next", 1]]})
        out.append({"kind": "routes", "docs": [d1, d2], "readers": [{"doc": 0}],
                    "plan": [["next", 0], ["eager", 1, "TreeList.get"], ["next", 0], ["eager", 1, "Tree.get"], ["next", 0]]})
    return json.loads(json.dumps(out))


def search_more(ctx, rng, budget_s, t0=None):
    import time
    t0 = t0 or time.time()
    n = 0
    for case in witness_cases():
        v = oracle(case, observe(case))
        if v:
            ctx.violation(v[0], {"case": case}, key=v[1])
    while time.time() - t0 < budget_s and n < 20000:
        case = gen_case(rng, 6)
        obs = observe(case)
        v = oracle(case, obs)
        n += 1
        if v:
            ctx.violation(v[0], {"case": case}, key=v[1])
    ctx.notes.append("search: %d further route/history cases through the oracle" % n)
