"""C01, histories on ONE tree at the object level (wave 7).

A case of kind "hist" encodes a tree, keeps what the encoding returned (the list object itself; with
suppress_storage=True the Bipartition objects read from the edges), then edits the tree and encodes again,
several times, through encode_bipartitions / update_bipartitions (all four keywords) or through an operation
called with update_bipartitions=True.  Wave 8: a step of kind "supp" calls
Tree.suppress_unifurcations(update_bipartitions=True), the one operation that MAINTAINS the stored encoding (it drops
the Bipartition objects of the removed outdegree-one nodes from Tree.bipartition_encoding and keeps all the others)
instead of encoding again; the trees of gen_supp_case carry unifurcations above internal nodes, above leaves, above
the root and in chains and are encoded with suppress_unifurcations=False first.  After EVERY step EVERY Bipartition object reachable from the tree's
edges, from Tree.bipartition_encoding and from every list saved earlier is observed again: its identity
(token = order of first sight in the history, objects kept alive) and all its attributes.

Oracle clauses (the property's own terms):
  * after an encoding step each edge's leafset / split bitmask is exact for the tree as it is now (whatever the
    storage keyword);
  * the value an encoding returned earlier does not change later (same objects, same masks);
  * an encoding creates its objects: none of them was seen before in the history;
  * at the end every saved encoding, handed to from_bipartition_encoding in a shuffled order, rebuilds the
    topology the tree had when the encoding was taken;
  * after suppress_unifurcations(update_bipartitions=True) on a tree whose encoding was up to date: no outdegree-one
    node is left, the maintained encoding is a fresh encoding of the tree as it is now - as a set of split bitmasks
    AND as a list holding exactly one object per edge, each with exact masks -, the lists returned earlier are
    unchanged, and (at the end) a tree rebuilt from the maintained list has the clades of the tree.
"""
import random

from dv import core, trees
from dv.core import cz, cbool, clist, copt, cpair

EDIT_OPS = ("spr", "reroot_at_node", "reseed_at", "reroot_at_edge", "to_outgroup_position", "collapse_edge",
            "prune_leaf", "swap_children", "split_edge")
VIA_OPS = ("reroot_at_node", "reroot_at_edge", "reseed_at", "prune_taxa", "retain_taxa", "prune_subtree")


# ----------------------------------------------------------------------------------------------
# generation
# ----------------------------------------------------------------------------------------------

def gen_enc_step(rng, force_ss=False):
    ss = force_ss or rng.random() < 0.2
    return ["enc", rng.random() < 0.75, rng.random() < 0.75, ss, rng.random() < 0.15,
            rng.choice(["encode_bipartitions", "encode_bipartitions", "update_bipartitions"])]


def add_unifurcations(rng, t, p):
    """outdegree-one nodes (single or chains of 2-3) above internal nodes, leaves and the root; ids renumbered in preorder"""
    def wrap(nd):
        nd["kids"] = [wrap(c) for c in nd["kids"]]
        if rng.random() < p:
            for _ in range(rng.choice((1, 1, 1, 2, 3))):
                nd = {"id": -1, "taxon": None, "label": None, "len": None, "kids": [nd]}
        return nd
    t = wrap(t)
    for i, nd in enumerate(trees.preorder(t)):
        nd["id"] = i
    return t


def gen_supp_case(rng, gen_ns_params, maxleaves=10):
    """encode KEEPING the unifurcations, then suppress_unifurcations(update_bipartitions=True); go on"""
    n = rng.randint(3, maxleaves)
    shape = rng.choice(["binary", "poly", "mixed", "caterpillar", "mixed", "binary"])
    t = trees.gen_tree(rng, n, shape=shape, lengths="none", unifurcations=rng.choice([0.0, 0.2, 0.4]))
    t = add_unifurcations(rng, t, rng.choice([0.15, 0.3, 0.5]))

    def enc(su=False):
        st = gen_enc_step(rng)
        st[1] = su
        st[3] = rng.random() < 0.1
        return st
    steps = [enc(), ["supp", "suppress_unifurcations", 0]]
    for _ in range(rng.randint(0, 2)):
        k = rng.random()
        if k < 0.6:
            for _ in range(rng.randint(1, 2)):
                steps.append(["edit", rng.choice(("split_edge", "split_edge", "split_edge") + EDIT_OPS), rng.randrange(10 ** 6)])
            if rng.random() < 0.85:
                steps.append(enc(su=rng.random() < 0.2))
            steps.append(["supp", "suppress_unifurcations", 0])
        elif k < 0.8:
            steps.append(["supp", "suppress_unifurcations", 0])
        else:
            steps.append(["via", rng.choice(VIA_OPS), rng.randrange(10 ** 6)])
            steps.append(["supp", "suppress_unifurcations", 0])
    return {"kind": "hist", "tree": t, "rooted": rng.choice((True, False, None)), "ns": gen_ns_params(rng, n),
            "steps": steps, "shape": shape, "shuffle": rng.randrange(10 ** 9), "supp": True}


def gen_hist_case(rng, gen_ns_params, maxleaves=12, force_ss=False):
    n = rng.randint(3, maxleaves)
    shape = rng.choice(["binary", "poly", "mixed", "caterpillar", "mixed", "binary"])
    unif = rng.choice([0.0, 0.0, 0.0, 0.2])
    t = trees.gen_tree(rng, n, shape=shape, lengths="none", unifurcations=unif)
    steps = [gen_enc_step(rng, force_ss)]
    for _ in range(rng.randint(1, 3)):
        k = rng.random()
        if k < 0.7:
            for _ in range(rng.randint(1, 2)):
                steps.append(["edit", rng.choice(EDIT_OPS), rng.randrange(10 ** 6)])
            steps.append(gen_enc_step(rng))
            if rng.random() < 0.25:
                steps.append(["supp", "suppress_unifurcations", 0])
        else:
            steps.append(["via", rng.choice(VIA_OPS), rng.randrange(10 ** 6)])
    if rng.random() < 0.3:
        steps.append(["edit", rng.choice(EDIT_OPS), rng.randrange(10 ** 6)])
    return {"kind": "hist", "tree": t, "rooted": rng.choice((True, False, None)), "ns": gen_ns_params(rng, n),
            "steps": steps, "shape": shape, "shuffle": rng.randrange(10 ** 9)}


# ----------------------------------------------------------------------------------------------
# the real library
# ----------------------------------------------------------------------------------------------

def apply_edit(tree, op, seed):
    """an operation that changes the tree and is NOT asked to update the bipartitions"""
    import dendropy
    rng = random.Random(seed)
    nodes = list(tree.preorder_node_iter())
    internal = [nd for nd in nodes if nd._child_nodes and nd is not tree.seed_node]
    nonseed = [nd for nd in nodes if nd is not tree.seed_node]
    leaves = [nd for nd in nodes if not nd._child_nodes]
    if op in ("reroot_at_node", "reseed_at"):
        if not internal:
            return "n/a"
        getattr(tree, op)(rng.choice(internal), update_bipartitions=False)
    elif op == "reroot_at_edge":
        if not internal:
            return "n/a"
        tree.reroot_at_edge(rng.choice(internal).edge, update_bipartitions=False)
    elif op == "to_outgroup_position":
        if not nonseed:
            return "n/a"
        tree.to_outgroup_position(rng.choice(nonseed), update_bipartitions=False)
    elif op == "collapse_edge":
        if not internal:
            return "n/a"
        rng.choice(internal).edge.collapse()
    elif op == "prune_leaf":
        if len(leaves) < 4:
            return "n/a"
        tree.prune_taxa([rng.choice(leaves).taxon], update_bipartitions=False)
    elif op == "swap_children":
        cand = [nd for nd in nodes if len(nd._child_nodes) >= 2]
        if not cand:
            return "n/a"
        nd = rng.choice(cand)
        ch = list(nd._child_nodes)
        rng.shuffle(ch)
        nd.set_child_nodes(ch)
    elif op == "split_edge":
        # a new node (no Bipartition yet on its edge) in the middle of an edge
        if not nonseed:
            return "n/a"
        nd = rng.choice(nonseed)
        par = nd._parent_node
        pos = par._child_nodes.index(nd)
        par.remove_child(nd)
        mid = dendropy.Node()
        par.insert_child(pos, mid)
        mid.add_child(nd)
    elif op == "spr":
        # subtree prune and regraft: the moved node keeps its edge, a new node is made at the target
        cand = [nd for nd in nonseed if len(list(nd.leaf_iter())) <= len(leaves) - 2]
        if not cand:
            return "n/a"
        mv = rng.choice(cand)
        below = set(id(x) for x in mv.preorder_iter())
        mv._parent_node.remove_child(mv)
        targets = [nd for nd in tree.preorder_node_iter() if id(nd) not in below and nd is not tree.seed_node]
        if not targets:
            tree.seed_node.add_child(mv)
            return "done"
        tg = rng.choice(targets)
        pt = tg._parent_node
        pos = pt._child_nodes.index(tg)
        pt.remove_child(tg)
        mid = dendropy.Node()
        pt.insert_child(pos, mid)
        mid.add_child(tg)
        mid.add_child(mv)
    else:
        raise ValueError(op)
    return "done"


def apply_via(tree, op, seed):
    rng = random.Random(seed)
    nodes = list(tree.preorder_node_iter())
    internal = [nd for nd in nodes if nd._child_nodes and nd is not tree.seed_node]
    nonseed = [nd for nd in nodes if nd is not tree.seed_node]
    leaves = [nd for nd in nodes if not nd._child_nodes]
    if op in ("reroot_at_node", "reseed_at"):
        if not internal:
            return "n/a"
        getattr(tree, op)(rng.choice(internal), update_bipartitions=True)
    elif op == "reroot_at_edge":
        if not internal:
            return "n/a"
        tree.reroot_at_edge(rng.choice(internal).edge, update_bipartitions=True)
    elif op in ("prune_taxa", "retain_taxa"):
        if len(leaves) < 4:
            return "n/a"
        k = rng.randint(1, max(1, len(leaves) - 3))
        chosen = [nd.taxon for nd in rng.sample(leaves, k)]
        if op == "retain_taxa":
            chosen = [nd.taxon for nd in leaves if nd.taxon not in chosen]
        getattr(tree, op)(chosen, update_bipartitions=True)
    elif op == "prune_subtree":
        cand = [nd for nd in nonseed if len(list(nd.leaf_iter())) <= len(leaves) - 3]
        if not cand:
            return "n/a"
        tree.prune_subtree(rng.choice(cand), update_bipartitions=True)
    else:
        raise ValueError(op)
    return "done"


def bip_fields(b):
    return [b._split_bitmask, b._leafset_bitmask, b._tree_leafset_bitmask, b._lowest_relevant_bit,
            b._is_rooted, b.is_mutable]


def observe_hist(case, setup_tree, dump_mtree):
    import dendropy
    ns, objs, tree, tindex, acc = setup_tree(case)
    alloc = trees.IdAlloc(10 ** 6)
    tok, keep = {}, []

    def ref(b):
        if b is None:
            return None
        if id(b) not in tok:
            tok[id(b)] = len(tok)
            keep.append(b)                      # alive: id() stays unique
        return [tok[id(b)]] + bip_fields(b)
    saved = []                                  # [list object or list of edge objects, step index, spec, rooted]
    maintained = []                             # the same for the lists left by suppress_unifurcations(update_bipartitions=True)
    out = []
    for si, st in enumerate(case["steps"]):
        o = {"step": si, "done": "done"}
        try:
            if st[0] == "enc":
                _k, su, cb, ss, mut, entry = st
                ret = getattr(tree, entry)(suppress_unifurcations=su, collapse_unrooted_basal_bifurcation=cb,
                                           suppress_storage=ss, is_bipartitions_mutable=mut)
                stored = tree.bipartition_encoding
                if entry == "update_bipartitions":
                    o["ret"] = "none" if ret is None else "other"
                else:
                    o["ret"] = "stored" if ret is stored else "other"
                o["stored_is_none"] = stored is None
                keepval = stored if stored is not None else [e._bipartition for e in tree.postorder_edge_iter()]
                saved.append([keepval, si, None, None])
            elif st[0] == "edit":
                o["done"] = apply_edit(tree, st[1], st[2])
            elif st[0] == "supp":
                tree.suppress_unifurcations(update_bipartitions=True)
                if tree.bipartition_encoding is not None:
                    maintained.append([tree.bipartition_encoding, si, None, None])
            else:
                o["done"] = apply_via(tree, st[1], st[2])
                if o["done"] == "done":
                    saved.append([tree.bipartition_encoding, si, None, None])
        except Exception as e:
            o["error"] = core.exc_enum(e)
            out.append(o)
            break
        spec, problems = trees.dump_dendropy(tree, tindex, alloc=alloc)
        o["tree"], o["problems"], o["rooted"] = spec, problems, tree.is_rooted
        for lst in (saved, maintained):
            if lst and lst[-1][1] == si:
                lst[-1][2], lst[-1][3] = spec, tree.is_rooted
        o["edges"] = [[alloc.of(e.head_node), ref(e._bipartition)] for e in tree.postorder_edge_iter()]
        o["stored"] = None if tree.bipartition_encoding is None else [ref(b) for b in tree.bipartition_encoding]
        o["saved"] = [[ref(b) for b in s[0]] for s in saved]
        out.append(o)
    # at the end: every saved encoding must still rebuild the topology it was taken from
    rebuilt = []
    nslist = [[tindex[id(t)], ns.accession_index(t)] for t in ns]
    rng = random.Random(case["shuffle"])
    for lst, si, spec, rooted in saved + maintained:
        if spec is None:
            continue
        order = list(lst)
        rng.shuffle(order)
        r = {"step": si, "orig": spec, "rooted": rooted, "ns": nslist}
        if case["steps"][si][0] == "supp":
            r["maintained"] = True
        try:
            t3 = dendropy.Tree.from_bipartition_encoding(order, taxon_namespace=ns, is_rooted=rooted)
            r["result"] = dump_mtree(t3.seed_node, tindex)
        except Exception as e:
            r["error"] = "%s: %s" % (core.exc_enum(e), e)
        rebuilt.append(r)
    return {"acc": acc, "steps": out, "rebuilt": rebuilt}


# ----------------------------------------------------------------------------------------------
# oracle
# ----------------------------------------------------------------------------------------------

def oracle_hist(case, obs, spec_leaf_bits, bits_of, oracle_from):
    acc = dict((k, v) for k, v in obs["acc"])
    seen = set()            # tokens seen before the current step
    first = {}              # saved index -> its refs when it was saved
    valid = False           # the tree's encoding is up to date (an encoding step, nothing edited since)
    valid_supp = set()      # steps where suppress_unifurcations(update_bipartitions=True) found an up-to-date encoding
    for o in obs["steps"]:
        st = case["steps"][o["step"]]
        what = "%s(%s)" % (st[5], "suppress_unifurcations=%s, collapse_unrooted_basal_bifurcation=%s, "
                           "suppress_storage=%s, is_bipartitions_mutable=%s" % tuple(st[1:5])) if st[0] == "enc" \
            else "%s %s" % (st[0], st[1])
        tag = "history step %d, %s: " % (o["step"], what)
        if "error" in o:
            return (tag + "raised %s" % o["error"], "hist-raises:" + st[0])
        if o["problems"]:
            return (tag + "tree is ill-formed: %s" % o["problems"][:3], "hist-structure-problems")
        encoded = st[0] == "enc" or (st[0] == "via" and o["done"] == "done")
        kw = ":suppress_storage" if (st[0] == "enc" and st[3]) else (":" + st[5] if st[0] == "enc" and st[5] != "encode_bipartitions" else "")
        maintained = st[0] == "supp" and valid
        if st[0] == "edit" and o["done"] == "done":
            valid = False
        elif encoded:
            valid = True
        if st[0] == "supp":
            unary = [n["id"] for n in trees.preorder(o["tree"]) if len(n["kids"]) == 1]
            if unary:
                return (tag + "outdegree-one nodes %s are still on the tree" % unary[:4], "hist-suppress-leaves-unifurcation")
        if maintained:
            valid_supp.add(o["step"])
            kw = ":maintained"
            encoded_now = True
        else:
            encoded_now = encoded
        if st[0] == "enc":
            ss = st[3]
            if o["stored_is_none"] != bool(ss):
                return (tag + "Tree.bipartition_encoding is %s" % ("None" if o["stored_is_none"] else "a list"),
                        "hist-storage-keyword")
            if o["ret"] == "other":
                return (tag + "return value is not what the documentation says", "hist-return-value")
        if encoded_now:
            by_id = {n["id"]: n for n in trees.preorder(o["tree"])}
            S = spec_leaf_bits(o["tree"], acc)
            low = min(S) if S else None
            for nid, r in o["edges"]:
                want = spec_leaf_bits(by_id[nid], acc)
                if r is None:
                    return (tag + "edge %d has no Bipartition" % nid, "hist-edge-without-bipartition" + kw)
                sp, ls = r[1], r[2]
                if ls is None or ls < 0 or bits_of(ls) != want:
                    return (tag + "leafset bitmask %s of edge %d is not the taxa below it %s" % (ls, nid, sorted(want)),
                            "hist-leafset-not-exact" + kw)
                wsp = want if o["rooted"] else ((S - want) if (low is not None and low in want) else want)
                if S and (sp is None or sp < 0 or bits_of(sp) != wsp):
                    return (tag + "split bitmask %s of edge %d (leafset %s, tree leaf bits %s, rooted=%s) is not %s"
                            % (sp if sp is None else bin(sp), nid, sorted(want), sorted(S), o["rooted"], sorted(wsp)),
                            "hist-split-not-normalised" + kw)
            if o["stored"] is not None and [r[0] for r in o["stored"]] != [r[0] for _n, r in o["edges"]] \
                    and sorted(r[0] for r in o["stored"]) != sorted(r[0] for _n, r in o["edges"]):
                return (tag + "bipartition_encoding does not hold the Bipartition objects of the tree's edges"
                        + (": it has %d objects for %d edges" % (len(o["stored"]), len(o["edges"])) if maintained else ""),
                        "hist-encoding-list" + (kw if maintained else ""))
            if maintained and o["stored"] is not None:
                # as a set of split bitmasks: a fresh encoding of the tree as it is now
                fresh = set()
                for nid, _r in o["edges"]:
                    want = spec_leaf_bits(by_id[nid], acc)
                    fresh.add(frozenset(want if o["rooted"] else ((S - want) if (low is not None and low in want) else want)))
                have = set(frozenset(bits_of(r[1])) for r in o["stored"] if r is not None and r[1] is not None and r[1] >= 0)
                if S and have != fresh:
                    return (tag + "the maintained encoding has splits %s, a fresh encoding of the same tree has %s"
                            % (sorted(sorted(x) for x in have), sorted(sorted(x) for x in fresh)),
                            "hist-maintained-split-set")
        # what an earlier encoding returned does not change
        for k, lst in enumerate(o["saved"]):
            if k not in first:
                first[k] = (o["step"], lst)
                continue
            s0, l0 = first[k]
            if [r and r[0] for r in lst] != [r and r[0] for r in l0]:
                return (tag + "the list returned by the encoding of step %d now holds other objects" % s0,
                        "hist-saved-encoding-list-changed")
            for a, b in zip(l0, lst):
                if a is not None and (a[1], a[2]) != (b[1], b[2]):
                    return (tag + "the encoding returned at step %d changed: (split %s, leafset %s) became "
                            "(split %s, leafset %s)" % (s0, a[1], a[2], b[1], b[2]), "hist-saved-encoding-changed")
        if encoded:
            # the objects of a new encoding are new
            new = o["saved"][-1]
            reused = [r[0] for r in new if r is not None and r[0] in seen]
            if reused:
                return (tag + "the encoding is made of Bipartition objects that existed before (%d of %d): an "
                        "encoding returned earlier shares them" % (len(reused), len(new)),
                        "hist-encoding-reuses-bipartition-objects")
        for _n, r in o["edges"]:
            if r is not None:
                seen.add(r[0])
        for lst in ([o["stored"] or []] + o["saved"]):
            for r in lst:
                if r is not None:
                    seen.add(r[0])
    for r in obs["rebuilt"]:
        if not spec_leaf_bits(r["orig"], acc):
            continue
        if r.get("maintained"):
            if r["step"] not in valid_supp:
                continue
            if "error" in r:
                return ("from_bipartition_encoding(encoding maintained by suppress_unifurcations at step %d) raised %s"
                        % (r["step"], r["error"]), "hist-maintained-rebuild-raises")
            v = oracle_from({"mode": "tree"}, {"ns": r["ns"], "orig": r["orig"], "rooted": r["rooted"], "result": r["result"]})
            if v:
                return ("encoding maintained by suppress_unifurcations(update_bipartitions=True) at step %d, rebuilt at "
                        "the end of the history: %s" % (r["step"], v[0]), "hist-maintained-rebuild:" + v[1])
            continue
        if "error" in r:
            return ("from_bipartition_encoding(encoding saved at step %d) raised %s" % (r["step"], r["error"]),
                    "hist-saved-rebuild-raises")
        v = oracle_from({"mode": "tree"}, {"ns": r["ns"], "orig": r["orig"], "rooted": r["rooted"], "result": r["result"]})
        if v:
            return ("encoding saved at step %d, rebuilt at the end of the history: %s" % (r["step"], v[0]),
                    "hist-saved-rebuild:" + v[1])
    return None


# ----------------------------------------------------------------------------------------------
# Coq terms
# ----------------------------------------------------------------------------------------------

def c_ob(x):
    return copt(x, cbool)


def c_ref(r):
    if r is None:
        return "None"
    return "(Some (%s, mkB %s %s %s %s %s %s))" % (cz(r[0]), copt(r[1], cz), copt(r[2], cz), copt(r[3], cz),
                                                   copt(r[4], cz), c_ob(r[5]), c_ob(r[6]))


def c_obs(o):
    return "(Some (mkHO %s %s %s %s %s))" % (
        trees.c_tree(o["tree"]), c_ob(o["rooted"]),
        clist([cpair(cz(n), c_ref(r)) for n, r in o["edges"]]),
        "None" if o["stored"] is None else "(Some %s)" % clist([c_ref(r) for r in o["stored"]]),
        clist([clist([c_ref(r) for r in lst]) for lst in o["saved"]]))


def to_coq_hist(case, obs):
    acc = clist([cpair(cz(a), cz(b)) for a, b in obs["acc"]])
    steps = []
    for o in obs["steps"]:
        if "error" in o:
            steps.append("(HFail, None)")
            break
        st = case["steps"][o["step"]]
        if st[0] == "enc":
            steps.append("(HEnc %s %s %s %s, %s)" % (cbool(st[1]), cbool(st[2]), cbool(st[3]), cbool(st[4]), c_obs(o)))
        elif st[0] == "supp":
            steps.append("(HSupp %s %s, %s)" % (trees.c_tree(o["tree"]), c_ob(o["rooted"]), c_obs(o)))
        elif st[0] == "edit" or o["done"] != "done":
            steps.append("(HEdit %s %s, %s)" % (trees.c_tree(o["tree"]), c_ob(o["rooted"]), c_obs(o)))
        else:
            # an operation called with update_bipartitions=True: the structure it leaves, then a plain encoding
            steps.append("(HEdit %s %s, None)" % (trees.c_tree(o["tree"]), c_ob(o["rooted"])))
            steps.append("(HEnc false false false false, %s)" % c_obs(o))
    return "(HCase %s %s %s %s)" % (acc, c_ob(case["rooted"]), trees.c_tree(case["tree"]), clist(steps))
