"""C09 helper (wave 7): construction routes over SEVERAL matrices in one taxon namespace, and routes whose
row (insertion) order differs from the namespace order.

A "pool" route builds 2-4 matrices in one shared TaxonNamespace (from a dictionary, or by parsing a text that
the library wrote for such a dictionary: FASTA / PHYLIP / NEXUS / NeXML into the EXISTING namespace), then runs a
history of the documented merge operations between them (add_sequences, replace_sequences, update_sequences,
extend_sequences, extend_matrix, concatenate, export_character_indices).  What C09 says about it: whatever the
route, EVERY matrix of the route - the sources as much as the result - still converts with its own content.
The operations themselves are property C19's; here
  * the content of a matrix is what it was given (dictionary / parsed text) or what it had right after the last
    step of which it was the target: no step may change the content of a matrix it does not operate on
    (no naive re-implementation of the operations is involved), and
  * after the route has finished every matrix of the pool is written and read back and must deliver that content.
The identities of the rows' value lists (id(), canonicalised per route, objects alive) are observed too and quoted
in the message: a list shared by rows of two matrices is how such a change comes about.
"""
import collections

BINARY = ["add_sequences", "replace_sequences", "update_sequences", "extend_sequences", "extend_matrix"]


def syms_of(m):
    return [[t.label, [str(s) for s in m[t]]] for t in m]


def idx_rows(m):
    """rows in the order of ENTRY, cells as state indices"""
    return [[t.label, [st.index for st in seq]] for t, seq in m._taxon_sequence_map.items()]


def insertion_labels(m):
    return [t.label for t in m._taxon_sequence_map]


def shared_lists(mats):
    """groups of rows (matrix index, label) of DIFFERENT matrices whose sequences hold the same list object"""
    seen = collections.OrderedDict()
    for i, m in enumerate(mats):
        for t, seq in m._taxon_sequence_map.items():
            seen.setdefault(id(seq._character_values), []).append([i, t.label])
    return [g for g in seen.values() if len(set(i for i, _ in g)) > 1]


def permuted(rng, xs):
    ys = list(xs)
    if len(ys) < 2:
        return ys
    for _ in range(8):
        rng.shuffle(ys)
        if ys != list(xs):
            break
    return ys


def gen_pool_route(rng, dt, labels, nst, nchar, vias):
    """labels: admissible for every format in `vias`; nst: number of states of the type; nchar: width scale"""
    labels = list(labels)
    ns_order = permuted(rng, labels) if rng.random() < 0.5 else None
    same_width = rng.random() < 0.6
    shape = []          # per matrix: OrderedDict label -> row length (to choose steps that are legal)
    mats = []
    nbase = rng.randint(2, 3)
    for i in range(nbase):
        w = nchar if same_width else rng.randint(1, max(1, nchar))
        order = permuted(rng, labels) if rng.random() < 0.5 else list(labels)
        if i > 0 and rng.random() < 0.25 and len(labels) > 1:
            order = order[:rng.randint(1, len(labels) - 1)]
        rows = [[l, [rng.randrange(nst) for _ in range(w)]] for l in order]
        via = rng.choice([None, None] + list(vias))
        mats.append({"rows": rows, "via": via})
        shape.append(collections.OrderedDict((l, w) for l in order))
    if rng.random() < 0.4:
        mats.append({"rows": [], "via": None})
        shape.append(collections.OrderedDict())
    # namespace as the library will have it
    if ns_order is None:
        ns = []
        for md in mats:
            for l, _c in md["rows"]:
                if l not in ns:
                    ns.append(l)
    else:
        ns = list(ns_order)
    steps = []
    last = None
    concat_results = set()
    for _ in range(rng.randint(1, 4)):
        k = rng.random()
        full = [i for i, sh in enumerate(shape) if len(sh) == len(ns) and len(set(sh.values())) == 1 and min(sh.values()) >= 1]
        nonempty = [i for i, sh in enumerate(shape) if sh]
        if k < 0.3 and len(full) >= 1:
            srcs = [rng.choice(full) for _ in range(rng.randint(2, 3))]
            if rng.random() < 0.7 and len(full) >= 2:
                srcs = rng.sample(full, min(len(full), rng.randint(2, 3)))
            steps.append({"op": "concatenate", "srcs": srcs})
            sh = collections.OrderedDict()
            for s in srcs:
                for l, w in shape[s].items():
                    sh[l] = sh.get(l, 0) + w
            shape.append(sh)
            last = len(shape) - 1
            concat_results.add(last)
        elif k < 0.4 and nonempty:
            s = rng.choice(nonempty)
            wmax = max(shape[s].values())
            if wmax < 1:
                continue
            idx = sorted(rng.sample(range(wmax), rng.randint(1, wmax)))
            steps.append({"op": "export", "src": s, "indices": idx})
            shape.append(collections.OrderedDict((l, len([j for j in idx if j < w])) for l, w in shape[s].items()))
            last = len(shape) - 1
        else:
            if len(nonempty) < 1 or len(shape) < 2:
                continue
            s = rng.choice(nonempty)
            # (a concatenation result is not operated on again: it carries character subsets over its columns which
            #  replace/update_sequences do not maintain - the SETS block written for it can then name columns that are
            #  gone, wave 7 observation)
            tc = [i for i in range(len(shape)) if i != s and i not in concat_results]
            if not tc:
                continue
            t = rng.choice(tc)
            op = rng.choice(BINARY)
            flag = rng.random() < 0.5
            steps.append({"op": op, "tgt": t, "src": s, "flag": flag})
            tg, sr = shape[t], shape[s]
            for l, w in sr.items():
                if op == "add_sequences":
                    if l not in tg:
                        tg[l] = w
                elif op == "replace_sequences":
                    if l in tg:
                        tg[l] = w
                elif op == "update_sequences":
                    tg[l] = w
                else:
                    if l in tg:
                        tg[l] += w
                    elif op == "extend_matrix" or flag:
                        tg[l] = w
            last = t
    cand = [i for i, sh in enumerate(shape) if sh]
    final = last if (last is not None and shape[last]) else cand[-1]
    return {"r": "pool", "dt": dt, "ns_order": ns_order, "mats": mats, "steps": steps, "final": final}


def step_name(st):
    if st["op"] == "extend_sequences":
        return "extend_sequences(is_add_new_sequences=%s)" % st["flag"]
    return st["op"]


def build_pool(route, cls, symbols_of, extra):
    """runs the route on the real library; returns the final matrix.  extra["sources"] = every OTHER matrix of the
    pool as {"name", "m", "expect"}; extra["first_change"] = the first step that changed a matrix it does not
    operate on; extra["shared"] = value lists shared between matrices at the end"""
    import dendropy
    dt = route["dt"]
    tns = dendropy.TaxonNamespace(route["ns_order"]) if route["ns_order"] is not None else dendropy.TaxonNamespace()
    pool, names, expect = [], [], []
    build_bad = None
    for k, md in enumerate(route["mats"]):
        d = collections.OrderedDict((l, symbols_of(dt, cells)) for l, cells in md["rows"])
        if not md["rows"]:
            m = cls(taxon_namespace=tns)
            name = "an empty matrix"
        elif md["via"] is None:
            m = cls.from_dict(d, taxon_namespace=tns)
            name = "from_dict(taxon_namespace=)"
        else:
            tmp = cls.from_dict(d)
            text = tmp.as_string(md["via"])
            m = cls.get(data=text, schema=md["via"], taxon_namespace=tns)
            name = "parsed from %s into the namespace" % md["via"]
        m.label = "p%d" % k
        pool.append(m)
        names.append("matrix %d (%s)" % (k, name))
        expect.append(None)
    given = [dict((l, list(symbols_of(dt, cells))) for l, cells in md["rows"]) for md in route["mats"]]
    for k, m in enumerate(pool):
        want = [[t.label, given[k][t.label]] for t in tns if t.label in given[k]]
        got = syms_of(m)
        if got != want and build_bad is None:
            build_bad = {"matrix": names[k], "via": route["mats"][k]["via"] or "from_dict", "want": want, "got": got}
        expect[k] = want
    extra["init_idx"] = [idx_rows(m) for m in pool]
    first_change = None
    for si, st in enumerate(route["steps"]):
        op = st["op"]
        if op == "concatenate":
            new = cls.concatenate([pool[i] for i in st["srcs"]])
            tgt = len(pool)
            pool.append(new)
            names.append("matrix %d (concatenate of %s)" % (tgt, st["srcs"]))
            expect.append(None)
        elif op == "export":
            new = pool[st["src"]].export_character_indices(st["indices"])
            tgt = len(pool)
            pool.append(new)
            names.append("matrix %d (export_character_indices of %d)" % (tgt, st["src"]))
            expect.append(None)
        else:
            tgt = st["tgt"]
            if op == "extend_sequences":
                pool[tgt].extend_sequences(pool[st["src"]], is_add_new_sequences=st["flag"])
            else:
                getattr(pool[tgt], op)(pool[st["src"]])
        for i, m in enumerate(pool):
            now = syms_of(m)
            if i == tgt:
                expect[i] = now
            elif now != expect[i] and first_change is None:
                first_change = {"step": si, "op": step_name(st), "matrix": names[i], "before": expect[i], "after": now,
                                "operands": "target %d, argument(s) %s" % (tgt, st.get("srcs", st.get("src")))}
    final = route["final"]
    extra["sources"] = [{"name": names[i], "m": pool[i], "expect": expect[i]} for i in range(len(pool)) if i != final]
    extra["first_change"] = first_change
    extra["build_bad"] = build_bad
    extra["shared"] = shared_lists(pool)
    extra["row_order"] = [insertion_labels(m) for m in pool]
    extra["final_idx"] = [idx_rows(m) for m in pool]
    extra["keep"] = pool          # the objects stay alive while ids are compared
    return pool[final]


def nexus_permuted_text(rng, dt, rows, ns_order, symbols_of):
    """a NEXUS document whose TAXLABELS list the taxa in `ns_order` and whose MATRIX lists the rows in the order of
    `rows` (labels must be plain words or are quoted)"""
    def q(l):
        return l if l.replace(".", "").isalnum() and l.isascii() else "'%s'" % l.replace("'", "''")
    dk = {"dna": "DNA", "rna": "RNA", "nucleotide": "NUCLEOTIDE", "protein": "PROTEIN", "standard": "STANDARD"}[dt]
    extra = ' SYMBOLS="0123456789"' if dt == "standard" else ""
    w = max(len(q(l)) for l, _ in rows)
    lines = ["#NEXUS", "", "BEGIN TAXA;", "  DIMENSIONS NTAX=%d;" % len(ns_order), "  TAXLABELS " + " ".join(q(l) for l in ns_order) + ";", "END;", "",
             "BEGIN CHARACTERS;", "  DIMENSIONS NCHAR=%d;" % len(rows[0][1]), "  FORMAT DATATYPE=%s%s GAP=- MISSING=?;" % (dk, extra), "  MATRIX"]
    for l, cells in rows:
        lines.append("    %s  %s" % (q(l).ljust(w), symbols_of(dt, cells)))
    lines += ["  ;", "END;", ""]
    return "\n".join(lines)
