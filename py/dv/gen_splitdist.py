"""Translator: SplitDistribution bookkeeping / consensus selection / statistics kernel
  ->  coq/Gen/SplitDist.v   (property C05).

generate(repo) parses src/dendropy/datamodel/treecollectionmodel.py and
src/dendropy/calculate/statistics.py with `ast` and compiles the functions of PLAN statement by
statement into Gallina over the run-time library coq/Model/C05GenPrims.v (which states the
Python meaning of every primitive):

  * a SplitDistribution method denotes  cfg -> self -> args -> (self' * result): `self` is the
    object state (record sdx: the hand model's state plus the summary-cache attributes);
    attribute reads/writes become a_<attr> / sa_<attr>; configuration attributes are read from
    cfg; a call of another translated method threads `self`
  * a statistics function denotes  args -> res result  (exceptions = PyPrims.err)
  * `for` becomes py_for / py_forM over the iterated list with the tuple of carried variables
    (those assigned in the body that exist before the loop); `if` joins the variables assigned in
    its branches; `continue` ends the body with the current tuple
  * expressions are typed (Z ints, Q floats, bool, "None or float", lists, dicts keyed by int,
    the set of rooting types, tuples); int/float mixing inserts py_Z2Q; operators, comparison
    directions, call names, argument order, which variable or attribute is updated, loop sources
    and the order of statements all come from the AST
  * idioms recognised structurally (and only in these shapes):
      sel = self.D.setdefault(k, []) ... sel.append(v)      ->  py_setdefault_append (alias of the stored list)
      if hasattr(bipartition, 'edge'): edge = bipartition.edge else: <lookup in bipartition_edge_map>
                                                             ->  edge := the bipartition's record
      tree.calc_node_ages(..), tree.encode_bipartitions(), the taxon-namespace assert
                                                             ->  nothing (the tree argument lists its
                                                                 bipartitions as encoded, with ages)
      try: x = e  except (A, B): x = None                   ->  py_try_none
      try: d[k] = e  except (A, B): pass                    ->  py_try_pass
    summarize: the keys 'sd' (math.sqrt), 'hpd95', 'quant_5_95' are outside exact arithmetic; the
    statements that only assign them are skipped after checking their shape.

Anything outside the subset raises Unsupported: py2coq then writes a stub and every dependent
proof breaks (fail closed).
"""
import ast
import os
from fractions import Fraction

OUTPUT = "SplitDist.v"


class Unsupported(Exception):
    pass


def bad(node, why):
    raise Unsupported("%s (line %s): %s" % (why, getattr(node, "lineno", "?"),
                                            ast.unparse(node)[:90] if isinstance(node, ast.AST) else node))


# ------------------------------------------------------------------------------------------
# types
# ------------------------------------------------------------------------------------------
# Z int | Q float | B bool | OQ None-or-float | OB None-or-bool | QI float-or-inf | S string
# LZ, LQ, LOQ lists | LP list of (float, int) | P (float, int)
# DQ dict int->float | DL dict int->list OQ | ODQ None-or-DQ | DS dict int->summary | ODS
# SB set of bool | tree | rec (bipartition = edge = head node record) | sdx | none | GS summary dict
COQ_TY = {"Z": "Z", "Q": "Q", "B": "bool", "OQ": "(option Q)", "OB": "(option bool)", "QI": "(option Q)",
          "LZ": "(list Z)", "LQ": "(list Q)", "LOQ": "(list (option Q))", "LP": "(list (Q * Z))",
          "P": "(Q * Z)", "DQ": "(list (Z * Q))", "DL": "(list (Z * list (option Q)))",
          "ODQ": "(option (list (Z * Q)))", "DS": "(list (Z * gsummary))",
          "ODS": "(option (list (Z * gsummary)))", "SB": "(list bool)", "tree": "tree_in",
          "rec": "brec", "sdx": "sdx", "none": "unit", "GS": "gsummary", "LLZ": "(list (list Z))",
          "ONAT": "(option Z)"}


def coq_ty(t):
    if isinstance(t, tuple):
        return "(" + " * ".join(coq_ty(x) for x in t[1]) + ")"
    if t not in COQ_TY:
        raise Unsupported("no Coq type for %r" % (t,))
    return COQ_TY[t]


SELF_ATTRS = {
    "total_trees_counted": "Z", "sum_of_tree_weights": "Q", "tree_rooting_types_counted": "SB",
    "split_counts": "DQ", "split_edge_lengths": "DL", "split_node_ages": "DL",
    "_split_freqs": "ODQ", "_trees_counted_for_freqs": "Z",
    "_split_edge_length_summaries": "ODS", "_split_node_age_summaries": "ODS",
    "_trees_counted_for_summaries": "Z",
}
CFG_ATTRS = {"ignore_edge_lengths": "B", "ignore_node_ages": "B", "use_tree_weights": "B"}
TREE_ATTRS = {"weight": ("py_tree_weight", "OQ"), "is_rooted": ("py_tree_is_rooted", "OB"),
              "bipartition_encoding": ("py_tree_bipartition_encoding", "LREC")}
COQ_TY["LREC"] = "(list brec)"
EXC = {"IndexError": "IndexErr", "ValueError": "ValueErr", "TypeError": "TypeErr", "KeyError": "KeyErr",
       "OverflowError": "OtherErr"}


def qlit(x):
    fr = Fraction(x)
    n = ("(%d)" % fr.numerator) if fr.numerator < 0 else str(fr.numerator)
    return "(%s # %d)%%Q" % (n, fr.denominator)


def cname(v):
    return v if not v.startswith("_") else "u" + v


# ------------------------------------------------------------------------------------------
# the compiler of one function
# ------------------------------------------------------------------------------------------
class Fn:
    def __init__(self, fn, kind, params, known, consts):
        self.fn = fn
        self.kind = kind              # "method" (cfg, self threaded) | "pure" (res monad)
        self.params = params          # [(pyname, type)]
        self.known = known            # name -> (coq name, kind, param types, result type)
        self.consts = consts          # module constants (min_freq default etc.) - unused in bodies
        self.tmp = 0
        self.pre = []                 # hoisted bindings of the statement being compiled
        self.lambdas = {}
        self.alias = {}               # local -> (attr, key text)  (setdefault idiom)

    # -------------------------------------------------------------- helpers
    def fresh(self, base="t"):
        self.tmp += 1
        return "%s%d" % (base, self.tmp)

    def monadic(self):
        return self.kind == "pure"

    def ret(self, text):
        return "Ok %s" % text if self.monadic() else text

    def wrap_pre(self, body):
        for kind, pat, text in reversed(self.pre):
            if kind == "let":
                body = "let %s := %s in\n  %s" % (pat, text, body)
            else:
                body = "py_bind %s (fun %s =>\n  %s)" % (text, pat, body)
        self.pre = []
        return body

    def coerce(self, text, ty, want, node=None):
        if ty == want:
            return text
        if ty == "Z" and want == "Q":
            return "(py_Z2Q %s)" % text
        if ty == "Q" and want == "QI":
            return "(py_finite %s)" % text
        if ty == "none" and want in ("OQ", "OB", "ODQ", "ODS", "ONAT", "OQQ"):
            return "None"
        if ty == "Q" and want == "OQ":
            return "(Some %s)" % text
        if ty == "Z" and want == "ONAT":
            return "(Some %s)" % text
        if ty == "B" and want == "OB":
            return "(Some %s)" % text
        bad(node or text, "cannot use %s as %s" % (ty, want))

    def truth(self, text, ty, node):
        if ty == "B":
            return text
        if ty == "Q":
            return "(py_truth_float %s)" % text
        if ty == "OB":
            return "(py_truth_obool %s)" % text
        if ty in ("LZ", "LQ", "LOQ", "LP", "LREC"):
            return "(py_truth_list %s)" % text
        bad(node, "truthiness of %s" % ty)

    # -------------------------------------------------------------- expressions
    def ex(self, e, env):
        """-> (coq text, type); may append hoisted bindings to self.pre"""
        if isinstance(e, ast.Constant):
            v = e.value
            if v is None:
                return "tt", "none"
            if isinstance(v, bool):
                return ("true" if v else "false"), "B"
            if isinstance(v, int):
                return ("(%d)" % v), "Z"
            if isinstance(v, float):
                return qlit(v), "Q"
            if isinstance(v, str):
                return "tt", "S"
            bad(e, "constant")
        if isinstance(e, ast.Name):
            if e.id in env:
                if e.id in self.alias:
                    bad(e, "aliased list used as a value")
                return cname(e.id), env[e.id]
            bad(e, "unknown name")
        if isinstance(e, ast.Tuple):
            parts = [self.ex(x, env) for x in e.elts]
            return "(" + ", ".join(p[0] for p in parts) + ")", ("T", [p[1] for p in parts])
        if isinstance(e, ast.List) and not e.elts:
            return "[]", "EMPTYLIST"
        if isinstance(e, ast.Dict) and not e.keys:
            return "[]", "EMPTYDICT"
        if isinstance(e, ast.Attribute):
            return self.attr(e, env)
        if isinstance(e, ast.Subscript):
            return self.subscript(e, env)
        if isinstance(e, ast.UnaryOp):
            if isinstance(e.op, ast.Not):
                t, ty = self.ex(e.operand, env)
                return "(negb %s)" % self.truth(t, ty, e), "B"
            if isinstance(e.op, ast.USub):
                t, ty = self.ex(e.operand, env)
                if ty == "Z":
                    return "(Z.opp %s)" % t, "Z"
            bad(e, "unary operator")
        if isinstance(e, ast.BoolOp):
            parts = [self.truth(*self.ex(v, env), e) for v in e.values]
            op = "andb" if isinstance(e.op, ast.And) else "orb"
            out = parts[-1]
            for p in reversed(parts[:-1]):
                out = "(%s %s %s)" % (op, p, out)
            return out, "B"
        if isinstance(e, ast.BinOp):
            return self.binop(e, env)
        if isinstance(e, ast.Compare):
            return self.compare(e, env)
        if isinstance(e, ast.Call):
            return self.call(e, env)
        if isinstance(e, ast.ListComp):
            return self.listcomp(e, env)
        bad(e, "expression")

    def attr(self, e, env):
        b = e.value
        if isinstance(b, ast.Name) and b.id == "self" and self.kind == "method":
            if e.attr in SELF_ATTRS:
                return "(a_%s self)" % e.attr, SELF_ATTRS[e.attr]
            if e.attr in CFG_ATTRS:
                return "(c_%s cfg)" % e.attr, CFG_ATTRS[e.attr]
            bad(e, "attribute of self outside the modelled state")
        if isinstance(b, ast.Name) and b.id in env:
            ty = env[b.id]
            if ty == "sdx" and e.attr in SELF_ATTRS:
                return "(a_%s %s)" % (e.attr, cname(b.id)), SELF_ATTRS[e.attr]
            if ty == "tree" and e.attr in TREE_ATTRS:
                f, rt = TREE_ATTRS[e.attr]
                return "(%s %s)" % (f, cname(b.id)), rt
            if ty == "rec" and e.attr == "split_bitmask":
                return "(py_bip_split_bitmask %s)" % cname(b.id), "Z"
            if ty == "rec" and e.attr == "length":
                return "(py_edge_length %s)" % cname(b.id), "OQ"
            if ty == "rec" and e.attr == "head_node":
                return cname(b.id), "headnode"
        if isinstance(b, ast.Attribute) and b.attr == "head_node" and e.attr == "age":
            t, ty = self.ex(b, env)
            if ty == "headnode":
                return "(py_edge_head_age %s)" % t, "OQ"
        bad(e, "attribute")

    def subscript(self, e, env):
        t, ty = self.ex(e.value, env)
        k, kty = self.ex(e.slice, env)
        if ty == "DQ" and isinstance(e.value, ast.Attribute):
            return "(py_dd_get_float %s %s)" % (t, k), "Q"       # defaultdict(float)
        if ty == "DL" and isinstance(e.value, ast.Attribute):
            return "(py_dd_get_list %s %s)" % (t, k), "LOQ"      # defaultdict(list)
        if ty == "DQ":
            return "(py_dict_get %s %s 0%%Q)" % (t, k), "Q"      # key known to be present (iterated)
        if ty == "ODQ":
            return "(py_odict_get %s %s 0%%Q)" % (t, k), "Q"
        if ty == "P" and isinstance(e.slice, ast.Constant) and e.slice.value in (0, 1):
            return "(%s %s)" % ("fst" if e.slice.value == 0 else "snd", t), ("Q" if e.slice.value == 0 else "Z")
        if ty == "LQ" and kty == "Z" and self.monadic():
            v = self.fresh("ix")
            self.pre.append(("bind", v, "(py_index %s %s)" % (t, k)))
            return v, "Q"
        bad(e, "subscript of %s" % (ty,))

    def num2(self, e, env):
        a, ta = self.ex(e.left, env)
        b, tb = self.ex(e.right, env)
        if ta == "Z" and tb == "Z":
            return a, b, "Z"
        if ta in ("Z", "Q") and tb in ("Z", "Q"):
            return self.coerce(a, ta, "Q"), self.coerce(b, tb, "Q"), "Q"
        bad(e, "arithmetic on %s, %s" % (ta, tb))

    def binop(self, e, env):
        if isinstance(e.op, ast.Div):
            a, ta = self.ex(e.left, env)
            b, tb = self.ex(e.right, env)
            if ta in ("Z", "Q") and tb in ("Z", "Q"):
                return "(py_fdiv %s %s)" % (self.coerce(a, ta, "Q"), self.coerce(b, tb, "Q")), "Q"
            bad(e, "division of %s by %s" % (ta, tb))
        if isinstance(e.op, ast.Mod):
            a, b, ty = self.num2(e, env)
            if ty == "Z":
                return "(py_imod %s %s)" % (a, b), "Z"
            bad(e, "float modulo")
        ops = {ast.Add: ("Z.add", "py_fadd"), ast.Sub: ("Z.sub", "py_fsub"), ast.Mult: ("Z.mul", "py_fmul")}
        for k, (zo, qo) in ops.items():
            if isinstance(e.op, k):
                a, b, ty = self.num2(e, env)
                return "(%s %s %s)" % (zo if ty == "Z" else qo, a, b), ty
        bad(e, "binary operator")

    def compare(self, e, env):
        if len(e.ops) != 1:
            bad(e, "chained comparison")
        op, r = e.ops[0], e.comparators[0]
        if isinstance(op, (ast.Is, ast.IsNot)):
            if not (isinstance(r, ast.Constant) and r.value is None):
                bad(e, "`is` with something else than None")
            t, ty = self.ex(e.left, env)
            if ty == "headnode":
                res = "false"                       # the record's head node always exists
            elif ty in ("OQ", "OB", "ODQ", "ODS", "ONAT", "OQQ"):
                res = "(py_is_none %s)" % t
            else:
                bad(e, "`is None` on %s" % (ty,))
            return (res if isinstance(op, ast.Is) else "(negb %s)" % res), "B"
        if isinstance(op, (ast.In, ast.NotIn)):
            k, kty = self.ex(e.left, env)
            t, ty = self.ex(r, env)
            if ty == "SB" and kty == "B":
                res = "(py_set_has %s %s)" % (t, k)
            elif ty in ("DQ",) and kty == "Z":
                res = "(py_dict_has %s %s)" % (t, k)
            else:
                bad(e, "membership in %s" % (ty,))
            return (res if isinstance(op, ast.In) else "(negb %s)" % res), "B"
        a, ta = self.ex(e.left, env)
        b, tb = self.ex(r, env)
        if ta == "ONAT" or tb == "ONAT" or ta == "OQQ" or tb == "OQQ":
            bad(e, "comparison with a None-or-number value")
        if ta == "Z" and tb == "Z":
            tab = {ast.Eq: "Z.eqb %s %s", ast.NotEq: "negb (Z.eqb %s %s)", ast.Lt: "Z.ltb %s %s",
                   ast.LtE: "Z.leb %s %s", ast.Gt: "Z.ltb %s %s", ast.GtE: "Z.leb %s %s"}
            swap = isinstance(op, (ast.Gt, ast.GtE))
        elif ta in ("Z", "Q") and tb in ("Z", "Q"):
            a, b = self.coerce(a, ta, "Q"), self.coerce(b, tb, "Q")
            tab = {ast.Eq: "py_feq %s %s", ast.NotEq: "negb (py_feq %s %s)", ast.Lt: "py_flt %s %s",
                   ast.LtE: "py_fle %s %s", ast.Gt: "py_flt %s %s", ast.GtE: "py_fle %s %s"}
            swap = isinstance(op, (ast.Gt, ast.GtE))
        else:
            bad(e, "comparison of %s with %s" % (ta, tb))
        for k, fmt in tab.items():
            if isinstance(op, k):
                x, y = (b, a) if swap else (a, b)
                return "(" + fmt % (x, y) + ")", "B"
        bad(e, "comparison operator")

    def call(self, e, env):
        f = e.func
        if isinstance(f, ast.Name):
            if f.id in self.lambdas and len(e.args) == 1 and not e.keywords:
                param, body = self.lambdas[f.id]
                a, ta = self.ex(e.args[0], env)
                v = self.fresh("la")
                self.pre.append(("let", v, a))
                env2 = dict(env)
                env2[param] = ta
                # the lambda body is compiled with its parameter bound to the argument
                t, ty = self.ex(self.rename(body, param, v), dict(env2, **{v: ta}))
                return t, ty
            if f.id == "float" and len(e.args) == 1:
                a0 = e.args[0]
                if isinstance(a0, ast.Constant) and a0.value == "inf":
                    return "py_inf", "QI"
                t, ty = self.ex(a0, env)
                if ty == "Q":
                    return t, "Q"
                if ty == "Z":
                    return "(py_Z2Q %s)" % t, "Q"
                if ty == "OQ":
                    return "(py_float_of_opt %s)" % t, "Q"
                bad(e, "float() of %s" % (ty,))
            if f.id == "int" and len(e.args) == 1 and isinstance(e.args[0], ast.BinOp) \
                    and isinstance(e.args[0].op, ast.Div):
                a, ta = self.ex(e.args[0].left, env)
                b, tb = self.ex(e.args[0].right, env)
                if ta == "Z" and tb == "Z":
                    return "(py_int_truediv %s %s)" % (a, b), "Z"
                bad(e, "int() of a float quotient")
            if f.id == "len" and len(e.args) == 1:
                t, ty = self.ex(e.args[0], env)
                if ty in ("LZ", "LQ", "LOQ", "LP", "LREC"):
                    return "(py_len %s)" % t, "Z"
                if ty == "SB":
                    return "(py_set_len %s)" % t, "Z"
                bad(e, "len() of %s" % (ty,))
            if f.id == "abs" and len(e.args) == 1:
                t, ty = self.ex(e.args[0], env)
                if ty == "Q":
                    return "(py_fabs %s)" % t, "Q"
                bad(e, "abs() of %s" % (ty,))
            if f.id == "sorted" and len(e.args) == 1 and not e.keywords:
                t, ty = self.ex(e.args[0], env)
                if ty == "LQ":
                    return "(py_sorted_float %s)" % t, "LQ"
                bad(e, "sorted() of %s" % (ty,))
            if f.id in ("min", "max") and len(e.args) == 1 and self.monadic():
                t, ty = self.ex(e.args[0], env)
                if ty == "LQ":
                    v = self.fresh("mm")
                    self.pre.append(("bind", v, "(py_%s_float %s)" % (f.id, t)))
                    return v, "Q"
                bad(e, "%s() of %s" % (f.id, ty))
            if f.id in self.known:
                return self.known_call(f.id, e, env, None)
            bad(e, "call")
        if isinstance(f, ast.Attribute):
            # self.method(...)
            if isinstance(f.value, ast.Name) and f.value.id == "self" and f.attr in self.known:
                return self.known_call(f.attr, e, env, "self")
            if isinstance(f.value, ast.Name) and f.value.id == "statistics" and f.attr in self.known:
                return self.known_call(f.attr, e, env, None)
            # <dict>.get(k, d)
            if f.attr == "get" and len(e.args) == 2:
                t, ty = self.ex(f.value, env)
                k, _ = self.ex(e.args[0], env)
                d, dty = self.ex(e.args[1], env)
                if ty == "ODQ":
                    return "(py_odict_get %s %s %s)" % (t, k, self.coerce(d, dty, "Q")), "Q"
                if ty == "DQ":
                    return "(py_dict_get %s %s %s)" % (t, k, self.coerce(d, dty, "Q")), "Q"
                bad(e, ".get on %s" % (ty,))
            if f.attr == "items" and not e.args:
                t, ty = self.ex(f.value, env)
                if ty == "DL":
                    return "(py_dict_items %s)" % t, "ITEMS_DL"
                bad(e, ".items() on %s" % (ty,))
        bad(e, "call")

    def known_call(self, name, e, env, recv):
        coqname, kind, ptys, rty = self.known[name]
        if e.keywords:
            bad(e, "keyword arguments in a call of a translated function")
        args = []
        for a, pty in zip(e.args, ptys):
            t, ty = self.ex(a, env)
            args.append(self.coerce(t, ty, pty, a))
        if len(e.args) != len(ptys):
            bad(e, "argument count")
        if kind == "method":
            if self.kind != "method" or recv != "self":
                bad(e, "method call outside a method")
            v = self.fresh("r")
            self.pre.append(("let", "'(self, %s)" % v, "%s cfg self %s" % (coqname, " ".join(args))))
            return v, rty
        v = self.fresh("r")
        if not self.monadic():
            # a pure (res) function called from a method: only inside the try idioms
            return "(%s %s)" % (coqname, " ".join(args)), ("RES", rty)
        self.pre.append(("bind", v if not isinstance(rty, tuple) else "'" + self.tuple_pat(v, rty),
                         "(%s %s)" % (coqname, " ".join(args))))
        return (v if not isinstance(rty, tuple) else self.tuple_val(v, rty)), rty

    def tuple_pat(self, v, rty):
        return "(" + ", ".join("%s_%d" % (v, i) for i in range(len(rty[1]))) + ")"

    def tuple_val(self, v, rty):
        return "(" + ", ".join("%s_%d" % (v, i) for i in range(len(rty[1]))) + ")"

    def rename(self, node, old, new):
        class R(ast.NodeTransformer):
            def visit_Name(self, n):
                return ast.copy_location(ast.Name(id=new, ctx=n.ctx), n) if n.id == old else n
        import copy
        return R().visit(copy.deepcopy(node))

    def listcomp(self, e, env):
        # [i[1] for i in <list of pairs>]
        if len(e.generators) != 1 or e.generators[0].ifs or not isinstance(e.generators[0].target, ast.Name):
            bad(e, "list comprehension shape")
        g = e.generators[0]
        t, ty = self.ex(g.iter, env)
        if ty != "LP":
            bad(e, "comprehension over %s" % (ty,))
        v = g.target.id
        body, bty = self.ex(e.elt, dict(env, **{v: "P"}))
        if bty != "Z":
            bad(e, "comprehension element type")
        return "(map (fun %s => %s) %s)" % (cname(v), body, t), "LZ"


def generate(repo):
    from dv import c05_gen_impl
    return c05_gen_impl.generate(repo)
