"""Translator: class NexusTaxonSymbolMapper (dataio/nexusprocessing.py) -> coq/Gen/RoutesMapper.v  (property C13).

The symbol mapper decides to which Taxon a leaf symbol of a tree statement resolves (TRANSLATE token ->
taxon label -> taxon number -> new taxon); the reader's and the iterator's block drivers (Gen/Routes.v)
construct it, fill its TRANSLATE table and hand `require_taxon_for_symbol` to the statement parser.
generate(repo) parses the CURRENT text of the class with `ast` and compiles the methods in PLAN statement by
statement over the run-time library coq/Model/C13MapPrims.v: the mapper object is the record `mobj` of its
attributes, dicts are association lists (assignment history, most recent first; a CaseInsensitiveDict is the same
list with lower-cased keys), the namespace object behind self._taxon_namespace is its member labels + is_mutable.

It is a compiler for a whitelisted subset: statement order, the branch structure, which attribute / dict is read
or written with which key and value, the order of the three look-ups and their guards, the try/except KeyError
blocks, callee names and argument passing, defaults of parameters, the loop over enumerate(namespace) are all read
off the AST; anything else raises Unsupported (py2coq then writes a stub and every dependent proof breaks).

Shapes
  a method   gm_<name> (o : mobj) <params> : res (<ret> * mobj)      (the object afterwards; the namespace object
             it refers to is part of it, its caller reads it back)
  `if c: A` / `if c: A else: B` followed by R  ->  if c then [A; R] else [B; R]   (continuation duplicated)
  `try: return self.<dict>[k]  except KeyError: pass`  ->  match <get> with Some v => return v | None => .. end
  `for idx, taxon in enumerate(self._taxon_namespace): <assignments>` -> fold_left over nso_enumerate
  which attributes are CaseInsensitiveDicts / plain dicts is read off the constructor expressions in __init__
  folded (as in Gen/Routes.v): case_sensitive = False, <TaxonNamespace>.is_case_sensitive = False; a parameter of
  type str makes `textprocessing.is_str_type(p)` true.
Proofs/C13GenMapper.v proves the compiled methods equal to new_mapper / add_translate_token / lookup_taxon_symbol /
require_taxon_for_symbol / mapper_new_taxon of Model/C13Model.v.
"""
import ast
import os

from dv.gen_routes import Unsupported, coq_str

OUTPUT = "RoutesMapper.v"
FILE = "src/dendropy/dataio/nexusprocessing.py"
CLASS = "NexusTaxonSymbolMapper"

# attribute -> (field of mobj, type)
ATTRS = {
    "_taxon_namespace": ("ns", "onsobj"),
    "taxon_namespace_original_mutability_state": ("orig", "obool"),
    "token_taxon_map": ("token", "dict"),
    "label_taxon_map": ("label", "dict"),
    "number_taxon_map": ("number", "dict"),
    "number_taxon_label_map": ("number_label", "sdict"),
    "enable_lookup_by_taxon_number": ("by_number", "bool"),
}
FOLDED_ATTRS = {"case_sensitive": False}          # self.case_sensitive on every tree route
FOLDED_PARAMS = {"case_sensitive": False}

COQ_TYPES = {"str": "str", "bool": "bool", "taxon": "nat", "otaxon": "option nat", "nsobj": "nsobj", "unit": "unit",
             "nat": "nat"}

# method -> parameter types (bool parameters take their default from the AST), return type
PLAN = [
    ("restore_taxon_namespace_mutability", dict(params=[], ret="unit")),
    ("reset_supplemental_mappings", dict(params=[], ret="unit")),
    ("_set_taxon_namespace", dict(params=[("taxon_namespace", "nsobj")], ret="unit")),
    ("__init__", dict(params=[("taxon_namespace", "nsobj"), ("enable_lookup_by_taxon_number", "bool")],
                      folded=["case_sensitive"], ret="unit")),
    ("add_translate_token", dict(params=[("token", "str"), ("taxon", "taxon")], ret="unit")),
    ("new_taxon", dict(params=[("label", "str")], ret="taxon")),
    ("lookup_taxon_symbol", dict(params=[("symbol", "str"), ("create_taxon_if_not_found", "bool")], ret="otaxon")),
    ("require_taxon_for_symbol", dict(params=[("symbol", "str")], ret="otaxon")),
]


def gname(m):
    return "gm_" + m.strip("_")


class M:
    def __init__(self, name, node, spec, done, kinds):
        self.name, self.node, self.spec, self.done, self.kinds = name, node, spec, done, kinds
        self.types = {p: t for p, t in spec["params"]}
        self.tmp = 0

    def fresh(self):
        self.tmp += 1
        return "r%d__" % self.tmp

    # ------------------------------------------------------------ recognisers
    @staticmethod
    def self_attr(n):
        if isinstance(n, ast.Attribute) and isinstance(n.value, ast.Name) and n.value.id == "self":
            return n.attr
        return None

    def ns_attr(self, n):
        """self._taxon_namespace.<attr> -> attr"""
        if isinstance(n, ast.Attribute) and self.self_attr(n.value) == "_taxon_namespace":
            return n.attr
        return None

    def is_none(self, n):
        return isinstance(n, ast.Constant) and n.value is None

    # ------------------------------------------------------------ expressions
    def expr(self, n, want=None):
        """(text, type) of a side-effect free expression"""
        if isinstance(n, ast.Constant):
            if n.value is None:
                if want in ("onsobj", "obool", "otaxon"):
                    return "None", want
                raise Unsupported("%s: None where %s is expected" % (self.name, want))
            if n.value is True or n.value is False:
                return ("true" if n.value else "false"), "bool"
            if isinstance(n.value, str):
                return coq_str(n.value), "str"
            raise Unsupported("%s: constant %r" % (self.name, n.value))
        if isinstance(n, ast.Name):
            if n.id in FOLDED_PARAMS and n.id in self.spec.get("folded", []):
                return ("true" if FOLDED_PARAMS[n.id] else "false"), "bool"
            if n.id not in self.types:
                raise Unsupported("%s: unknown variable %s" % (self.name, n.id))
            return "v_" + n.id, self.types[n.id]
        a = self.self_attr(n)
        if a is not None:
            if a in FOLDED_ATTRS:
                return ("true" if FOLDED_ATTRS[a] else "false"), "bool"
            if a not in ATTRS:
                raise Unsupported("%s: attribute self.%s" % (self.name, a))
            f, ty = ATTRS[a]
            return "(mo_%s o)" % f, ty
        na = self.ns_attr(n)
        if na == "is_mutable":
            return "(nso_mutable (mo_nso o))", "bool"
        # <loop taxon>.label
        if isinstance(n, ast.Attribute) and n.attr == "label" and isinstance(n.value, ast.Name) \
                and self.types.get(n.value.id) == "looptaxon":
            return "v_%s__label" % n.value.id, "str"
        if isinstance(n, ast.Call):
            f = n.func
            # container.CaseInsensitiveDict() / container.CaseInsensitiveDict(<ns>.label_taxon_map())
            if isinstance(f, ast.Attribute) and f.attr == "CaseInsensitiveDict" and isinstance(f.value, ast.Name) \
                    and f.value.id == "container" and not n.keywords:
                if not n.args:
                    return "d_empty", "cidict"
                if len(n.args) == 1:
                    t, ty = self.expr(n.args[0])
                    if ty == "cidict":
                        return "(cid_copy %s)" % t, "cidict"
                raise Unsupported("%s: CaseInsensitiveDict(..) argument" % self.name)
            # self._taxon_namespace.label_taxon_map()
            if isinstance(f, ast.Attribute) and self.ns_attr(f) == "label_taxon_map" and not n.args and not n.keywords:
                return "(nso_label_taxon_map lower (mo_nso o))", "cidict"
            if isinstance(f, ast.Name) and f.id == "str" and len(n.args) == 1 and not n.keywords:
                t, ty = self.expr(n.args[0])
                if ty == "nat":
                    return "(py_str_nat %s)" % t, "str"
                raise Unsupported("%s: str(%s)" % (self.name, ty))
            if isinstance(f, ast.Name) and f.id == "len" and len(n.args) == 1 and not n.keywords \
                    and self.self_attr(n.args[0]) == "_taxon_namespace":
                return "(length (nso_taxa (mo_nso o)))", "nat"
            raise Unsupported("%s: call %s" % (self.name, ast.dump(n)[:100]))
        if isinstance(n, ast.Dict) and not n.keys:
            return "d_empty", "pydict"
        if isinstance(n, ast.BinOp) and isinstance(n.op, ast.Add) and isinstance(n.right, ast.Constant) \
                and isinstance(n.right.value, int) and n.right.value >= 0:
            t, ty = self.expr(n.left)
            if ty == "nat":
                return "(%s + %d)%%nat" % (t, n.right.value), "nat"
        raise Unsupported("%s: expression %s" % (self.name, ast.dump(n)[:100]))

    def cond(self, n):
        """(text, constant or None)"""
        if isinstance(n, ast.UnaryOp) and isinstance(n.op, ast.Not):
            t, c = self.cond(n.operand)
            if c is not None:
                return ("false" if c else "true"), (not c)
            return "(negb %s)" % t, None
        if isinstance(n, ast.Compare) and len(n.ops) == 1 and isinstance(n.ops[0], (ast.Is, ast.IsNot)) \
                and self.is_none(n.comparators[0]):
            t, ty = self.expr(n.left)
            if ty not in ("onsobj", "obool", "otaxon"):
                raise Unsupported("%s: None test on %s" % (self.name, ty))
            t = "(ob_is_none %s)" % t
            return ("(negb %s)" % t if isinstance(n.ops[0], ast.IsNot) else t), None
        # textprocessing.is_str_type(<a str>)
        if isinstance(n, ast.Call) and isinstance(n.func, ast.Attribute) and n.func.attr == "is_str_type" \
                and isinstance(n.func.value, ast.Name) and n.func.value.id == "textprocessing" and len(n.args) == 1 \
                and not n.keywords:
            _t, ty = self.expr(n.args[0])
            if ty == "str":
                return "true", True
            raise Unsupported("%s: is_str_type(%s)" % (self.name, ty))
        # <namespace parameter>.is_case_sensitive: False on every tree route
        if isinstance(n, ast.Attribute) and n.attr == "is_case_sensitive" and isinstance(n.value, ast.Name) \
                and self.types.get(n.value.id) == "nsobj":
            return "false", False
        t, ty = self.expr(n)
        if ty != "bool":
            raise Unsupported("%s: truth value of %s" % (self.name, ty))
        if t in ("true", "false"):
            return t, t == "true"
        return t, None

    # ------------------------------------------------------------ statements
    def ret(self, val):
        return "Ok (%s, o)" % val

    def method_call(self, call):
        """self.<compiled method>(args) -> (operation text, return type)"""
        m = self.self_attr(call.func)
        if m is None or m not in self.done:
            raise Unsupported("%s: call %s" % (self.name, ast.dump(call.func)[:80]))
        spec = self.done[m]
        args = []
        kws = {k.arg: k.value for k in call.keywords}
        for i, (p, ty) in enumerate(spec["params"]):
            if i < len(call.args):
                node = call.args[i]
            elif p in kws:
                node = kws.pop(p)
            elif p in spec.get("defaults", {}):
                args.append(spec["defaults"][p])
                continue
            else:
                raise Unsupported("%s: argument %s of %s missing" % (self.name, p, m))
            t, aty = self.expr(node)
            if aty != ty:
                raise Unsupported("%s: argument %s of %s has type %s" % (self.name, p, m, aty))
            args.append(t)
        if kws or len(call.args) > len(spec["params"]):
            raise Unsupported("%s: unexpected arguments of %s" % (self.name, m))
        return ("%s o %s" % (gname(m), " ".join(args))).rstrip(), spec["ret"]

    def coerce_ret(self, t, ty):
        want = self.spec["ret"]
        if ty == want:
            return t
        if want == "otaxon" and ty == "taxon":
            return "(Some %s)" % t
        raise Unsupported("%s: returns %s, declared %s" % (self.name, ty, want))

    def set_attr(self, attr, value):
        """text of the object after self.<attr> = value"""
        if attr in FOLDED_ATTRS:
            t, ty = self.expr(value)
            if t != ("true" if FOLDED_ATTRS[attr] else "false"):
                raise Unsupported("%s: self.%s := %s (folded attribute)" % (self.name, attr, t))
            return "o"
        if attr not in ATTRS:
            raise Unsupported("%s: assignment to self.%s" % (self.name, attr))
        f, ty = ATTRS[attr]
        t, vty = self.expr(value, want=ty)
        if ty in ("dict", "sdict"):
            if vty not in ("cidict", "pydict"):
                raise Unsupported("%s: self.%s := %s" % (self.name, attr, vty))
            old = self.kinds.get(attr)
            if old is not None and old != vty:
                raise Unsupported("%s: self.%s changes from %s to %s" % (self.name, attr, old, vty))
            self.kinds[attr] = vty
        elif ty == "onsobj" and vty == "nsobj":
            t = "(Some %s)" % t
        elif ty == "obool" and vty == "bool":
            t = "(Some %s)" % t
        elif vty != ty:
            raise Unsupported("%s: self.%s := %s" % (self.name, attr, vty))
        return "(set_mo_%s o %s)" % (f, t)

    def dict_kind(self, attr):
        if attr not in ATTRS or ATTRS[attr][1] not in ("dict", "sdict"):
            raise Unsupported("%s: subscript of self.%s" % (self.name, attr))
        k = self.kinds.get(attr)
        if k is None:
            raise Unsupported("%s: kind of self.%s unknown (__init__ does not create it)" % (self.name, attr))
        return k

    def simple(self, st):
        """a statement that only updates the object / defines a local: returns the text prefix `let .. in`, or None"""
        if isinstance(st, ast.Expr) and isinstance(st.value, ast.Constant) and isinstance(st.value.value, str):
            return ""
        if isinstance(st, ast.Pass):
            return ""
        if isinstance(st, ast.Assign) and len(st.targets) == 1:
            tg, value = st.targets[0], st.value
            a = self.self_attr(tg)
            if a is not None:
                return "let o := %s in\n" % self.set_attr(a, value)
            # self._taxon_namespace.is_mutable = e
            if self.ns_attr(tg) == "is_mutable":
                t, ty = self.expr(value)
                if ty == "bool":
                    t = "(Some %s)" % t
                elif ty != "obool":
                    raise Unsupported("%s: is_mutable := %s" % (self.name, ty))
                return "let o := mo_set_mutable o %s in\n" % t
            # self.<dict>[k] = v
            if isinstance(tg, ast.Subscript) and self.self_attr(tg.value) is not None:
                attr = self.self_attr(tg.value)
                kind = self.dict_kind(attr)
                k, kty = self.expr(tg.slice)
                v, vty = self.expr(value)
                want = "str" if ATTRS[attr][1] == "sdict" else "taxon"
                if vty == "looptaxon":
                    vty = "taxon"
                if kty != "str" or vty != want:
                    raise Unsupported("%s: self.%s[%s] = %s" % (self.name, attr, kty, vty))
                f = ATTRS[attr][0]
                setter = "cid_set lower" if kind == "cidict" else "d_set"
                return "let o := set_mo_%s o (%s (mo_%s o) %s %s) in\n" % (f, setter, f, k, v)
            # local = <pure>
            if isinstance(tg, ast.Name) and not (isinstance(value, ast.Call) and self.is_effect(value)):
                t, ty = self.expr(value)
                if tg.id in self.types and self.types[tg.id] != ty:
                    raise Unsupported("%s: %s changes type" % (self.name, tg.id))
                self.types[tg.id] = ty
                return "let v_%s := %s in\n" % (tg.id, t)
        # self.<dict>.clear()
        if isinstance(st, ast.Expr) and isinstance(st.value, ast.Call) and isinstance(st.value.func, ast.Attribute) \
                and st.value.func.attr == "clear" and self.self_attr(st.value.func.value) is not None \
                and not st.value.args and not st.value.keywords:
            attr = self.self_attr(st.value.func.value)
            self.dict_kind(attr)
            f = ATTRS[attr][0]
            return "let o := set_mo_%s o (d_clear (mo_%s o)) in\n" % (f, f)
        return None

    def is_effect(self, call):
        f = call.func
        if self.self_attr(f) in self.done:
            return True
        return isinstance(f, ast.Attribute) and self.ns_attr(f) == "new_taxon"

    def block(self, stmts, k):
        """compile a statement list; k() gives the text of what follows when it falls through"""
        if not stmts:
            return k()
        st, rest = stmts[0], stmts[1:]

        def after():
            return self.block(rest, k)
        pre = self.simple(st)
        if pre is not None:
            return pre + after()
        # self.<method>(..)   /   x = self.<method>(..)   /   t = self._taxon_namespace.new_taxon(label)
        call, target = None, None
        if isinstance(st, ast.Expr) and isinstance(st.value, ast.Call):
            call = st.value
        elif isinstance(st, ast.Assign) and len(st.targets) == 1 and isinstance(st.targets[0], ast.Name) \
                and isinstance(st.value, ast.Call):
            call, target = st.value, st.targets[0].id
        if call is not None:
            r = self.fresh()
            if isinstance(call.func, ast.Attribute) and self.ns_attr(call.func) == "new_taxon":
                if len(call.args) != 1 or call.keywords or target is None:
                    raise Unsupported("%s: namespace.new_taxon shape" % self.name)
                t, ty = self.expr(call.args[0])
                if ty != "str":
                    raise Unsupported("%s: new_taxon(%s)" % (self.name, ty))
                self.types[target] = "taxon"
                return ("do %s <- nso_new_taxon (mo_nso o) %s ;; let '(v_%s, n__) := %s in\nlet o := set_mo_ns o (Some n__) in\n%s"
                        % (r, t, target, r, after()))
            op, rty = self.method_call(call)
            if target is not None:
                self.types[target] = rty
            return "do %s <- %s ;; let '(%s, o) := %s in\n%s" % (r, op, "v_" + target if target else "_", r, after())
        if isinstance(st, ast.If):
            t, c = self.cond(st.test)

            def then_rest(branch):
                # a branch that ends in return / raise does not reach what follows the if
                if branch and isinstance(branch[-1], (ast.Return, ast.Raise)):
                    return list(branch)
                return list(branch) + list(rest)
            if c is True:
                return self.block(then_rest(st.body), k)
            if c is False:
                return self.block(then_rest(st.orelse), k)
            saved = dict(self.types)
            b1 = self.block(then_rest(st.body), k)
            self.types = dict(saved)
            b2 = self.block(then_rest(st.orelse), k)
            self.types = saved
            return "if %s then\n%s\nelse\n%s" % (t, b1, b2)
        if isinstance(st, ast.Try):
            # try: return self.<dict>[k]   except KeyError: pass
            ok = len(st.body) == 1 and isinstance(st.body[0], ast.Return) and isinstance(st.body[0].value, ast.Subscript) \
                and len(st.handlers) == 1 and isinstance(st.handlers[0].type, ast.Name) and st.handlers[0].type.id == "KeyError" \
                and st.handlers[0].name is None and len(st.handlers[0].body) == 1 and isinstance(st.handlers[0].body[0], ast.Pass) \
                and not st.orelse and not st.finalbody
            if not ok:
                raise Unsupported("%s: try statement shape" % self.name)
            sub = st.body[0].value
            attr = self.self_attr(sub.value)
            if attr is None:
                raise Unsupported("%s: try: return <subscript>" % self.name)
            kind = self.dict_kind(attr)
            kt, kty = self.expr(sub.slice)
            if kty != "str" or ATTRS[attr][1] != "dict":
                raise Unsupported("%s: self.%s[%s]" % (self.name, attr, kty))
            getter = "cid_get lower" if kind == "cidict" else "d_get"
            x = self.fresh()
            return "match %s (mo_%s o) %s with\n| Some %s => %s\n| None =>\n%s\nend" % (
                getter, ATTRS[attr][0], kt, x, self.ret(self.coerce_ret(x, "taxon")), after())
        if isinstance(st, ast.For):
            # for idx, taxon in enumerate(self._taxon_namespace): <object updates>
            it = st.iter
            ok = isinstance(it, ast.Call) and isinstance(it.func, ast.Name) and it.func.id == "enumerate" and len(it.args) == 1 \
                and not it.keywords and self.self_attr(it.args[0]) == "_taxon_namespace" and not st.orelse \
                and isinstance(st.target, ast.Tuple) and len(st.target.elts) == 2 and all(isinstance(e, ast.Name) for e in st.target.elts)
            if not ok:
                raise Unsupported("%s: for loop shape" % self.name)
            i, x = st.target.elts[0].id, st.target.elts[1].id
            saved = dict(self.types)
            self.types[i] = "nat"
            self.types[x] = "looptaxon"
            body = ""
            for b in st.body:
                pre = self.simple(b)
                if pre is None:
                    raise Unsupported("%s: statement in for body: %s" % (self.name, type(b).__name__))
                body += pre
            self.types = saved
            return ("let o := fold_left (fun (o : mobj) (p__ : nat * str) =>\nlet v_%s := fst p__ in let v_%s := fst p__ in "
                    "let v_%s__label := snd p__ in\n%so) (nso_enumerate (mo_nso o)) o in\n%s" % (i, x, x, body, after()))
        if isinstance(st, ast.Return):
            if rest:
                raise Unsupported("%s: statements after return" % self.name)
            if st.value is None:
                if self.spec["ret"] != "unit":
                    raise Unsupported("%s: bare return" % self.name)
                return self.ret("tt")
            if isinstance(st.value, ast.Call) and self.is_effect(st.value):
                op, rty = self.method_call(st.value)
                r = self.fresh()
                return "do %s <- %s ;; let '(v__, o) := %s in\n%s" % (r, op, r, self.ret(self.coerce_ret("v__", rty)))
            t, ty = self.expr(st.value, want=self.spec["ret"])
            return self.ret(self.coerce_ret(t, ty))
        if isinstance(st, ast.Raise):
            e = st.exc
            if isinstance(e, ast.Call) and isinstance(e.func, ast.Name) and e.func.id == "ValueError":
                return "Err ValueErr"
            raise Unsupported("%s: raise" % self.name)
        raise Unsupported("%s: statement %s" % (self.name, type(st).__name__))

    def compile(self):
        a = self.node.args
        names = [x.arg for x in a.args[1:]]
        want = [p for p, _ in self.spec["params"]] + list(self.spec.get("folded", []))
        if names != want or a.vararg or a.kwarg or a.kwonlyargs:
            raise Unsupported("%s: parameters are %s" % (self.name, names))
        defaults = [None] * (len(names) - len(a.defaults)) + list(a.defaults)
        self.spec["defaults"] = {}
        for nme, d in zip(names, defaults):
            if d is None:
                continue
            if not (isinstance(d, ast.Constant) and d.value in (True, False)):
                raise Unsupported("%s: default of %s" % (self.name, nme))
            if nme in self.spec.get("folded", []):
                if d.value is not FOLDED_PARAMS[nme]:
                    raise Unsupported("%s: default of the folded parameter %s" % (self.name, nme))
                continue
            self.spec["defaults"][nme] = "true" if d.value else "false"

        def fall():
            if self.spec["ret"] != "unit":
                raise Unsupported("%s: falls off the end but returns %s" % (self.name, self.spec["ret"]))
            return self.ret("tt")
        text = self.block(list(self.node.body), fall)
        params = "".join(" (v_%s : %s)" % (p, COQ_TYPES[t]) for p, t in self.spec["params"])
        return "Definition %s (o : mobj)%s : res (%s * mobj) :=\n%s." % (gname(self.name), params, COQ_TYPES[self.spec["ret"]], text)


HEADER = """(* GENERATED by py/dv/gen_routes_mapper.py from the current DendroPy source - do not edit.
   Statement-by-statement translation of class NexusTaxonSymbolMapper over Model/C13MapPrims.v. *)
From Coq Require Import ZArith List Bool.
From Coq Require String. Import String.StringSyntax.
From DV Require Import Model.PyPrims Model.C13Model Model.C13MapPrims.
Import ListNotations.

Section RoutesMapper.
Variable lower : str -> str.
"""


def generate(repo):
    with open(os.path.join(repo, FILE)) as f:
        tree = ast.parse(f.read())
    cls = next((n for n in tree.body if isinstance(n, ast.ClassDef) and n.name == CLASS), None)
    if cls is None:
        raise Unsupported("class %s not found" % CLASS)
    fns = {f.name: f for f in cls.body if isinstance(f, ast.FunctionDef)}
    # instance level or class level?  This translation gives every mapper object its own record of table contents:
    # that is the meaning of `self.a` only for attributes that __init__ binds (self.a = <new container>) before any
    # use.  A table bound in the CLASS BODY and not rebound by __init__ is ONE object shared by every instance:
    # not expressible here - fail closed (Gen/RoutesMapperObj.v, the object-level translation, emits the shared store)
    if "__init__" in fns:
        from dv import gen_routes_mapper_obj as obj_level
        resolve, level, _bound = obj_level.classify(cls, fns)
        shared = sorted(a for a, r in resolve.items() if r == "class")
        if shared:
            raise Unsupported("class-level container(s) %s (class body line %s) are shared by every %s instance: the value-level "
                              "translation (one record per object) does not apply" % (shared, [level[a] for a in shared], CLASS))
    # the dict kinds are fixed by __init__: compile it first for its constructor expressions, emit in PLAN order
    kinds = {}
    specs = {name: dict(spec) for name, spec in PLAN}
    if "__init__" not in fns:
        raise Unsupported("__init__ not found")
    scan = M("__init__", fns["__init__"], dict(specs["__init__"]),
             {n: specs[n] for n in ("restore_taxon_namespace_mutability", "reset_supplemental_mappings", "_set_taxon_namespace")},
             kinds)
    scan.done = {n: dict(specs[n], defaults={}) for n in scan.done}
    scan.compile()
    out = [HEADER]
    done = {}
    for name, _ in PLAN:
        if name not in fns:
            raise Unsupported("method %s not found" % name)
        m = M(name, fns[name], specs[name], dict(done), kinds)
        out.append("(* %s.%s  (%s) *)\n%s" % (CLASS, name, FILE, m.compile()))
        done[name] = specs[name]
    out.append("End RoutesMapper.\n")
    return "\n\n".join(out)


if __name__ == "__main__":
    import sys
    print(generate(sys.argv[1] if len(sys.argv) > 1 else "/repo"))
