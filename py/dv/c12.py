"""C12 - copies are equal to their source and independent of it at the documented depth.

case   = JSON spec of a decorated datamodel object (tree / tree list / character matrix / namespace),
         a copy route and one later mutation on either side.
observe= build the object with the real library, dump its reachable object graph (the model's heap),
         copy it by the route, dump the joint graph, mutate one side, dump again.
model  = coq/Model/C12Model.v runs its `copy.deepcopy` (with the overrides of the library) on the dumped
         source graph and must produce a graph isomorphic to the implementation's copy with exactly
         the same sharing; the objects written by the later mutation must lie outside the other
         side's reachable set (hypothesis of the frame theorem).
oracle = naive and independent of the model: reachable-id sets of source and copy intersect only in
         what the documented depth allows; observable content equal; after the mutation the other
         side's dump is unchanged; bound annotations on the copy are bound to the copy.
"""
import json
import random
import time

from dv import core
from dv import trees as T
from dv import c12_graph as G
from dv import c12_build as B
from dv import c12_alias as A

HEADER = "From DV Require Import Model.PyPrims Model.C12Model Model.C12Spec2.\nFrom Coq Require Import ZArith. Open Scope Z_scope."

MAX_NODES = 60


# ----------------------------------------------------------------------------------------------
# generator
# ----------------------------------------------------------------------------------------------

def _gen_val(rng, targets, depth=0):
    k = rng.random()
    if k < 0.22:
        return ["int", rng.randrange(100)]
    if k < 0.40:
        return ["str", rng.choice(["x", "y", "hello", "", "A b"])]
    if k < 0.52:
        return ["float", rng.randrange(-2048, 4096)]
    if k < 0.58:
        return ["none", None]
    if k < 0.62:
        return ["bool", rng.random() < 0.5]
    if depth < 2 and k < 0.76:
        # (a sequence whose FIRST element is an object is the shape of a bound annotation's value:
        # not generated as a plain value)
        return ["list", [_gen_val(rng, targets if i else [], depth + 1) for i in range(rng.randint(0, 3))]]
    if depth < 2 and k < 0.84:
        return ["dict", [["k%d" % i, _gen_val(rng, targets, depth + 1)] for i in range(rng.randint(0, 2))]]
    if depth < 2 and k < 0.90:
        return ["tuple", [_gen_val(rng, targets if i else [], depth + 1) for i in range(rng.randint(0, 3))]]
    if targets:
        return ["ref", rng.choice(targets)]
    return ["int", 7]


def _targets(case, rng, n=8):
    """addresses of annotable objects inside the case's root"""
    out = [["root"]]
    kind = case["type"]
    nn = case["ns"]["n"]
    if nn:
        out.append(["taxon", rng.randrange(nn)])
    out.append(["ns"])
    if kind in ("tree", "treelist"):
        for ti, ts in enumerate(case["trees"]):
            cnt = len(T.preorder(ts["spec"]))
            out.append(["tree", ti])
            for _ in range(3):
                i = rng.randrange(cnt)
                out.append(["node", ti, i])
                out.append(["edge", ti, i])
    elif kind != "ns":
        for k in range(len(case["seqs"])):
            out.append(["seq", k])
    return out


def _directed_pairs(case):
    """wave 7: (holder, owner) address pairs for attribute-bound annotations given an owner_instance= that is NOT the
    annotated object, chosen so that the owner is copied EARLIER or LATER than the holder by the traversal of
    copy.deepcopy: siblings in both orders, trees of a list in both orders, a taxon and a node, the root and a member"""
    out = []
    kind = case["type"]
    nn = case["ns"]["n"]
    if kind in ("tree", "treelist"):
        for ti, ts in enumerate(case["trees"]):
            pre = T.preorder(ts["spec"])
            idx = {id(n): i for i, n in enumerate(pre)}
            for n in pre:
                ks = [idx[id(k)] for k in n["kids"]]
                for a in ks:
                    for b in ks:
                        if a != b:
                            out.append((["node", ti, a], ["node", ti, b]))
                            out.append((["edge", ti, a], ["node", ti, b]))
                            out.append((["node", ti, a], ["edge", ti, b]))
            for i, n in enumerate(pre):
                if n["taxon"] is not None and nn:
                    out.append((["taxon", n["taxon"] % nn], ["node", ti, i]))
            for tj in range(len(case["trees"])):
                if tj != ti:
                    out.append((["tree", ti], ["tree", tj]))
                    out.append((["node", ti, 0], ["tree", tj]))
            if kind == "treelist":
                out.append((["root"], ["tree", ti]))
                out.append((["tree", ti], ["root"]))
    elif kind != "ns":
        for a in range(len(case["seqs"])):
            out.append((["root"], ["seq", a]))
            out.append((["taxon", case["seqs"][a][0]], ["seq", a]))
            for b in range(len(case["seqs"])):
                if a != b:
                    out.append((["seq", a], ["seq", b]))
    else:
        for a in range(nn):
            out.append((["taxon", a], ["ns"]))
            for b in range(nn):
                if a != b:
                    out.append((["taxon", a], ["taxon", b]))
    return out


def gen_case(rng, big=False):
    kind = rng.choices(["tree", "treelist", "dna", "standard", "continuous", "ns"], [45, 14, 9, 8, 7, 12])[0]
    case = {"type": kind, "deco": [], "label": rng.choice([None, None, "L1", "my data"])}
    if kind in ("tree", "treelist"):
        ntrees = 1 if kind == "tree" else rng.randint(0, 3)
        nl = rng.choice([1, 2, 3, 3, 4, 4, 5, 6, 8]) if not big else rng.randint(9, 28)
        extra = rng.choice([0, 0, 1, 2])
        case["ns"] = {"n": nl + extra, "label": rng.choice([None, "taxa"])}
        case["trees"] = []
        for _ in range(ntrees):
            k = rng.randint(1, nl)
            taxa = rng.sample(range(nl + extra), k)
            spec = T.gen_tree(rng, k, lengths=rng.choice(["mixed", "dyadic", "none", "positive"]),
                              unifurcations=rng.choice([0.0, 0.0, 0.15]), taxa=taxa,
                              internal_labels=rng.choice([0.0, 0.5]))
            if len(T.preorder(spec)) > MAX_NODES:
                spec = T.gen_tree(rng, 3, taxa=taxa[:3] if len(taxa) >= 3 else None)
            case["trees"].append({"spec": spec, "rooted": rng.choice([None, True, False]),
                                  "label": rng.choice([None, "tr"]), "weight": rng.choice([None, None, 1024, 512])})
    elif kind == "ns":
        case["ns"] = {"n": rng.randint(0, 5), "label": rng.choice([None, "taxa"])}
    else:
        nt = rng.randint(1, 4)
        nch = rng.randint(1, 5)
        case["ns"] = {"n": nt + rng.choice([0, 1]), "label": rng.choice([None, "taxa"])}
        seqs = []
        for k in rng.sample(range(case["ns"]["n"]), nt):
            if kind == "dna":
                seqs.append([k, "".join(rng.choice("ACGT-") for _ in range(nch))])
            elif kind == "standard":
                seqs.append([k, "".join(rng.choice("01") for _ in range(nch))])
            else:
                seqs.append([k, [rng.randrange(-1024, 4096) for _ in range(nch)]])
        case["seqs"] = seqs
    # a namespace with a history (sorted / reversed / a non-final taxon removed after accession)
    if rng.random() < 0.3:
        hist = []
        for _ in range(rng.choice([1, 1, 2])):
            hist.append(rng.choice([["sort_rev"], ["reverse"], ["remove", rng.randrange(8)]]))
        case["ns"]["history"] = hist
    # decorations
    tg = _targets(case, rng)
    deco = []
    for _ in range(rng.choice([0, 1, 2, 3, 4, 6])):
        k = rng.random()
        t = rng.choice(tg)
        if k < 0.30:
            deco.append(["ann", t, rng.choice(["a", "b", "color"]), _gen_val(rng, tg)])
        elif k < 0.45:
            deco.append(["bound", t, rng.choice(["popsize", "zz"]), _gen_val(rng, [])])
        elif k < 0.50:
            deco.append(["bound_other", t, rng.choice(tg), "shared_attr", _gen_val(rng, [])])
        elif k < 0.60:
            if t[0] != "ann":
                deco.append(["comment", t, rng.choice(["c1", "a comment"])])
        elif k < 0.75:
            deco.append(["extra", t, rng.choice(["xa", "xb"]), _gen_val(rng, tg)])
        elif k < 0.80:
            deco.append(["touch_ann", t])
        elif k < 0.84:
            deco.append(["clear_ann", t])
        elif k < 0.90:
            deco.append(["label", t, rng.choice(["lab", "Lab 2", None])])
        else:
            # annotation on an annotation (needs an existing one)
            prev = [d for d in deco if d[0] in ("ann", "bound")]
            if prev:
                d = rng.choice(prev)
                deco.append(["ann", ["ann", d[1], 0], "sub", _gen_val(rng, [])])
    # wave 7: an attribute-bound annotation whose owner_instance is another object of the structure
    if rng.random() < 0.3:
        pairs = _directed_pairs(case)
        for _ in range(rng.choice([1, 1, 2]) if pairs else 0):
            holder, owner = rng.choice(pairs)
            deco.append(["bound_other", holder, owner, rng.choice(["shared_attr", "zz"]), _gen_val(rng, [])])
    if kind in ("tree", "treelist"):
        for ti in range(len(case["trees"])):
            if rng.random() < (0.7 if case["ns"].get("history") else 0.4):
                # [.., bipartition_edge_map built?, bipartitions left mutable?]  (default encoding: frozen)
                deco.append(["encode", ti, rng.random() < 0.5, rng.random() < 0.3])
    elif kind != "ns":
        if rng.random() < 0.4:
            deco.append(["subset", rng.choice(["Codon1", "s2"]), sorted(rng.sample(range(6), rng.randint(0, 3)))])
        if rng.random() < 0.25:
            deco.append(["chartypes"])
        if rng.random() < 0.12:
            deco.append(["cell_ann", rng.randrange(4), rng.randrange(5), "cell", ["int", 1]])
    case["deco"] = deco
    routes = list(B.ROUTES) if kind == "tree" else [r for r in B.ROUTES if not r.startswith("extract")]
    case["route"] = rng.choice(routes)
    case["via_ctor"] = (kind != "ns") and rng.random() < 0.07
    case["mut"] = {"side": rng.choice(["src", "copy"]), "op": gen_mut(rng, case, tg)}
    # wave 7: a second step, on the OTHER side (both objects are re-observed after every step)
    if rng.random() < 0.5:
        case["mut2"] = {"op": gen_mut(rng, case, tg)}
    return case


def gen_mut(rng, case, tg):
    kind = case["type"]
    nn = max(1, case["ns"]["n"])
    gen = []
    annotated = [d[1] for d in case["deco"] if d[0] in ("ann", "bound", "bound_other")]
    bound = [d for d in case["deco"] if d[0] == "bound"]
    extras = [d for d in case["deco"] if d[0] == "extra"]
    t = rng.choice(tg)
    common = [
        (3, lambda: ["set_label", rng.choice([x for x in tg if x[0] not in ("edge",)] or [["root"]]), "newlabel"]),
        (3, lambda: ["taxon_label", rng.randrange(nn), "renamed"]),
        (4, lambda: ["ann_add", t, "later", _gen_val(rng, [])]),
        (2, lambda: ["comment_add", t, "later comment"]),
        (2, lambda: ["setattr", t, "xa", ["int", 12345]]),
        (1, lambda: ["ns_new_taxon", "brandnew"]),
        (1, lambda: ["ns_remove_taxon", rng.randrange(nn)]),
        (1, lambda: ["ns_sort"]),
    ]
    if annotated:
        a = rng.choice(annotated)
        common += [(5, lambda: ["ann_value", a, 0, _gen_val(rng, [])]),
                   (5, lambda: ["ann_inplace", a, rng.randrange(3)]),
                   (2, lambda: ["ann_drop", a, 0]),
                   (2, lambda: ["ann_of_ann", a, 0])]
    if bound:
        b = rng.choice(bound)
        common += [(8, lambda: ["setattr", b[1], b[2], ["int", 4242]])]
    foreign = [d for d in case["deco"] if d[0] == "bound_other"]
    if foreign:
        # the attribute a foreign-owner annotation is bound to, on the owner
        fo = rng.choice(foreign)
        common += [(10, lambda: ["setattr", fo[2], fo[3], ["int", 5151]])]
    if extras:
        e = rng.choice(extras)
        common += [(5, lambda: ["extra_inplace", e[1], e[2]])]
    if kind in ("tree", "treelist") and case["trees"]:
        ti = rng.randrange(len(case["trees"]))
        cnt = len(T.preorder(case["trees"][ti]["spec"]))
        i = rng.randrange(cnt)
        common += [(6, lambda: ["set_len", ti, i, rng.randrange(0, 8192)]),
                   (4, lambda: ["prune", ti, i]), (4, lambda: ["reroot", ti, i]),
                   (3, lambda: ["new_child", ti, i]), (3, lambda: ["collapse", ti, i]),
                   (2, lambda: ["swap_children", ti, i]), (5, lambda: ["encode", ti]),
                   (2, lambda: ["rooting", ti, rng.choice([True, False, None])]),
                   (2, lambda: ["retaxon", ti, i, rng.randrange(nn)])]
        # wave 7: in-place edits of bipartition data (no re-encoding), mostly on trees that carry an encoding
        w = 6 if any(d[0] == "encode" and d[1] == ti for d in case["deco"]) else 1
        common += [(w, lambda: ["bip_split", ti, i, rng.randrange(1, 64)]),
                   (w, lambda: ["bip_leafset", ti, i, rng.randrange(1, 64)]),
                   (w, lambda: ["bip_unfreeze", ti, i, rng.randrange(1, 64)]),
                   ((w + 1) // 2, lambda: ["enc_inplace", ti])]
    if kind == "treelist":
        common += [(3, lambda: ["tl_append"]), (2, lambda: ["tl_reverse"])]
        if case["trees"]:
            common += [(2, lambda: ["tl_pop"])]
    if kind in ("dna", "standard", "continuous"):
        k = rng.randrange(len(case["seqs"]))
        common += [(10, lambda: ["cell", k, rng.randrange(5), rng.randrange(0, 4096)]),
                   (3, lambda: ["seq_append", k]), (3, lambda: ["del_seq", k]),
                   (3, lambda: ["subset_add", "later", [0]])]
        if any(d[0] == "subset" for d in case["deco"]):
            common += [(4, lambda: ["subset_inplace", 0])]
    ws = [w for w, _ in common]
    return rng.choices([f for _, f in common], ws)[0]()


# ----------------------------------------------------------------------------------------------
# observation
# ----------------------------------------------------------------------------------------------

def observe(case):
    kind, route = case["type"], case["route"]
    root = B.build(case)
    if case.get("via_ctor"):
        # the source is itself a copy-constructed object
        try:
            root = type(root)(root)
        except Exception as e:
            return {"copy": ["Err", core.exc_enum(e), "%s: %s" % (type(e).__name__, str(e)[:160])],
                    "while": "copy-constructing the source"}
    D = G.Dumper()
    skip = ("extraction_source",) if route in ("extract", "extract_keep") else ()
    obs = {}
    # The graph dump (the model's heap) may refuse an object shape it does not know (G.Unsupported).  That is
    # recorded (and is an obligation of the run: it never happens on the library as modelled) but NOT the end of the
    # observation: the naive identity-level observation (c12_alias) and the content summary go on regardless.
    graph = True

    def no_graph(why):
        obs["unsupported"] = why
        for k in ("h0", "h1new", "n0", "n1", "root_oid", "ns_oid", "kinds0"):
            obs.pop(k, None)
        return False

    try:
        h0, (r0,) = D.dump([root])
    except G.Unsupported as e:
        graph = no_graph(str(e))
    if graph:
        n0 = len(D.keep)
        D.n0 = n0
        assert sorted(h0) == list(range(n0))
        obs["n0"] = n0
        obs["root_oid"] = r0[1]
        obs["ns_oid"] = D.known(B.namespace_of(root))
        obs["h0"] = _pack(h0)
        obs["kinds0"] = _census(h0)
        obs["dispatch"] = _dispatch_seen(D)
    sum0 = B.summary(root)
    W0 = A.Walk([root], (), ["source"])
    snap0 = A.snapshot(W0)
    try:
        with core.alarm(20):
            cp = B.do_copy(root, route)
    except Exception as e:
        obs["copy"] = ["Err", core.exc_enum(e), "%s: %s" % (type(e).__name__, str(e)[:160])]
        return obs
    if cp is None:
        obs["copy"] = ["Err", "ReturnedNone", "the copy route returned None"]
        return obs
    shared_objs = B.allowed_shared(root, kind, route)
    depth = B.depth_of(kind, route)
    # ---- naive identity-level observation (independent of the dumper)
    NP = A.Pair(root, cp, shared_objs, skip)
    obs["nshared"] = NP.shared_report()
    obs["nshared_cls"] = NP.shared_classes()
    obs["nshared_empty"] = NP.shared_empty()
    obs["nshared_n"] = len(NP.shared)
    obs["nsrc_untouched"] = (A.snapshot(W0) == snap0)
    if graph:
        try:
            h1, vals = D.dump([root, cp] + shared_objs, skip_attrs=skip)
        except G.Unsupported as e:
            graph = no_graph("copy: " + str(e))
    if graph:
        r1, rc = vals[0], vals[1]
        svals = vals[2:]
        n1 = len(D.keep)
        obs["copy"] = ["Ok", rc]
        obs["n1"] = n1
        obs["h1new"] = _pack({i: o for i, o in h1.items() if i >= n0})
        obs["src_untouched_by_copy"] = all(h1[i] == h0[i] for i in h0 if i in h1) and G.canonical(h0, r0) == G.canonical(h1, r1)
        # sharing (naive sets)
        reach_src = G.reach_ids(h1, [r1])
        reach_cp = G.reach_ids(h1, [rc])
        reach_sh = G.reach_ids(h1, svals)
        atom = set(i for i, o in h1.items() if o["kind"] == "atomic")
        obs["shared_unexpected"] = sorted((reach_src & reach_cp) - reach_sh - atom - _tuples(h1))[:12]
        obs["shared_unexpected_cls"] = sorted(set(h1[i]["cls"] for i in obs["shared_unexpected"]))
        seeds = set(v[1] for v in svals)
        obs["seeds"] = sorted(seeds)
        obs["seeds_missing_from_copy"] = sorted(i for i in seeds if i in reach_src and i not in reach_cp)[:12]
        obs["n_shared"] = len(reach_src & reach_cp)
        # copy constructors: an object other than the copy that owns the copy's attribute dictionary
        obs["twin"] = any(getattr(D.keep[i], "__dict__", None) is cp.__dict__ and D.keep[i] is not cp
                          for i in reach_cp if i < len(D.keep) and not isinstance(D.keep[i], list))
        obs["dispatch"] = _dispatch_seen(D)
    else:
        obs["copy"] = ["Ok", None]
        obs["twin"] = any(getattr(x, "__dict__", None) is cp.__dict__ and x is not cp
                          for x in NP.cpw.objs.values() if not isinstance(x, list))
        obs["seeds_missing_from_copy"] = []
    obs["is_same_object"] = cp is root
    # content
    thin = depth == "thin"
    shallow = depth == "shallow"
    sumS = B.summary(root, thin=thin, shallow=shallow)
    sumC = B.summary(cp, thin=thin, shallow=shallow)
    same_ns = B.namespace_of(cp) is B.namespace_of(root)
    obs["same_ns"] = same_ns
    if same_ns and kind != "ns":
        # one and the same namespace object: nothing to compare (and what its annotations refer to
        # is named relative to the source)
        sumS.pop("ns", None)
        sumC.pop("ns", None)
    obs["members_same"] = _members_same(root, cp) if shallow else None
    obs["ns_index"] = B.ns_index_report(root, cp)
    obs["summary_src_unchanged"] = (B.summary(root) == sum0)
    obs["summary_equal"] = (sumS == sumC)
    if sumS != sumC:
        obs["summary_diff"] = _first_diff(sumS, sumC)
    # bound annotations / annotation targets on the copy
    if depth == "shallow":
        obs["bound"] = _bound_report(root, cp, depth)[:8]
        obs["bound_shallow"] = _owner_report(root, cp, depth)[:4]
    else:
        obs["bound"] = (_bound_report(root, cp, depth) + _owner_report(root, cp, depth))[:8]
    # ---- later steps: one on `side`, optionally a second one on the other side; after EVERY step the side that was
    # not operated on is re-observed (graph dump, naive fingerprints of every object of its region, summary)
    side = case["mut"]["side"]
    steps = [(side, case["mut"]["op"])]
    if case.get("mut2"):
        steps.append(("copy" if side == "src" else "src", case["mut2"]["op"]))
    obs["steps"] = []
    for sn, (sd, op) in enumerate(steps):
        mroot, oroot = (root, cp) if sd == "src" else (cp, root)
        oside = "copy" if sd == "src" else "src"
        st = {"side": sd, "op": op}
        nbefore = NP.snap(oside)
        nshared_before = {i: A.fingerprint(x) for i, x in NP.allowed.objs.items() if i not in NP.allowed.opaque}
        before_sum = B.summary(oroot, thin=False, shallow=shallow)
        if sn == 0 and graph:
            oval = rc if sd == "src" else r1
            stop = reach_sh | atom
            obs["other_val"] = oval
            before = G.canonical(h1, oval, stop=stop)
        try:
            with core.alarm(20):
                B.apply_mut(mroot, op)
            st["mut"] = "done"
        except Exception as e:
            st["mut"] = "failed:%s" % type(e).__name__
        if sn == 0:
            obs["mut"] = st["mut"]
        st["changed_other"] = NP.changed(oside, nbefore)[:6]
        st["shared_written"] = any(A.fingerprint(NP.allowed.objs[i]) != fp for i, fp in nshared_before.items())
        after_sum = B.summary(oroot, thin=False, shallow=shallow)
        st["other_summary_unchanged"] = (before_sum == after_sum)
        if before_sum != after_sum:
            st["other_summary_diff"] = _first_diff(before_sum, after_sum)
        obs["steps"].append(st)
        if sn == 0:
            obs["other_summary_unchanged"] = st["other_summary_unchanged"]
            if "other_summary_diff" in st:
                obs["other_summary_diff"] = st["other_summary_diff"]
        if sn == 0 and graph:
            try:
                h2, vals2 = D.dump([root, cp] + shared_objs, skip_attrs=skip)
            except G.Unsupported as e:
                obs["mut"] = "unsupported-after"
                obs["unsupported_after"] = str(e)
                graph = False
                continue
            oval2 = vals2[1] if sd == "src" else vals2[0]
            after = G.canonical(h2, oval2, stop=stop)
            obs["other_graph_unchanged"] = (before == after)
            written = sorted(i for i in h1 if i in h2 and h1[i] != h2[i])
            obs["written"] = written
            obs["written_shared"] = bool(set(written) & reach_sh)
            obs["written_in_other"] = sorted(set(written) & (G.reach_ids(h1, [oval]) - stop))[:12]
    return obs


def _dispatch_seen(D):
    """class name -> [kind the dumper derived from the class at run time, qualified name of the __deepcopy__ it resolved]
    for every class of a numbered object (compared with the table the translator extracts from the source)"""
    out = {}
    for x in D.keep:
        if isinstance(x, list) and len(x) == 2 and x[0] == "tuple-occurrence":
            continue
        t = type(x)
        if t in (list, dict, set, frozenset, tuple) or t.__name__ in out:
            continue
        try:
            k = G.kind_of(x)
        except G.Unsupported:
            continue
        dc = getattr(t, "__deepcopy__", None)
        out[t.__name__] = [k, getattr(dc, "__qualname__", None)]
    return out


# The clause on foreign owners for the SHALLOW routes (copy.copy / clone(0) of TreeList / CharacterMatrix: an annotation of
# the container bound to an attribute of a MEMBER ends up bound to a private deep copy of the member).  The unchanged
# library does this; proposed to the orchestrator as finding shallow-copy-foreign-owner-annotation-follows-hidden-clone.
# Off (only counted) until the key is listed.
SHALLOW_OWNER_CLAUSE = True


def _owner_report(root, cp, depth):
    """wave 7: attribute-bound annotations given an owner_instance= other than the annotated object.  For every
    annotable part of the source and every bound annotation on it whose owner is ANOTHER part of the source: the
    corresponding annotation of the copy is bound to the part of the COPY at the same position (which is the very
    same object only where the documented depth shares it, i.e. when the part at that position is shared)."""
    bad = []
    if depth not in ("deep", "scoped", "shallow"):
        return bad
    src = _annotables(root)
    cpl = dict(_annotables(cp))
    pos_of = {}
    for p, o in src:
        pos_of.setdefault(id(o), p)
    for pos, s in src:
        o = cpl.get(pos)
        if o is None or o is s or not hasattr(s, "_annotations") or not hasattr(o, "_annotations"):
            continue
        for a_s, a_c in zip(s._annotations, o._annotations):
            if not (a_s.is_attribute and a_c.is_attribute):
                continue
            own_s = a_s._value[0]
            if own_s is s:
                continue            # bound to the annotated object itself: _bound_report
            p = pos_of.get(id(own_s))
            want = cpl.get(p) if p is not None else None
            if want is None:
                continue
            got = a_c._value[0]
            if got is not want:
                rel = "still-the-source-object" if got is own_s else "a-third-object"
                bad.append([pos, "foreign-owner:%s:%s:%s->%s" % (a_c._value[1], rel, _pos_kind(pos), _pos_kind(p))])
    return bad


def _pos_kind(p):
    return p.rstrip("0123456789.")


def _members_same(root, cp):
    """shallow copies: the members of the copy are the members of the source, in the same order"""
    import dendropy
    if isinstance(root, dendropy.TaxonNamespace):
        a, b = root._taxa, cp._taxa
    elif isinstance(root, dendropy.TreeList):
        a, b = root._trees, cp._trees
    else:
        a = [x for kv in root._taxon_sequence_map.items() for x in kv]
        b = [x for kv in cp._taxon_sequence_map.items() for x in kv]
    return len(a) == len(b) and all(x is y for x, y in zip(a, b))


def _tuples(h):
    return set(i for i, o in h.items() if o["kind"] == "tuple")


def _census(h):
    c = {}
    for o in h.values():
        c[o["kind"]] = c.get(o["kind"], 0) + 1
    return c


def _pack(h):
    """heap -> compact list [[oid, cls, kind, [[a,b]..]]] with a,b = ints: prim p -> -(p+1), ref o -> o"""
    out = []
    for i in sorted(h):
        o = h[i]
        out.append([i, o["cls"], o["kind"], [[_pv(a), _pv(b)] for a, b in o["body"]]])
    return out


def _pv(v):
    return v[1] if v[0] == "R" else -(v[1] + 1)


def _first_diff(a, b, path=""):
    if type(a) != type(b):
        return "%s: %r vs %r" % (path, a, b)
    if isinstance(a, dict):
        for k in sorted(set(a) | set(b)):
            if a.get(k) != b.get(k):
                return _first_diff(a.get(k), b.get(k), path + "/" + str(k))
    if isinstance(a, list):
        if len(a) != len(b):
            return "%s: length %d vs %d: %s | %s" % (path, len(a), len(b), str(a)[:80], str(b)[:80])
        for i, (x, y) in enumerate(zip(a, b)):
            if x != y:
                return _first_diff(x, y, path + "[%d]" % i)
    return "%s: %s vs %s" % (path, str(a)[:80], str(b)[:80])


def _annotables(root):
    """(position name, object) of every annotable part of a datamodel object"""
    out = [("root", root)]
    import dendropy
    ns = B.namespace_of(root)
    if ns is not root:
        out.append(("ns", ns))
    for i, t in enumerate(ns._taxa):
        out.append(("taxon%d" % i, t))
    for ti, t in enumerate(B.trees_of(root)):
        if t is not root:
            out.append(("tree%d" % ti, t))
        for i, nd in enumerate(t.preorder_node_iter()):
            out.append(("node%d.%d" % (ti, i), nd))
            out.append(("edge%d.%d" % (ti, i), nd.edge))
    if hasattr(root, "_taxon_sequence_map"):
        for i, s in enumerate(root._taxon_sequence_map.values()):
            out.append(("seq%d" % i, s))
    return out


def _bound_report(root, cp, depth):
    """For every annotable part of the copy: is `annotations.target` that part, and does every
    attribute-bound annotation whose source was bound to the source part point at the copy's part."""
    bad = []
    if depth in ("thin", "self"):
        return bad
    src = dict(_annotables(root))
    for pos, o in _annotables(cp):
        s = src.get(pos)
        if s is None or o is s or not hasattr(o, "_annotations"):
            continue
        if o._annotations.target is not o:
            bad.append([pos, "target"])
        if not hasattr(s, "_annotations"):
            continue
        for a_s, a_c in zip(s._annotations, o._annotations):
            if a_s.is_attribute and a_c.is_attribute and a_s._value[0] is s and a_c._value[0] is not o:
                bad.append([pos, "bound:" + str(a_c._value[1])])
    return bad[:8]


# ----------------------------------------------------------------------------------------------
# oracle (naive statement of the property on the implementation's observation)
# ----------------------------------------------------------------------------------------------

def oracle(case, obs):
    kind, route = case["type"], case["route"]
    if "copy" not in obs:
        return None
    # (a graph dump the model could not take - obs["unsupported"] - does not stop the oracle: every clause below is
    # stated on the naive observations when the dump is missing)
    tag = "%s/%s" % (kind, route)
    depth = B.depth_of(kind, route)
    cp = obs["copy"]
    if cp[0] == "Err":
        if route == "clone0" and kind == "ns" and False:
            return None
        if True:
            what = "%s of a %s raised %s" % (route, kind, cp[2])
            return (what, _err_key(case, cp))
    if not obs.get("src_untouched_by_copy", True) or not obs["summary_src_unchanged"] or not obs.get("nsrc_untouched", True):
        return ("%s: copying changed the source object" % tag, "copy-mutates-source:%s" % tag)
    if depth == "self":
        if not obs["is_same_object"]:
            return ("%s: taxon-namespace-scoped copy of a namespace is not the namespace itself" % tag, "ns-scoped-not-self")
        return None
    if obs.get("shared_unexpected"):
        return ("%s (documented depth: %s): source and copy share mutable objects they must not share: classes %s (oids %s; "
                "from the copy: %s)" % (tag, depth, obs["shared_unexpected_cls"], obs["shared_unexpected"],
                                        [e[1] for e in obs.get("nshared", [])][:4]),
                "shares:%s:%s:%s" % (kind, _route_class(route), "+".join(obs["shared_unexpected_cls"])[:60]))
    if obs.get("nshared"):
        # the naive identity walk (no knowledge of classes; EMPTY containers are objects like any other)
        return ("%s (documented depth: %s): the copy holds %d mutable object(s) of the source that the documented depth does "
                "not share (%d of them empty containers): %s"
                % (tag, depth, obs["nshared_n"], obs["nshared_empty"],
                   "; ".join("%s at %s (source: %s)" % tuple(e) for e in obs["nshared"][:4])),
                "shares:%s:%s:%s" % (kind, _route_class(route), "+".join(obs["nshared_cls"])[:60]))
    if obs["seeds_missing_from_copy"] and depth != "deep":
        return ("%s: the copy does not reference the source's namespace/taxa/members it is documented to share (oids %s)"
                % (tag, obs["seeds_missing_from_copy"]), "not-sharing-namespace:%s:%s" % (kind, _route_class(route)))
    if obs.get("ns_index"):
        return ("%s: the copy's namespace does not give the copied taxa the accession indices / bitmasks they have in the "
                "source's namespace (bipartition bitmasks carried over to the copy name other taxa): %s"
                % (tag, "; ".join(obs["ns_index"][:3])), "copied-namespace-taxon-bit-assignment:%s" % _route_class(route))
    if depth == "shallow" and not obs["members_same"]:
        return ("%s: the members of the shallow copy are not the members of the source" % tag, "shallow-members:%s" % kind)
    if obs["twin"] and (obs["bound"] or not obs["summary_equal"]):
        return ("%s: the copy's annotations (AnnotationSet.target, owners of attribute-bound annotations, references to the "
                "source object) point at a hidden second object that shares the copy's __dict__, not at the copy: %s %s"
                % (tag, obs["bound"], obs.get("summary_diff", "")), "ctor-copy-hidden-twin")
    if depth == "shallow" and not obs["summary_equal"] and ("reading-value-raises" in obs.get("summary_diff", "")
                                                               or "'method'" in obs.get("summary_diff", "")):
        return ("%s: an attribute-bound annotation of the shallow copy is bound to an attribute the copy does not have: %s"
                % (tag, obs["summary_diff"]), "shallow-copy-bound-annotation-dangling")
    if depth == "thin" and route != "extract_keep" and not obs["summary_equal"] and _has_unifurcation(case):
        return ("%s: extract_tree() without a filter removed outdegree-1 nodes (documented: only when nodes are excluded): %s"
                % (tag, obs["summary_diff"]), "extract-tree-unfiltered-suppresses-unifurcations")
    if (depth == "shallow" and kind in ("dna", "standard", "continuous") and not obs["summary_equal"]
            and obs.get("summary_diff", "").split(":")[0] in ("/subsets", "/chartypes")):
        return ("%s: the shallow copy of a character matrix drops character_subsets / character_types (documented: "
                "all member objects are references): %s" % (tag, obs["summary_diff"]),
                "shallow-matrix-copy-drops-character-subsets-and-types")
    if kind == "standard" and not obs["summary_equal"] and obs.get("summary_diff", "").startswith("/alphabet"):
        return ("%s: the copy of a StandardCharacterMatrix has a different state alphabet than the one its cells belong to: %s"
                % (tag, obs["summary_diff"]), "standard-matrix-copy-replaces-state-alphabet")
    if not obs["summary_equal"]:
        return ("%s: copy differs from source in observable content: %s" % (tag, obs.get("summary_diff")),
                "content:%s:%s:%s" % (kind, _route_class(route), _diff_class(obs.get("summary_diff", ""))))
    if SHALLOW_OWNER_CLAUSE and obs.get("bound_shallow"):
        return ("%s: an annotation of the shallow copy that is bound (owner_instance=) to an attribute of a member follows a "
                "private deep copy of the member, not the member the copy holds: %s" % (tag, obs["bound_shallow"]),
                "shallow-copy-foreign-owner-annotation-follows-hidden-clone")
    if obs["bound"]:
        return ("%s: annotations of the copy are not bound to the copy (%s)" % (tag, obs["bound"]),
                "annotation-owner:%s:%s:%s" % (kind, _route_class(route), obs["bound"][0][1].split(":")[0]))
    v = _steps_oracle(case, obs, tag, depth)
    if v:
        return v
    if obs.get("mut") == "done" and "written" in obs:
        m = case["mut"]["op"]
        # the mutation wrote into the region both sides are documented to share (namespace, taxa,
        # members of a shallow copy): then, and only then, it may be visible through the other side
        shared_mut = obs["written_shared"] or (B.mut_touches_taxa(m) and depth != "deep")
        if obs["written_in_other"] or not obs["other_graph_unchanged"]:
            return ("%s: mutation %s of the %s changed objects reachable from the other side (outside the documented shares): %s"
                    % (tag, m, case["mut"]["side"], obs["written_in_other"]), "frame:%s:%s:%s" % (kind, _route_class(route), m[0]))
        if not shared_mut and not obs["other_summary_unchanged"]:
            return ("%s: mutation %s of the %s is visible through the other object: %s"
                    % (tag, m, case["mut"]["side"], obs.get("other_summary_diff")),
                    "visible:%s:%s:%s" % (kind, _route_class(route), m[0]))
    return None


def _steps_oracle(case, obs, tag, depth):
    """an operation on one object changes no observation of the other: naive fingerprints of every object of the other
    side's region and its content summary, after every step (first step on one side, second on the other)"""
    kind, route = case["type"], case["route"]
    for sn, st in enumerate(obs.get("steps", [])):
        if st.get("mut") != "done":
            continue
        m = st["op"]
        if st["changed_other"]:
            return ("%s: step %d, %s on the %s, changed object(s) of the other side outside the documented shares: %s"
                    % (tag, sn + 1, m, st["side"], "; ".join("%s at %s" % tuple(e) for e in st["changed_other"][:4])),
                    "frame:%s:%s:%s" % (kind, _route_class(route), m[0]))
        shared_mut = st["shared_written"] or (B.mut_touches_taxa(m) and depth != "deep")
        if sn > 0 and not shared_mut and not st["other_summary_unchanged"]:
            # (step 1 is reported by the clause below, with the graph dump's `written` set when there is one)
            return ("%s: step %d, %s on the %s, is visible through the other object: %s"
                    % (tag, sn + 1, m, st["side"], st.get("other_summary_diff")),
                    "visible:%s:%s:%s" % (kind, _route_class(route), m[0]))
        if sn == 0 and "written" not in obs and not shared_mut and not st["other_summary_unchanged"]:
            return ("%s: mutation %s of the %s is visible through the other object: %s"
                    % (tag, m, st["side"], st.get("other_summary_diff")),
                    "visible:%s:%s:%s" % (kind, _route_class(route), m[0]))
    return None


def _has_unifurcation(case):
    return any(len(n["kids"]) == 1 for ts in case["trees"] for n in T.preorder(ts["spec"]))


def _route_class(route):
    return {"deepcopy": "deep", "clone2": "deep", "clone1": "scoped", "scoped": "scoped", "ctor": "ctor",
            "copy": "copy", "clone0": "copy", "extract": "extract", "extract_noref": "extract",
            "extract_keep": "extract_keep"}[route]


def _diff_class(d):
    import re
    p = d.split(":")[0]
    p = re.sub(r"\[\d+\]", "", p)
    parts = [x for x in p.split("/") if x]
    return "/".join(parts[-2:])[:40]


def _err_key(case, cp):
    kind, route = case["type"], case["route"]
    has_cell = any(d[0] == "cell_ann" for d in case["deco"])
    has_bound = any(d[0] in ("bound", "bound_other") for d in case["deco"])
    if cp[1] == "KeyErr" and has_cell:
        return "cell-annotations-copy-keyerror"
    if cp[1] == "AttrErr" and case.get("via_ctor") and "is_attribute" in cp[2]:
        return "recopy-of-ctor-copy-attribute-error"
    if cp[1] == "ReturnedNone":
        return "copy-returns-none:%s" % kind
    return "copy-raises:%s:%s:%s" % (kind, _route_class(route), cp[1])


# ----------------------------------------------------------------------------------------------
# Coq terms
# ----------------------------------------------------------------------------------------------

FIXED_CLS = {"list": 0, "dict": 1, "set": 2, "tuple": 3, "AnnotationSet": 4}
KIND_COQ = {"atomic": "KAtomic", "list": "KList", "dict": "KDict", "set": "KSet", "tuple": "KTuple",
            "plain": "KPlain", "annotable": "KAnnotable", "annset": "KAnnSet", "taxon": "KTaxon",
            "namespace": "KNamespace", "cdict": "KCDict"}


def _cv(x):
    return "R %d" % x if x >= 0 else "P %d" % (-x - 1)


def _cobj(packed, clsid):
    _i, cls, kind, body = packed
    if cls not in clsid:
        clsid[cls] = 10 + len(clsid)
    return "(mkObj %d %s [%s])" % (clsid[cls], KIND_COQ[kind], "; ".join("(%s, %s)" % (_cv(a), _cv(b)) for a, b in body))


def model_route(case, obs):
    """which route of the model a case exercises (None: not modelled)"""
    kind, route = case["type"], case["route"]
    d = B.depth_of(kind, route)
    if d == "deep":
        return "RDeep"
    if kind == "ns" or d in ("shallow", "thin", "self"):
        return None
    ns = obs.get("ns_oid")
    if ns is None:
        return None
    if route == "ctor":
        if kind == "standard":
            # StandardCharacterMatrix.__init__ goes on after _clone_from and installs a brand-new
            # state alphabet (reported by the oracle): that tail is not modelled
            return None
        # _clone_from as it is: the constructed object is a second object with the attributes of the
        # deep copy t (RCtor); the hidden twin t is visible when annotations refer to it.  When no twin
        # shows (no such annotation, or _clone_from repaired to copy INTO self), the copy is
        # indistinguishable from the taxon-namespace-scoped copy.
        return ("(RCtor %d)" % ns) if obs.get("twin") else ("(RScoped %d)" % ns)
    return "(RScoped %d)" % ns


_NF = []


def none_target_ok():
    """Which form of AnnotationSet.__deepcopy__ does the working tree have?  Probe: an AnnotationSet whose
    target is None, reached while id(None) is not in memo (False: KeyError, the code as found)."""
    if not _NF:
        import copy
        from dendropy.datamodel.charmatrixmodel import CharacterDataSequence
        sq = CharacterDataSequence(["a"])
        sq.annotations_at(0)
        try:
            copy.deepcopy(sq)
            _NF.append(True)
        except KeyError:
            _NF.append(False)
    return _NF[0]


def to_coq(case, obs):
    clsid = dict(FIXED_CLS)
    nf = "true" if none_target_ok() else "false"
    if "h0" not in obs:
        # the source could not even be built by copy construction: nothing to run
        return "(mkCase [] 0 ROther (ESkip []) [] (P 0) [] %s)" % nf
    heap = "[%s]" % "; ".join(_cobj(o, clsid) for o in obs["h0"])
    cp = obs["copy"]
    route = model_route(case, obs)
    news = "[%s]" % "; ".join(_cobj(o, clsid) for o in obs.get("h1new", []))
    if route is None:
        expect = "(ESkip %s)" % news
        route = "ROther"
    elif cp[0] == "Err":
        expect = "(EErr %s)" % (cp[1] if cp[1] in ("KeyErr", "AttrErr", "TypeErr", "IndexErr", "ValueErr", "RecursionErr") else "OtherErr")
    else:
        rc = cp[1]
        expect = "(EOk (%s) %s)" % (_cv(_pv(rc)), news)
    other = obs.get("other_val")
    return "(mkCase %s %d %s %s [%s] (%s) [%s] %s)" % (
        heap, obs["root_oid"], route, expect, "; ".join(str(i) for i in obs.get("seeds", [])),
        _cv(_pv(other)) if other else "P 0", "; ".join(str(i) for i in obs.get("written", [])), nf)


def nontrivial(case, obs):
    return "h0" in obs and obs["n0"] >= 12 and obs.get("copy", ["Err"])[0] == "Ok" and obs.get("mut") == "done"


def sample_fn(case, obs):
    return {"type": case["type"], "route": case["route"], "deco": case["deco"][:3], "mut": case["mut"],
            "source_objects": obs.get("n0"), "copy_objects": (obs.get("n1", 0) - obs.get("n0", 0)),
            "kinds": obs.get("kinds0"), "copy": obs.get("copy", [None])[0]}


def search(ctx, budget_s):
    t0 = time.time()
    rng = random.Random(ctx.seed + 4242)
    n = 0
    while time.time() - t0 < budget_s and n < 30000:
        case = gen_case(rng, big=(n % 10 == 0))
        obs = observe(case)
        v = oracle(case, obs)
        n += 1
        if v:
            ctx.violation(v[0], {"case": case, "observed": _slim(obs)}, key=v[1])
            if ctx.violations:
                return
    ctx.notes.append("search: %d further cases through the oracle, no unlisted violation" % n)


def _slim(obs):
    return {k: v for k, v in obs.items() if k not in ("h0", "h1new")}


def make_cases(ctx, n):
    cases = []
    for i in range(n):
        c = gen_case(ctx.rng, big=(i % 12 == 0))
        cases.append(c)
        ctx.count("type:" + c["type"])
        ctx.count("route:" + c["route"])
        ctx.count("mut:" + c["mut"]["op"][0])
        for d in c["deco"]:
            ctx.count("deco:" + d[0])
            if d[0] == "encode":
                ctx.count("w7:encoded before copying:" + ("mutable bipartitions" if len(d) > 3 and d[3] else "frozen bipartitions"))
            if d[0] == "bound_other":
                ctx.count("w7:owner_instance=:%s->%s" % (d[1][0], d[2][0]))
        if c.get("mut2"):
            ctx.count("mut2:" + c["mut2"]["op"][0])
    return cases


def exhaustive_cases(rng):
    """every rose-tree shape with <= 5 leaves x every copy route x two decoration profiles
    (plain; annotated with a value annotation, a bound annotation, comments and encoded bipartitions)"""
    for n in (1, 2, 3, 4, 5):
        for shape in T.all_shapes(n):
            spec = T.shape_to_tree(shape, lengths=lambda r: r.choice([None, 512, 1024]), rng=rng)
            ncount = len(T.preorder(spec))
            for route in B.ROUTES:
                for prof in (0, 1, 2):
                    if prof == 2:
                        # wave 7: encoded (frozen / mutable) before copying, an annotation bound to a sibling's attribute,
                        # an in-place bipartition edit on one side and a structural edit at a tip on the other
                        kids = [i for i, nd in enumerate(T.preorder(spec)) if i > 0]
                        deco = [["encode", 0, rng.random() < 0.5, rng.random() < 0.3]]
                        if len(kids) >= 2:
                            a, b = rng.sample(kids, 2)
                            deco.insert(0, ["bound_other", ["node", 0, a], ["node", 0, b], "shared_attr", ["int", 3]])
                        yield {"type": "tree", "deco": deco, "label": None, "ns": {"n": n, "label": None},
                               "trees": [{"spec": spec, "rooted": rng.choice([None, True, False]), "label": None, "weight": None}],
                               "route": route, "via_ctor": False,
                               "mut": {"side": rng.choice(["src", "copy"]),
                                       "op": rng.choice([["bip_split", 0, rng.randrange(ncount), 5], ["bip_unfreeze", 0, rng.randrange(ncount), 6],
                                                         ["bip_leafset", 0, rng.randrange(ncount), 3], ["enc_inplace", 0]])},
                               "mut2": {"op": rng.choice([["new_child", 0, ncount - 1], ["comment_add", ["node", 0, ncount - 1], "c"],
                                                          ["setattr", ["node", 0, 1], "shared_attr", ["int", 9]]])}}
                        continue
                    deco = []
                    if prof:
                        deco = [["ann", ["node", 0, ncount - 1], "a", ["list", [["int", 1]]]],
                                ["bound", ["edge", 0, 0], "popsize", ["int", 5]],
                                ["bound", ["tree", 0], "zz", ["float", 512]],
                                ["comment", ["tree", 0], "c"], ["encode", 0, True]]
                    yield {"type": "tree", "deco": deco, "label": None, "ns": {"n": n, "label": None},
                           "trees": [{"spec": spec, "rooted": rng.choice([None, True, False]), "label": None, "weight": None}],
                           "route": route, "via_ctor": False,
                           "mut": {"side": rng.choice(["src", "copy"]),
                                   "op": rng.choice([["set_len", 0, rng.randrange(ncount), 2048], ["prune", 0, rng.randrange(ncount)],
                                                     ["setattr", ["edge", 0, 0], "popsize", ["int", 77]], ["encode", 0],
                                                     ["ann_add", ["tree", 0], "later", ["int", 3]]])}}


SHEADER = ("From DV Require Import Model.PyPrims Model.C12Model Model.C12Spec2 Model.C12Shallow.\n"
           "From Coq Require Import ZArith. Open Scope Z_scope.")


def shallow_route(case, obs):
    """the route of Model/C12Shallow.v a case exercises (None: not a modelled shallow route)"""
    kind, route = case["type"], case["route"]
    if B.depth_of(kind, route) != "shallow" or case.get("via_ctor"):
        return None
    if kind == "ns":
        return "SNsCopy"
    if kind == "treelist":
        return "(SShallow treelist_template)"
    if kind == "continuous":
        return "(SShallow cont_matrix_template)"
    if kind == "dna":
        return "(SShallow matrix_template)"
    # StandardCharacterMatrix.__init__ installs a brand-new state alphabet (known finding): not modelled
    return None


def to_coq_shallow(case, obs):
    clsid = dict(FIXED_CLS)
    nf = "true" if none_target_ok() else "false"
    route = shallow_route(case, obs)
    if "h0" not in obs or route is None:
        return "(mkSCase [] 0 SNsCopy (ESkip []) %s)" % nf
    heap = "[%s]" % "; ".join(_cobj(o, clsid) for o in obs["h0"])
    cp = obs["copy"]
    news = "[%s]" % "; ".join(_cobj(o, clsid) for o in obs.get("h1new", []))
    if cp[0] == "Err":
        expect = "(EErr %s)" % (cp[1] if cp[1] in ("KeyErr", "AttrErr", "TypeErr", "IndexErr", "ValueErr", "RecursionErr") else "OtherErr")
    else:
        expect = "(EOk (%s) %s)" % (_cv(_pv(cp[1])), news)
    return "(mkSCase %s %d %s %s %s)" % (heap, obs["root_oid"], route, expect, nf)


def shallow_stage(ctx, cases, observe_fn, shard):
    """second wave: the shallow routes (copy.copy / clone(0) of TreeList and CharacterMatrix, TaxonNamespace
    copy construction) against Model/C12Shallow.v"""
    sel = []
    for c in cases:
        if B.depth_of(c["type"], c["route"]) == "shallow" and not c.get("via_ctor"):
            sel.append(c)
    terms = []
    kept = []
    for c in sel:
        obs = observe_fn(c)
        r = shallow_route(c, obs)
        if r is None or "h0" not in obs:
            ctx.count("shallow-route:not-modelled(%s)" % c["type"])
            continue
        ctx.count("shallow-route:%s" % c["type"])
        terms.append(to_coq_shallow(c, obs))
        kept.append((c, obs))
    if not terms:
        return
    bad, errors = core.run_cases(ctx.pid, SHEADER, "scase_ok", terms, shard=shard, tag="_shal")
    ctx.obligation("shallow routes: model evaluates all %d cases (vm_compute)" % len(terms), not errors)
    for e in errors:
        ctx.notes.append(e[:1500])
    if errors:
        ctx.violation("shallow-route cases could not be evaluated by the model", {"errors": [e[:1500] for e in errors]}, no_input=True)
        return
    ctx.obligation("shallow routes: model = implementation, hypotheses hold, on %d cases" % len(terms), not bad)
    if bad:
        case, obs = kept[bad[0]]
        shown = core.show_cases(ctx.pid, SHEADER, "scase_run", [terms[i] for i in bad[:2]])
        ctx.violation("shallow routes: model (Model/C12Shallow.v) and implementation disagree on %d case(s)" % len(bad),
                      {"correspondence": "shallow", "first_disagreeing_case": case, "implementation_observed": _slim(obs),
                       "model_computed": shown, "n_disagreements": len(bad)}, no_input=True)


def gen_tie_stage(ctx):
    """translator tie (wave 3): coq/Gen/CopyGen.v was just regenerated from the current source by proof_stage; the
    theorems of Props/C12Gen.v prove it equal (up to the ghost record) to the hand model.  An edit of a translated
    Python function changes CopyGen.v and breaks this build."""
    # regenerate under the same lock as the build: a concurrent check on another source tree cannot swap coq/Gen
    ok, log = core.coq_make(["Props/C12Gen.vo"], regenerate=True)
    ctx.obligation("translator tie: make Props/C12Gen.vo against the regenerated Gen/CopyGen.v", ok)
    if not ok:
        ctx.notes.append("translator tie: coq build failed at %s" % core.failing_file(log))
        ctx.build_log = log[-6000:]
        return False
    res = core.props_check(ctx.pid, "Props/C12Gen.v")
    if not res["ok"]:
        ctx.obligation("Props/C12Gen.v compiles", False)
        ctx.build_log = res["log"][-6000:]
        return False
    good = True
    for th in res["theorems"]:
        closed = th in res["assumptions"] and not res["assumptions"][th]
        ctx.obligation("theorem %s" % th, closed)
        good = good and closed
    return good


def iso_hypotheses(ctx, kept, shard):
    """second wave: on how many cases do the extra hypotheses (wf_heap3s) of the image theorems
    (deepcopy_image_onto_and_total, scoped_shares_every_reachable_seed) hold?  They are expected to fail
    exactly on copy-constructed sources (known finding ctor-copy-hidden-twin: the owned AnnotationSet's
    target is the hidden twin) and on matrices with per-cell annotation sets (AnnotationSets that are not
    the `_annotations` of their target); anything else is reported."""
    run = [(c, t) for c, t in kept if "(ESkip" not in t]
    if not run:
        return
    bad, errors = core.run_cases(ctx.pid, HEADER, "case_iso_hyp", [t for _, t in run], shard=max(shard, 100), tag="_isoh")
    ctx.obligation("image-theorem hypotheses evaluated on %d cases (vm_compute)" % len(run), not errors)
    for e in errors:
        ctx.notes.append(e[:1500])
    if errors:
        return
    ctx.count("image-hypotheses:hold", len(run) - len(bad))
    unexpected = []
    for i in bad:
        c = run[i][0]
        if c.get("via_ctor"):
            ctx.count("image-hypotheses:fail(copy-constructed source)")
        elif any(d[0] == "cell_ann" for d in c.get("deco", [])):
            ctx.count("image-hypotheses:fail(per-cell annotation sets)")
        else:
            unexpected.append(c)
    ctx.obligation("image-theorem hypotheses fail only on copy-constructed sources and per-cell annotation sets", not unexpected)
    if unexpected:
        ctx.violation("the hypotheses wf_heap3s of the image theorems fail on a dumped heap that is neither a "
                      "copy-constructed source nor a matrix with per-cell annotation sets (%d cases)" % len(unexpected),
                      {"case": unexpected[0]}, no_input=True)


HEADER4 = "From DV Require Import Model.PyPrims Model.C12Model Model.C12Spec2 Model.C12Spec3.\nFrom Coq Require Import ZArith. Open Scope Z_scope."


def iso4_hypotheses(ctx, kept, shard):
    """fifth wave: on how many cases do the hypotheses of deepcopy_isomorphism (wf_heap3s, wf_heap4, root_ok4)
    hold?  Counted only (the theorem's other hypotheses are part of case_ok3); failures are expected on
    copy-constructed sources and per-cell annotation sets, anything else is counted separately."""
    run = [(c, t) for c, t in kept if "(ESkip" not in t]
    if not run:
        return
    bad, errors = core.run_cases(ctx.pid, HEADER4, "case_iso4_hyp", [t for _, t in run], shard=max(shard, 100), tag="_iso4")
    ctx.obligation("isomorphism-theorem hypotheses evaluated on %d cases (vm_compute)" % len(run), not errors)
    for e in errors:
        ctx.notes.append(e[:1500])
    if errors:
        return
    ctx.count("isomorphism-hypotheses:hold", len(run) - len(bad))
    for i in bad:
        c = run[i][0]
        if c.get("via_ctor"):
            ctx.count("isomorphism-hypotheses:fail(copy-constructed source)")
        elif any(d[0] == "cell_ann" for d in c.get("deco", [])):
            ctx.count("isomorphism-hypotheses:fail(per-cell annotation sets)")
        else:
            ctx.count("isomorphism-hypotheses:fail(other)")


HEADER5 = ("From DV Require Import Model.PyPrims Model.C12Model Model.C12Spec2 Model.C12Spec3 Model.C12Spec4.\n"
           "From Coq Require Import ZArith. Open Scope Z_scope.")


def _ns_side(tgt):
    """does an address name the namespace, a taxon, or an annotation of one of them?"""
    return tgt[0] in ("ns", "taxon") or (tgt[0] == "ann" and _ns_side(tgt[1]))


def _refs_in(spec):
    if spec[0] == "ref":
        yield spec[1]
    elif spec[0] in ("list", "tuple"):
        for x in spec[1]:
            for r in _refs_in(x):
                yield r
    elif spec[0] == "dict":
        for _k, x in spec[1]:
            for r in _refs_in(x):
                yield r


def _has_empty_tuple(spec):
    if spec[0] == "tuple":
        return not spec[1] or any(_has_empty_tuple(x) for x in spec[1])
    if spec[0] == "list":
        return any(_has_empty_tuple(x) for x in spec[1])
    if spec[0] == "dict":
        return any(_has_empty_tuple(x) for _k, x in spec[1])
    return False


def crosses_namespace_boundary(case):
    """Naive reading of the case description: does a decoration make something on the namespace side (the
    namespace, a taxon, one of their annotations) refer to an object of the copied structure, or the structure
    refer to an INNER object of the namespace side (an annotation of the namespace / of a taxon)?  These are the
    inputs on which source and copy share more than the namespace and its taxa by construction."""
    for d in case.get("deco", []):
        k = d[0]
        if k in ("ann", "extra", "bound", "cell_ann"):
            tgt = d[1] if k != "cell_ann" else ["seq", d[1]]
            val = d[-1]
            for r in _refs_in(val):
                if _ns_side(tgt) and not _ns_side(r):
                    return True
                if not _ns_side(tgt) and r[0] == "ann" and _ns_side(r):
                    return True
        elif k == "bound_other":
            obj, owner, val = d[1], d[2], d[4]
            if _ns_side(obj) and not _ns_side(owner):
                return True
            if not _ns_side(obj) and owner[0] == "ann" and _ns_side(owner):
                return True
            for r in _refs_in(val):
                if _ns_side(owner) and not _ns_side(r):
                    return True
                if not _ns_side(owner) and r[0] == "ann" and _ns_side(r):
                    return True
    return False


def iso5_hypotheses(ctx, kept, shard):
    """sixth wave: on how many cases does the privacy hypothesis of deepcopy_isomorphism_strict hold (wf_heap5 on top
    of the hypotheses of deepcopy_isomorphism)?  Counted; among the cases that satisfy the hypotheses of
    deepcopy_isomorphism the failures are classified: expected exactly when a decoration crosses the namespace
    boundary (see crosses_namespace_boundary) - the honest domain of the strict theorem; anything else is counted
    as fail(other) and listed in the notes."""
    run = [(c, t) for c, t in kept if "(ESkip" not in t]
    if not run:
        return
    terms = [t for _, t in run]
    bad4, err4 = core.run_cases(ctx.pid, HEADER5, "case_iso4_hyp", terms, shard=max(shard, 100), tag="_iso5a")
    bad5, err5 = core.run_cases(ctx.pid, HEADER5, "case_iso5_hyp", terms, shard=max(shard, 100), tag="_iso5b")
    badc, errc = core.run_cases(ctx.pid, HEADER5, "case_priv_conts", terms, shard=max(shard, 100), tag="_iso5d")
    errors = err4 + err5 + errc
    ctx.obligation("strict-isomorphism (privacy) hypotheses evaluated on %d cases (vm_compute)" % len(run), not errors)
    for e in errors:
        ctx.notes.append(e[:1500])
    if errors:
        return
    bad4, bad5, badc = set(bad4), set(bad5), set(badc)
    ctx.count("strict-isomorphism-hypotheses:hold", len(run) - len(bad5))
    ctx.count("strict-isomorphism-hypotheses:fail(already outside deepcopy_isomorphism)", len(bad5 & bad4))
    # the container part never fails on a dumped heap: nothing but its AnnotationSet refers to an _item_list / _item_set
    ctx.obligation("owned _item_list/_item_set are referred to by their annotation set only, on every dumped heap (%d cases)"
                   % len(run), not badc)
    other = []
    for i in sorted(bad5 - bad4):
        c = run[i][0]
        if crosses_namespace_boundary(c):
            ctx.count("strict-isomorphism-hypotheses:fail(decoration crosses the namespace boundary)")
        else:
            ctx.count("strict-isomorphism-hypotheses:fail(other)")
            other.append(c)
    n_cross = sum(1 for c, _t in run if crosses_namespace_boundary(c))
    ctx.count("cases whose decoration crosses the namespace boundary", n_cross)
    if other:
        ctx.notes.append("strict-isomorphism hypotheses fail on %d case(s) that no decoration explains; first: %s"
                         % (len(other), json.dumps({"type": other[0]["type"], "route": other[0]["route"],
                                                    "deco": other[0]["deco"]})[:1200]))


def dumper_obligations(ctx, unsupported, dispatch_seen):
    """wave 7: (1) the graph dumper - the model's view of the heap - accepts every object of every generated case (it
    refuses, e.g., a class with a __deepcopy__ it does not know; the oracle has gone on with the naive observation on
    such cases, so a concrete input is reported whenever there is one); (2) what the RUNNING library dispatches
    copy.deepcopy to, for every class of a dumped object, is what the translator read off the source (Gen/CopyGen.v
    part 3, proved equal to Model/C12Classes.v in Props/C12Gen.v)."""
    ctx.obligation("the graph dumper accepts every object of every generated case (no class with an unknown __deepcopy__, "
                   "no unknown container shape)", not unsupported)
    if unsupported:
        reasons = sorted(set(r for _c, r in unsupported))
        ctx.notes.append("graph dump refused on %d case(s): %s" % (len(unsupported), "; ".join(reasons)[:600]))
        ctx.count("graph dump refused", len(unsupported))
    try:
        from dv import gen_copy
        table = gen_copy.class_kinds(core.REPO)
        err = None
    except Exception as e:      # the translator failed closed: already an obligation of the proof stage
        table, err = {}, "%s: %s" % (type(e).__name__, e)
    bad = []
    if err is None:
        for cls, vals in sorted(dispatch_seen.items()):
            want = table.get(cls)
            if want is None:
                bad.append("class %s occurs in a copied structure but the translator has no dispatch fact for it" % cls)
                continue
            for kind, qual in vals:
                definer = qual.split(".")[0] if qual else None
                if (kind, definer) != (want[0], want[1]):
                    bad.append("class %s: running library dispatches to %s (%s), the source says %s (%s)"
                               % (cls, qual, kind, want[1], want[0]))
        ctx.count("w7:classes whose run-time dispatch was compared with the source", len(dispatch_seen))
    ctx.obligation("run-time copy.deepcopy dispatch of every dumped class = the dispatch table extracted from the source", not bad and err is None)
    for b in bad[:6]:
        ctx.notes.append(b)
    if err:
        ctx.notes.append("dispatch table not extractable: " + err[:300])


HEADERA = ("From DV Require Import Model.PyPrims Model.C12Model Model.C12Spec2 Model.C12Classes.\n"
           "From Coq Require Import ZArith. Open Scope Z_scope.")


def alias_hypotheses(ctx, kept, shard):
    """wave 7: the extra hypothesis of deep_copy_shares_only_atomic_objects / scoped_copy_shares_only_namespace_region_and_
    atomic_objects (atomic objects are opaque in the dumped heap) holds on every dumped case"""
    run = [(c, t) for c, t in kept if "(ESkip" not in t]
    if not run:
        return
    bad, errors = core.run_cases(ctx.pid, HEADERA, "case_alias_hyp", [t for _, t in run], shard=max(shard, 100), tag="_alias")
    ctx.obligation("atomic objects are opaque (atomic_opaque) on every dumped heap (%d cases, vm_compute)" % len(run),
                   not errors and not bad)
    for e in errors:
        ctx.notes.append(e[:1500])


def run(tier, seed, replay=None):
    ctx = core.Ctx("C12", tier, seed)
    ctx.assumptions = [
        "model coq/Model/C12Model.v is a hand transcription of copy.deepcopy and the library's __deepcopy__ overrides; tied by this correspondence run",
        "object graphs are dumped by py/dv/c12_graph.py: immutable values are interned ids, tuples have no identity, StateAlphabet/StateIdentity are opaque",
        "Python recursion depth is outside the model (trees <= 60 nodes)",
        "variant of AnnotationSet.__deepcopy__ in the working tree (target None accepted: %s) decided by probing the library" % none_target_ok(),
        "naive identity-level observation (py/dv/c12_alias.py): StateAlphabet / StateIdentity instances are documented value objects (not followed, never counted as shared)",
    ]
    if replay:
        r = json.load(open(replay))["replay"]
        case = r.get("case") or r.get("first_disagreeing_case")
        if case is None:
            print("replay file names a broken obligation, no input:", json.dumps(r)[:1500])
            return 0
        obs = observe(case)
        print("oracle:", oracle(case, obs))
        print(json.dumps(_slim(obs), default=str)[:3000])
        return 0
    # the only translated (coq/Gen) file C12 uses is CopyGen.v (py/dv/gen_copy.py): translator failures on other
    # properties' sources are not C12 obligations
    ok = core.proof_stage(ctx, ["Props/C12.vo"], gen_needed=("CopyGen",))
    ok = gen_tie_stage(ctx) and ok
    if not ok:
        core.broken_proof(ctx, search)
    n = 300 if tier == "quick" else 10000
    cases = make_cases(ctx, n)
    if tier == "thorough":
        ex = list(exhaustive_cases(ctx.rng))
        ctx.count("exhaustive-small-trees", len(ex))
        cases.extend(ex)
    cache = {}
    unsupported = []        # (case, reason): graph dumps the model's view of the heap could not take
    dispatch_seen = {}      # class -> [kind, qualified name of the resolved __deepcopy__] as dumped at run time

    def obs_cached(case):
        o = observe(case)
        if "unsupported" in o or "unsupported_after" in o:
            unsupported.append((case, o.get("unsupported") or o.get("unsupported_after")))
        for k, v in o.get("dispatch", {}).items():
            dispatch_seen.setdefault(k, set()).add(tuple(v))
        for d in case["deco"]:
            if d[0] == "bound_other" and "bound" in o:
                ctx.count("w7:foreign-owner annotation observed on the copy")
        for st in o.get("steps", [])[1:]:
            ctx.count("w7:second step (other side):" + st["mut"].split(":")[0])
        if o.get("bound_shallow"):
            ctx.count("w7:observed (not a clause yet): shallow copy binds a foreign-owner annotation to a hidden clone of the member")
        return o

    kept = []

    def to_coq_kept(case, obs):
        t = to_coq(case, obs)
        kept.append((case, t))
        return t

    shard = 40 if tier == "quick" else 125
    core.corr_stage(ctx, cases, obs_cached, to_coq_kept, HEADER, "case_ok3",
                    oracle=lambda c, o: oracle(c, o), show_fn="case_run", nontrivial=nontrivial,
                    search=search, shard=shard, sample_fn=sample_fn)
    dumper_obligations(ctx, unsupported, dispatch_seen)
    iso_hypotheses(ctx, kept, shard)
    iso4_hypotheses(ctx, kept, shard)
    iso5_hypotheses(ctx, kept, shard)
    alias_hypotheses(ctx, kept, shard)
    shallow_stage(ctx, cases, obs_cached, max(shard, 100))
    return ctx.finish(level="proof",
                      rule="random decorated trees (<=60 nodes, with and without a bipartition encoding - frozen or mutable - made "
                           "before copying, annotations bound with owner_instance= to objects copied earlier / later), tree "
                           "lists, DNA/standard/continuous matrices and namespaces; every copy route; one random later mutation on "
                           "either side and (half of the cases) a second one on the other side, incl. in-place bipartition edits; "
                           "thorough adds every tree shape with <=5 leaves x every route x {plain, annotated, encoded+foreign "
                           "owner}; non-trivial = source graph of >=12 objects, copy "
                           "succeeded and the mutation was applied; distinct by full case content")
