"""C12 - copies are equal to their source and independent of it at the documented depth.

case   = JSON spec of a decorated datamodel object (tree / tree list / character matrix / namespace),
         a copy route and one later mutation on either side.
observe= build the object with the real library, dump its reachable object graph (the model's heap),
         copy it by the route, dump the joint graph, mutate one side, dump again.
model  = coq/Model/C12Model.v runs its `copy.deepcopy` (with the overrides of the library) on the dumped
         source graph and must produce a graph isomorphic to the implementation's copy with exactly
         the same sharing; the objects written by the later mutation must lie outside the other
         side's reachable set (hypothesis of the frame theorem).
oracle = naive and independent of the model: reachable-id sets of source and copy intersect only in
         what the documented depth allows; observable content equal; after the mutation the other
         side's dump is unchanged; bound annotations on the copy are bound to the copy.
"""
import json
import random
import time

from dv import core
from dv import trees as T
from dv import c12_graph as G
from dv import c12_build as B

HEADER = "From DV Require Import Model.PyPrims Model.C12Model Model.C12Spec2.\nFrom Coq Require Import ZArith. Open Scope Z_scope."

MAX_NODES = 60


# ----------------------------------------------------------------------------------------------
# generator
# ----------------------------------------------------------------------------------------------

def _gen_val(rng, targets, depth=0):
    k = rng.random()
    if k < 0.22:
        return ["int", rng.randrange(100)]
    if k < 0.40:
        return ["str", rng.choice(["x", "y", "hello", "", "A b"])]
    if k < 0.52:
        return ["float", rng.randrange(-2048, 4096)]
    if k < 0.58:
        return ["none", None]
    if k < 0.62:
        return ["bool", rng.random() < 0.5]
    if depth < 2 and k < 0.76:
        # (a sequence whose FIRST element is an object is the shape of a bound annotation's value:
        # not generated as a plain value)
        return ["list", [_gen_val(rng, targets if i else [], depth + 1) for i in range(rng.randint(0, 3))]]
    if depth < 2 and k < 0.84:
        return ["dict", [["k%d" % i, _gen_val(rng, targets, depth + 1)] for i in range(rng.randint(0, 2))]]
    if depth < 2 and k < 0.90:
        return ["tuple", [_gen_val(rng, targets if i else [], depth + 1) for i in range(rng.randint(0, 3))]]
    if targets:
        return ["ref", rng.choice(targets)]
    return ["int", 7]


def _targets(case, rng, n=8):
    """addresses of annotable objects inside the case's root"""
    out = [["root"]]
    kind = case["type"]
    nn = case["ns"]["n"]
    if nn:
        out.append(["taxon", rng.randrange(nn)])
    out.append(["ns"])
    if kind in ("tree", "treelist"):
        for ti, ts in enumerate(case["trees"]):
            cnt = len(T.preorder(ts["spec"]))
            out.append(["tree", ti])
            for _ in range(3):
                i = rng.randrange(cnt)
                out.append(["node", ti, i])
                out.append(["edge", ti, i])
    elif kind != "ns":
        for k in range(len(case["seqs"])):
            out.append(["seq", k])
    return out


def gen_case(rng, big=False):
    kind = rng.choices(["tree", "treelist", "dna", "standard", "continuous", "ns"], [45, 14, 9, 8, 7, 12])[0]
    case = {"type": kind, "deco": [], "label": rng.choice([None, None, "L1", "my data"])}
    if kind in ("tree", "treelist"):
        ntrees = 1 if kind == "tree" else rng.randint(0, 3)
        nl = rng.choice([1, 2, 3, 3, 4, 4, 5, 6, 8]) if not big else rng.randint(9, 28)
        extra = rng.choice([0, 0, 1, 2])
        case["ns"] = {"n": nl + extra, "label": rng.choice([None, "taxa"])}
        case["trees"] = []
        for _ in range(ntrees):
            k = rng.randint(1, nl)
            taxa = rng.sample(range(nl + extra), k)
            spec = T.gen_tree(rng, k, lengths=rng.choice(["mixed", "dyadic", "none", "positive"]),
                              unifurcations=rng.choice([0.0, 0.0, 0.15]), taxa=taxa,
                              internal_labels=rng.choice([0.0, 0.5]))
            if len(T.preorder(spec)) > MAX_NODES:
                spec = T.gen_tree(rng, 3, taxa=taxa[:3] if len(taxa) >= 3 else None)
            case["trees"].append({"spec": spec, "rooted": rng.choice([None, True, False]),
                                  "label": rng.choice([None, "tr"]), "weight": rng.choice([None, None, 1024, 512])})
    elif kind == "ns":
        case["ns"] = {"n": rng.randint(0, 5), "label": rng.choice([None, "taxa"])}
    else:
        nt = rng.randint(1, 4)
        nch = rng.randint(1, 5)
        case["ns"] = {"n": nt + rng.choice([0, 1]), "label": rng.choice([None, "taxa"])}
        seqs = []
        for k in rng.sample(range(case["ns"]["n"]), nt):
            if kind == "dna":
                seqs.append([k, "".join(rng.choice("ACGT-") for _ in range(nch))])
            elif kind == "standard":
                seqs.append([k, "".join(rng.choice("01") for _ in range(nch))])
            else:
                seqs.append([k, [rng.randrange(-1024, 4096) for _ in range(nch)]])
        case["seqs"] = seqs
    # a namespace with a history (sorted / reversed / a non-final taxon removed after accession)
    if rng.random() < 0.3:
        hist = []
        for _ in range(rng.choice([1, 1, 2])):
            hist.append(rng.choice([["sort_rev"], ["reverse"], ["remove", rng.randrange(8)]]))
        case["ns"]["history"] = hist
    # decorations
    tg = _targets(case, rng)
    deco = []
    for _ in range(rng.choice([0, 1, 2, 3, 4, 6])):
        k = rng.random()
        t = rng.choice(tg)
        if k < 0.30:
            deco.append(["ann", t, rng.choice(["a", "b", "color"]), _gen_val(rng, tg)])
        elif k < 0.45:
            deco.append(["bound", t, rng.choice(["popsize", "zz"]), _gen_val(rng, [])])
        elif k < 0.50:
            deco.append(["bound_other", t, rng.choice(tg), "shared_attr", _gen_val(rng, [])])
        elif k < 0.60:
            if t[0] != "ann":
                deco.append(["comment", t, rng.choice(["c1", "a comment"])])
        elif k < 0.75:
            deco.append(["extra", t, rng.choice(["xa", "xb"]), _gen_val(rng, tg)])
        elif k < 0.80:
            deco.append(["touch_ann", t])
        elif k < 0.84:
            deco.append(["clear_ann", t])
        elif k < 0.90:
            deco.append(["label", t, rng.choice(["lab", "Lab 2", None])])
        else:
            # annotation on an annotation (needs an existing one)
            prev = [d for d in deco if d[0] in ("ann", "bound")]
            if prev:
                d = rng.choice(prev)
                deco.append(["ann", ["ann", d[1], 0], "sub", _gen_val(rng, [])])
    if kind in ("tree", "treelist"):
        for ti in range(len(case["trees"])):
            if rng.random() < (0.7 if case["ns"].get("history") else 0.35):
                deco.append(["encode", ti, rng.random() < 0.5])
    elif kind != "ns":
        if rng.random() < 0.4:
            deco.append(["subset", rng.choice(["Codon1", "s2"]), sorted(rng.sample(range(6), rng.randint(0, 3)))])
        if rng.random() < 0.25:
            deco.append(["chartypes"])
        if rng.random() < 0.12:
            deco.append(["cell_ann", rng.randrange(4), rng.randrange(5), "cell", ["int", 1]])
    case["deco"] = deco
    routes = list(B.ROUTES) if kind == "tree" else [r for r in B.ROUTES if not r.startswith("extract")]
    case["route"] = rng.choice(routes)
    case["via_ctor"] = (kind != "ns") and rng.random() < 0.07
    case["mut"] = {"side": rng.choice(["src", "copy"]), "op": gen_mut(rng, case, tg)}
    return case


def gen_mut(rng, case, tg):
    kind = case["type"]
    nn = max(1, case["ns"]["n"])
    gen = []
    annotated = [d[1] for d in case["deco"] if d[0] in ("ann", "bound", "bound_other")]
    bound = [d for d in case["deco"] if d[0] == "bound"]
    extras = [d for d in case["deco"] if d[0] == "extra"]
    t = rng.choice(tg)
    common = [
        (3, lambda: ["set_label", rng.choice([x for x in tg if x[0] not in ("edge",)] or [["root"]]), "newlabel"]),
        (3, lambda: ["taxon_label", rng.randrange(nn), "renamed"]),
        (4, lambda: ["ann_add", t, "later", _gen_val(rng, [])]),
        (2, lambda: ["comment_add", t, "later comment"]),
        (2, lambda: ["setattr", t, "xa", ["int", 12345]]),
        (1, lambda: ["ns_new_taxon", "brandnew"]),
        (1, lambda: ["ns_remove_taxon", rng.randrange(nn)]),
        (1, lambda: ["ns_sort"]),
    ]
    if annotated:
        a = rng.choice(annotated)
        common += [(5, lambda: ["ann_value", a, 0, _gen_val(rng, [])]),
                   (5, lambda: ["ann_inplace", a, rng.randrange(3)]),
                   (2, lambda: ["ann_drop", a, 0]),
                   (2, lambda: ["ann_of_ann", a, 0])]
    if bound:
        b = rng.choice(bound)
        common += [(8, lambda: ["setattr", b[1], b[2], ["int", 4242]])]
    if extras:
        e = rng.choice(extras)
        common += [(5, lambda: ["extra_inplace", e[1], e[2]])]
    if kind in ("tree", "treelist") and case["trees"]:
        ti = rng.randrange(len(case["trees"]))
        cnt = len(T.preorder(case["trees"][ti]["spec"]))
        i = rng.randrange(cnt)
        common += [(6, lambda: ["set_len", ti, i, rng.randrange(0, 8192)]),
                   (4, lambda: ["prune", ti, i]), (4, lambda: ["reroot", ti, i]),
                   (3, lambda: ["new_child", ti, i]), (3, lambda: ["collapse", ti, i]),
                   (2, lambda: ["swap_children", ti, i]), (5, lambda: ["encode", ti]),
                   (2, lambda: ["rooting", ti, rng.choice([True, False, None])]),
                   (2, lambda: ["retaxon", ti, i, rng.randrange(nn)])]
    if kind == "treelist":
        common += [(3, lambda: ["tl_append"]), (2, lambda: ["tl_reverse"])]
        if case["trees"]:
            common += [(2, lambda: ["tl_pop"])]
    if kind in ("dna", "standard", "continuous"):
        k = rng.randrange(len(case["seqs"]))
        common += [(10, lambda: ["cell", k, rng.randrange(5), rng.randrange(0, 4096)]),
                   (3, lambda: ["seq_append", k]), (3, lambda: ["del_seq", k]),
                   (3, lambda: ["subset_add", "later", [0]])]
        if any(d[0] == "subset" for d in case["deco"]):
            common += [(4, lambda: ["subset_inplace", 0])]
    ws = [w for w, _ in common]
    return rng.choices([f for _, f in common], ws)[0]()


# ----------------------------------------------------------------------------------------------
# observation
# ----------------------------------------------------------------------------------------------

def observe(case):
    kind, route = case["type"], case["route"]
    root = B.build(case)
    if case.get("via_ctor"):
        # the source is itself a copy-constructed object
        try:
            root = type(root)(root)
        except Exception as e:
            return {"copy": ["Err", core.exc_enum(e), "%s: %s" % (type(e).__name__, str(e)[:160])],
                    "while": "copy-constructing the source"}
    D = G.Dumper()
    skip = ("extraction_source",) if route in ("extract", "extract_keep") else ()
    obs = {}
    try:
        h0, (r0,) = D.dump([root])
    except G.Unsupported as e:
        return {"unsupported": str(e)}
    n0 = len(D.keep)
    D.n0 = n0
    assert sorted(h0) == list(range(n0))
    sum0 = B.summary(root)
    obs["n0"] = n0
    obs["root_oid"] = r0[1]
    obs["ns_oid"] = D.known(B.namespace_of(root))
    obs["h0"] = _pack(h0)
    obs["kinds0"] = _census(h0)
    try:
        with core.alarm(20):
            cp = B.do_copy(root, route)
    except Exception as e:
        obs["copy"] = ["Err", core.exc_enum(e), "%s: %s" % (type(e).__name__, str(e)[:160])]
        return obs
    if cp is None:
        obs["copy"] = ["Err", "ReturnedNone", "the copy route returned None"]
        return obs
    shared_objs = B.allowed_shared(root, kind, route)
    try:
        h1, vals = D.dump([root, cp] + shared_objs, skip_attrs=skip)
    except G.Unsupported as e:
        return {"unsupported": "copy: " + str(e)}
    r1, rc = vals[0], vals[1]
    svals = vals[2:]
    n1 = len(D.keep)
    obs["copy"] = ["Ok", rc]
    obs["is_same_object"] = cp is root
    obs["n1"] = n1
    obs["h1new"] = _pack({i: o for i, o in h1.items() if i >= n0})
    obs["src_untouched_by_copy"] = all(h1[i] == h0[i] for i in h0 if i in h1) and G.canonical(h0, r0) == G.canonical(h1, r1)
    # sharing (naive sets)
    reach_src = G.reach_ids(h1, [r1])
    reach_cp = G.reach_ids(h1, [rc])
    reach_sh = G.reach_ids(h1, svals)
    atom = set(i for i, o in h1.items() if o["kind"] == "atomic")
    obs["shared_unexpected"] = sorted((reach_src & reach_cp) - reach_sh - atom - _tuples(h1))[:12]
    obs["shared_unexpected_cls"] = sorted(set(h1[i]["cls"] for i in obs["shared_unexpected"]))
    seeds = set(v[1] for v in svals)
    obs["seeds"] = sorted(seeds)
    obs["seeds_missing_from_copy"] = sorted(i for i in seeds if i in reach_src and i not in reach_cp)[:12]
    obs["n_shared"] = len(reach_src & reach_cp)
    # copy constructors: an object other than the copy that owns the copy's attribute dictionary
    obs["twin"] = any(getattr(D.keep[i], "__dict__", None) is cp.__dict__ and D.keep[i] is not cp
                      for i in reach_cp if i < len(D.keep) and not isinstance(D.keep[i], list))
    # content
    depth = B.depth_of(kind, route)
    thin = depth == "thin"
    shallow = depth == "shallow"
    sumS = B.summary(root, thin=thin, shallow=shallow)
    sumC = B.summary(cp, thin=thin, shallow=shallow)
    same_ns = B.namespace_of(cp) is B.namespace_of(root)
    obs["same_ns"] = same_ns
    if same_ns and kind != "ns":
        # one and the same namespace object: nothing to compare (and what its annotations refer to
        # is named relative to the source)
        sumS.pop("ns", None)
        sumC.pop("ns", None)
    obs["members_same"] = _members_same(root, cp) if shallow else None
    obs["ns_index"] = B.ns_index_report(root, cp)
    obs["summary_src_unchanged"] = (B.summary(root) == sum0)
    obs["summary_equal"] = (sumS == sumC)
    if sumS != sumC:
        obs["summary_diff"] = _first_diff(sumS, sumC)
    # bound annotations / annotation targets on the copy
    obs["bound"] = _bound_report(root, cp, depth)
    # mutation on one side
    side = case["mut"]["side"]
    mroot, oroot = (root, cp) if side == "src" else (cp, root)
    oval = rc if side == "src" else r1
    stop = reach_sh | atom
    obs["other_val"] = oval
    before = G.canonical(h1, oval, stop=stop)
    before_sum = B.summary(oroot, thin=False, shallow=shallow)
    try:
        with core.alarm(20):
            B.apply_mut(mroot, case["mut"]["op"])
        obs["mut"] = "done"
    except Exception as e:
        obs["mut"] = "failed:%s" % type(e).__name__
    try:
        h2, vals2 = D.dump([root, cp] + shared_objs, skip_attrs=skip)
    except G.Unsupported as e:
        obs["mut"] = "unsupported-after"
        return obs
    oval2 = vals2[1] if side == "src" else vals2[0]
    after = G.canonical(h2, oval2, stop=stop)
    obs["other_graph_unchanged"] = (before == after)
    after_sum = B.summary(oroot, thin=False, shallow=shallow)
    obs["other_summary_unchanged"] = (before_sum == after_sum)
    if before_sum != after_sum:
        obs["other_summary_diff"] = _first_diff(before_sum, after_sum)
    written = sorted(i for i in h1 if i in h2 and h1[i] != h2[i]) + sorted(i for i in h1 if i not in h2 and False)
    obs["written"] = written
    obs["written_shared"] = bool(set(written) & reach_sh)
    obs["written_in_other"] = sorted(set(written) & (G.reach_ids(h1, [oval]) - stop))[:12]
    return obs


def _members_same(root, cp):
    """shallow copies: the members of the copy are the members of the source, in the same order"""
    import dendropy
    if isinstance(root, dendropy.TaxonNamespace):
        a, b = root._taxa, cp._taxa
    elif isinstance(root, dendropy.TreeList):
        a, b = root._trees, cp._trees
    else:
        a = [x for kv in root._taxon_sequence_map.items() for x in kv]
        b = [x for kv in cp._taxon_sequence_map.items() for x in kv]
    return len(a) == len(b) and all(x is y for x, y in zip(a, b))


def _tuples(h):
    return set(i for i, o in h.items() if o["kind"] == "tuple")


def _census(h):
    c = {}
    for o in h.values():
        c[o["kind"]] = c.get(o["kind"], 0) + 1
    return c


def _pack(h):
    """heap -> compact list [[oid, cls, kind, [[a,b]..]]] with a,b = ints: prim p -> -(p+1), ref o -> o"""
    out = []
    for i in sorted(h):
        o = h[i]
        out.append([i, o["cls"], o["kind"], [[_pv(a), _pv(b)] for a, b in o["body"]]])
    return out


def _pv(v):
    return v[1] if v[0] == "R" else -(v[1] + 1)


def _first_diff(a, b, path=""):
    if type(a) != type(b):
        return "%s: %r vs %r" % (path, a, b)
    if isinstance(a, dict):
        for k in sorted(set(a) | set(b)):
            if a.get(k) != b.get(k):
                return _first_diff(a.get(k), b.get(k), path + "/" + str(k))
    if isinstance(a, list):
        if len(a) != len(b):
            return "%s: length %d vs %d: %s | %s" % (path, len(a), len(b), str(a)[:80], str(b)[:80])
        for i, (x, y) in enumerate(zip(a, b)):
            if x != y:
                return _first_diff(x, y, path + "[%d]" % i)
    return "%s: %s vs %s" % (path, str(a)[:80], str(b)[:80])


def _annotables(root):
    """(position name, object) of every annotable part of a datamodel object"""
    out = [("root", root)]
    import dendropy
    ns = B.namespace_of(root)
    if ns is not root:
        out.append(("ns", ns))
    for i, t in enumerate(ns._taxa):
        out.append(("taxon%d" % i, t))
    for ti, t in enumerate(B.trees_of(root)):
        if t is not root:
            out.append(("tree%d" % ti, t))
        for i, nd in enumerate(t.preorder_node_iter()):
            out.append(("node%d.%d" % (ti, i), nd))
            out.append(("edge%d.%d" % (ti, i), nd.edge))
    if hasattr(root, "_taxon_sequence_map"):
        for i, s in enumerate(root._taxon_sequence_map.values()):
            out.append(("seq%d" % i, s))
    return out


def _bound_report(root, cp, depth):
    """For every annotable part of the copy: is `annotations.target` that part, and does every
    attribute-bound annotation whose source was bound to the source part point at the copy's part."""
    bad = []
    if depth in ("thin", "self"):
        return bad
    src = dict(_annotables(root))
    for pos, o in _annotables(cp):
        s = src.get(pos)
        if s is None or o is s or not hasattr(o, "_annotations"):
            continue
        if o._annotations.target is not o:
            bad.append([pos, "target"])
        if not hasattr(s, "_annotations"):
            continue
        for a_s, a_c in zip(s._annotations, o._annotations):
            if a_s.is_attribute and a_c.is_attribute and a_s._value[0] is s and a_c._value[0] is not o:
                bad.append([pos, "bound:" + str(a_c._value[1])])
    return bad[:8]


# ----------------------------------------------------------------------------------------------
# oracle (naive statement of the property on the implementation's observation)
# ----------------------------------------------------------------------------------------------

def oracle(case, obs):
    kind, route = case["type"], case["route"]
    if "unsupported" in obs:
        return None
    tag = "%s/%s" % (kind, route)
    depth = B.depth_of(kind, route)
    cp = obs["copy"]
    if cp[0] == "Err":
        if route == "clone0" and kind == "ns" and False:
            return None
        if True:
            what = "%s of a %s raised %s" % (route, kind, cp[2])
            return (what, _err_key(case, cp))
    if not obs["src_untouched_by_copy"] or not obs["summary_src_unchanged"]:
        return ("%s: copying changed the source object" % tag, "copy-mutates-source:%s" % tag)
    if depth == "self":
        if not obs["is_same_object"]:
            return ("%s: taxon-namespace-scoped copy of a namespace is not the namespace itself" % tag, "ns-scoped-not-self")
        return None
    if obs["shared_unexpected"]:
        return ("%s (documented depth: %s): source and copy share mutable objects they must not share: classes %s (oids %s)"
                % (tag, depth, obs["shared_unexpected_cls"], obs["shared_unexpected"]),
                "shares:%s:%s:%s" % (kind, _route_class(route), "+".join(obs["shared_unexpected_cls"])[:60]))
    if obs["seeds_missing_from_copy"] and depth != "deep":
        return ("%s: the copy does not reference the source's namespace/taxa/members it is documented to share (oids %s)"
                % (tag, obs["seeds_missing_from_copy"]), "not-sharing-namespace:%s:%s" % (kind, _route_class(route)))
    if obs.get("ns_index"):
        return ("%s: the copy's namespace does not give the copied taxa the accession indices / bitmasks they have in the "
                "source's namespace (bipartition bitmasks carried over to the copy name other taxa): %s"
                % (tag, "; ".join(obs["ns_index"][:3])), "copied-namespace-taxon-bit-assignment:%s" % _route_class(route))
    if depth == "shallow" and not obs["members_same"]:
        return ("%s: the members of the shallow copy are not the members of the source" % tag, "shallow-members:%s" % kind)
    if obs["twin"] and (obs["bound"] or not obs["summary_equal"]):
        return ("%s: the copy's annotations (AnnotationSet.target, owners of attribute-bound annotations, references to the "
                "source object) point at a hidden second object that shares the copy's __dict__, not at the copy: %s %s"
                % (tag, obs["bound"], obs.get("summary_diff", "")), "ctor-copy-hidden-twin")
    if depth == "shallow" and not obs["summary_equal"] and ("reading-value-raises" in obs.get("summary_diff", "")
                                                               or "'method'" in obs.get("summary_diff", "")):
        return ("%s: an attribute-bound annotation of the shallow copy is bound to an attribute the copy does not have: %s"
                % (tag, obs["summary_diff"]), "shallow-copy-bound-annotation-dangling")
    if depth == "thin" and route != "extract_keep" and not obs["summary_equal"] and _has_unifurcation(case):
        return ("%s: extract_tree() without a filter removed outdegree-1 nodes (documented: only when nodes are excluded): %s"
                % (tag, obs["summary_diff"]), "extract-tree-unfiltered-suppresses-unifurcations")
    if (depth == "shallow" and kind in ("dna", "standard", "continuous") and not obs["summary_equal"]
            and obs.get("summary_diff", "").split(":")[0] in ("/subsets", "/chartypes")):
        return ("%s: the shallow copy of a character matrix drops character_subsets / character_types (documented: "
                "all member objects are references): %s" % (tag, obs["summary_diff"]),
                "shallow-matrix-copy-drops-character-subsets-and-types")
    if kind == "standard" and not obs["summary_equal"] and obs.get("summary_diff", "").startswith("/alphabet"):
        return ("%s: the copy of a StandardCharacterMatrix has a different state alphabet than the one its cells belong to: %s"
                % (tag, obs["summary_diff"]), "standard-matrix-copy-replaces-state-alphabet")
    if not obs["summary_equal"]:
        return ("%s: copy differs from source in observable content: %s" % (tag, obs.get("summary_diff")),
                "content:%s:%s:%s" % (kind, _route_class(route), _diff_class(obs.get("summary_diff", ""))))
    if obs["bound"]:
        return ("%s: annotations of the copy are not bound to the copy (%s)" % (tag, obs["bound"]),
                "annotation-owner:%s:%s:%s" % (kind, _route_class(route), obs["bound"][0][1].split(":")[0]))
    if obs.get("mut") == "done":
        m = case["mut"]["op"]
        # the mutation wrote into the region both sides are documented to share (namespace, taxa,
        # members of a shallow copy): then, and only then, it may be visible through the other side
        shared_mut = obs["written_shared"] or (B.mut_touches_taxa(m) and depth != "deep")
        if obs["written_in_other"] or not obs["other_graph_unchanged"]:
            return ("%s: mutation %s of the %s changed objects reachable from the other side (outside the documented shares): %s"
                    % (tag, m, case["mut"]["side"], obs["written_in_other"]), "frame:%s:%s:%s" % (kind, _route_class(route), m[0]))
        if not shared_mut and not obs["other_summary_unchanged"]:
            return ("%s: mutation %s of the %s is visible through the other object: %s"
                    % (tag, m, case["mut"]["side"], obs.get("other_summary_diff")),
                    "visible:%s:%s:%s" % (kind, _route_class(route), m[0]))
    return None


def _has_unifurcation(case):
    return any(len(n["kids"]) == 1 for ts in case["trees"] for n in T.preorder(ts["spec"]))


def _route_class(route):
    return {"deepcopy": "deep", "clone2": "deep", "clone1": "scoped", "scoped": "scoped", "ctor": "ctor",
            "copy": "copy", "clone0": "copy", "extract": "extract", "extract_noref": "extract",
            "extract_keep": "extract_keep"}[route]


def _diff_class(d):
    import re
    p = d.split(":")[0]
    p = re.sub(r"\[\d+\]", "", p)
    parts = [x for x in p.split("/") if x]
    return "/".join(parts[-2:])[:40]


def _err_key(case, cp):
    kind, route = case["type"], case["route"]
    has_cell = any(d[0] == "cell_ann" for d in case["deco"])
    has_bound = any(d[0] in ("bound", "bound_other") for d in case["deco"])
    if cp[1] == "KeyErr" and has_cell:
        return "cell-annotations-copy-keyerror"
    if cp[1] == "AttrErr" and case.get("via_ctor") and "is_attribute" in cp[2]:
        return "recopy-of-ctor-copy-attribute-error"
    if cp[1] == "ReturnedNone":
        return "copy-returns-none:%s" % kind
    return "copy-raises:%s:%s:%s" % (kind, _route_class(route), cp[1])


# ----------------------------------------------------------------------------------------------
# Coq terms
# ----------------------------------------------------------------------------------------------

FIXED_CLS = {"list": 0, "dict": 1, "set": 2, "tuple": 3, "AnnotationSet": 4}
KIND_COQ = {"atomic": "KAtomic", "list": "KList", "dict": "KDict", "set": "KSet", "tuple": "KTuple",
            "plain": "KPlain", "annotable": "KAnnotable", "annset": "KAnnSet", "taxon": "KTaxon",
            "namespace": "KNamespace", "cdict": "KCDict"}


def _cv(x):
    return "R %d" % x if x >= 0 else "P %d" % (-x - 1)


def _cobj(packed, clsid):
    _i, cls, kind, body = packed
    if cls not in clsid:
        clsid[cls] = 10 + len(clsid)
    return "(mkObj %d %s [%s])" % (clsid[cls], KIND_COQ[kind], "; ".join("(%s, %s)" % (_cv(a), _cv(b)) for a, b in body))


def model_route(case, obs):
    """which route of the model a case exercises (None: not modelled)"""
    kind, route = case["type"], case["route"]
    d = B.depth_of(kind, route)
    if d == "deep":
        return "RDeep"
    if kind == "ns" or d in ("shallow", "thin", "self"):
        return None
    ns = obs.get("ns_oid")
    if ns is None:
        return None
    if route == "ctor":
        if kind == "standard":
            # StandardCharacterMatrix.__init__ goes on after _clone_from and installs a brand-new
            # state alphabet (reported by the oracle): that tail is not modelled
            return None
        # _clone_from as it is: the constructed object is a second object with the attributes of the
        # deep copy t (RCtor); the hidden twin t is visible when annotations refer to it.  When no twin
        # shows (no such annotation, or _clone_from repaired to copy INTO self), the copy is
        # indistinguishable from the taxon-namespace-scoped copy.
        return ("(RCtor %d)" % ns) if obs.get("twin") else ("(RScoped %d)" % ns)
    return "(RScoped %d)" % ns


_NF = []


def none_target_ok():
    """Which form of AnnotationSet.__deepcopy__ does the working tree have?  Probe: an AnnotationSet whose
    target is None, reached while id(None) is not in memo (False: KeyError, the code as found)."""
    if not _NF:
        import copy
        from dendropy.datamodel.charmatrixmodel import CharacterDataSequence
        sq = CharacterDataSequence(["a"])
        sq.annotations_at(0)
        try:
            copy.deepcopy(sq)
            _NF.append(True)
        except KeyError:
            _NF.append(False)
    return _NF[0]


def to_coq(case, obs):
    clsid = dict(FIXED_CLS)
    nf = "true" if none_target_ok() else "false"
    if "h0" not in obs:
        # the source could not even be built by copy construction: nothing to run
        return "(mkCase [] 0 ROther (ESkip []) [] (P 0) [] %s)" % nf
    heap = "[%s]" % "; ".join(_cobj(o, clsid) for o in obs["h0"])
    cp = obs["copy"]
    route = model_route(case, obs)
    news = "[%s]" % "; ".join(_cobj(o, clsid) for o in obs.get("h1new", []))
    if route is None:
        expect = "(ESkip %s)" % news
        route = "ROther"
    elif cp[0] == "Err":
        expect = "(EErr %s)" % (cp[1] if cp[1] in ("KeyErr", "AttrErr", "TypeErr", "IndexErr", "ValueErr", "RecursionErr") else "OtherErr")
    else:
        rc = cp[1]
        expect = "(EOk (%s) %s)" % (_cv(_pv(rc)), news)
    other = obs.get("other_val")
    return "(mkCase %s %d %s %s [%s] (%s) [%s] %s)" % (
        heap, obs["root_oid"], route, expect, "; ".join(str(i) for i in obs.get("seeds", [])),
        _cv(_pv(other)) if other else "P 0", "; ".join(str(i) for i in obs.get("written", [])), nf)


def nontrivial(case, obs):
    return "h0" in obs and obs["n0"] >= 12 and obs.get("copy", ["Err"])[0] == "Ok" and obs.get("mut") == "done"


def sample_fn(case, obs):
    return {"type": case["type"], "route": case["route"], "deco": case["deco"][:3], "mut": case["mut"],
            "source_objects": obs.get("n0"), "copy_objects": (obs.get("n1", 0) - obs.get("n0", 0)),
            "kinds": obs.get("kinds0"), "copy": obs.get("copy", [None])[0]}


def search(ctx, budget_s):
    t0 = time.time()
    rng = random.Random(ctx.seed + 4242)
    n = 0
    while time.time() - t0 < budget_s and n < 30000:
        case = gen_case(rng, big=(n % 10 == 0))
        obs = observe(case)
        v = oracle(case, obs)
        n += 1
        if v:
            ctx.violation(v[0], {"case": case, "observed": _slim(obs)}, key=v[1])
            if ctx.violations:
                return
    ctx.notes.append("search: %d further cases through the oracle, no unlisted violation" % n)


def _slim(obs):
    return {k: v for k, v in obs.items() if k not in ("h0", "h1new")}


def make_cases(ctx, n):
    cases = []
    for i in range(n):
        c = gen_case(ctx.rng, big=(i % 12 == 0))
        cases.append(c)
        ctx.count("type:" + c["type"])
        ctx.count("route:" + c["route"])
        ctx.count("mut:" + c["mut"]["op"][0])
        for d in c["deco"]:
            ctx.count("deco:" + d[0])
    return cases


def exhaustive_cases(rng):
    """every rose-tree shape with <= 5 leaves x every copy route x two decoration profiles
    (plain; annotated with a value annotation, a bound annotation, comments and encoded bipartitions)"""
    for n in (1, 2, 3, 4, 5):
        for shape in T.all_shapes(n):
            spec = T.shape_to_tree(shape, lengths=lambda r: r.choice([None, 512, 1024]), rng=rng)
            ncount = len(T.preorder(spec))
            for route in B.ROUTES:
                for prof in (0, 1):
                    deco = []
                    if prof:
                        deco = [["ann", ["node", 0, ncount - 1], "a", ["list", [["int", 1]]]],
                                ["bound", ["edge", 0, 0], "popsize", ["int", 5]],
                                ["bound", ["tree", 0], "zz", ["float", 512]],
                                ["comment", ["tree", 0], "c"], ["encode", 0, True]]
                    yield {"type": "tree", "deco": deco, "label": None, "ns": {"n": n, "label": None},
                           "trees": [{"spec": spec, "rooted": rng.choice([None, True, False]), "label": None, "weight": None}],
                           "route": route, "via_ctor": False,
                           "mut": {"side": rng.choice(["src", "copy"]),
                                   "op": rng.choice([["set_len", 0, rng.randrange(ncount), 2048], ["prune", 0, rng.randrange(ncount)],
                                                     ["setattr", ["edge", 0, 0], "popsize", ["int", 77]], ["encode", 0],
                                                     ["ann_add", ["tree", 0], "later", ["int", 3]]])}}


SHEADER = ("From DV Require Import Model.PyPrims Model.C12Model Model.C12Spec2 Model.C12Shallow.\n"
           "From Coq Require Import ZArith. Open Scope Z_scope.")


def shallow_route(case, obs):
    """the route of Model/C12Shallow.v a case exercises (None: not a modelled shallow route)"""
    kind, route = case["type"], case["route"]
    if B.depth_of(kind, route) != "shallow" or case.get("via_ctor"):
        return None
    if kind == "ns":
        return "SNsCopy"
    if kind == "treelist":
        return "(SShallow treelist_template)"
    if kind == "continuous":
        return "(SShallow cont_matrix_template)"
    if kind == "dna":
        return "(SShallow matrix_template)"
    # StandardCharacterMatrix.__init__ installs a brand-new state alphabet (known finding): not modelled
    return None


def to_coq_shallow(case, obs):
    clsid = dict(FIXED_CLS)
    nf = "true" if none_target_ok() else "false"
    route = shallow_route(case, obs)
    if "h0" not in obs or route is None:
        return "(mkSCase [] 0 SNsCopy (ESkip []) %s)" % nf
    heap = "[%s]" % "; ".join(_cobj(o, clsid) for o in obs["h0"])
    cp = obs["copy"]
    news = "[%s]" % "; ".join(_cobj(o, clsid) for o in obs.get("h1new", []))
    if cp[0] == "Err":
        expect = "(EErr %s)" % (cp[1] if cp[1] in ("KeyErr", "AttrErr", "TypeErr", "IndexErr", "ValueErr", "RecursionErr") else "OtherErr")
    else:
        expect = "(EOk (%s) %s)" % (_cv(_pv(cp[1])), news)
    return "(mkSCase %s %d %s %s %s)" % (heap, obs["root_oid"], route, expect, nf)


def shallow_stage(ctx, cases, observe_fn, shard):
    """second wave: the shallow routes (copy.copy / clone(0) of TreeList and CharacterMatrix, TaxonNamespace
    copy construction) against Model/C12Shallow.v"""
    sel = []
    for c in cases:
        if B.depth_of(c["type"], c["route"]) == "shallow" and not c.get("via_ctor"):
            sel.append(c)
    terms = []
    kept = []
    for c in sel:
        obs = observe_fn(c)
        r = shallow_route(c, obs)
        if r is None or "h0" not in obs:
            ctx.count("shallow-route:not-modelled(%s)" % c["type"])
            continue
        ctx.count("shallow-route:%s" % c["type"])
        terms.append(to_coq_shallow(c, obs))
        kept.append((c, obs))
    if not terms:
        return
    bad, errors = core.run_cases(ctx.pid, SHEADER, "scase_ok", terms, shard=shard, tag="_shal")
    ctx.obligation("shallow routes: model evaluates all %d cases (vm_compute)" % len(terms), not errors)
    for e in errors:
        ctx.notes.append(e[:1500])
    if errors:
        ctx.violation("shallow-route cases could not be evaluated by the model", {"errors": [e[:1500] for e in errors]}, no_input=True)
        return
    ctx.obligation("shallow routes: model = implementation, hypotheses hold, on %d cases" % len(terms), not bad)
    if bad:
        case, obs = kept[bad[0]]
        shown = core.show_cases(ctx.pid, SHEADER, "scase_run", [terms[i] for i in bad[:2]])
        ctx.violation("shallow routes: model (Model/C12Shallow.v) and implementation disagree on %d case(s)" % len(bad),
                      {"correspondence": "shallow", "first_disagreeing_case": case, "implementation_observed": _slim(obs),
                       "model_computed": shown, "n_disagreements": len(bad)}, no_input=True)


def gen_tie_stage(ctx):
    """translator tie (wave 3): coq/Gen/CopyGen.v was just regenerated from the current source by proof_stage; the
    theorems of Props/C12Gen.v prove it equal (up to the ghost record) to the hand model.  An edit of a translated
    Python function changes CopyGen.v and breaks this build."""
    # regenerate under the same lock as the build: a concurrent check on another source tree cannot swap coq/Gen
    ok, log = core.coq_make(["Props/C12Gen.vo"], regenerate=True)
    ctx.obligation("translator tie: make Props/C12Gen.vo against the regenerated Gen/CopyGen.v", ok)
    if not ok:
        ctx.notes.append("translator tie: coq build failed at %s" % core.failing_file(log))
        ctx.build_log = log[-6000:]
        return False
    res = core.props_check(ctx.pid, "Props/C12Gen.v")
    if not res["ok"]:
        ctx.obligation("Props/C12Gen.v compiles", False)
        ctx.build_log = res["log"][-6000:]
        return False
    good = True
    for th in res["theorems"]:
        closed = th in res["assumptions"] and not res["assumptions"][th]
        ctx.obligation("theorem %s" % th, closed)
        good = good and closed
    return good


def iso_hypotheses(ctx, kept, shard):
    """second wave: on how many cases do the extra hypotheses (wf_heap3s) of the image theorems
    (deepcopy_image_onto_and_total, scoped_shares_every_reachable_seed) hold?  They are expected to fail
    exactly on copy-constructed sources (known finding ctor-copy-hidden-twin: the owned AnnotationSet's
    target is the hidden twin) and on matrices with per-cell annotation sets (AnnotationSets that are not
    the `_annotations` of their target); anything else is reported."""
    run = [(c, t) for c, t in kept if "(ESkip" not in t]
    if not run:
        return
    bad, errors = core.run_cases(ctx.pid, HEADER, "case_iso_hyp", [t for _, t in run], shard=max(shard, 100), tag="_isoh")
    ctx.obligation("image-theorem hypotheses evaluated on %d cases (vm_compute)" % len(run), not errors)
    for e in errors:
        ctx.notes.append(e[:1500])
    if errors:
        return
    ctx.count("image-hypotheses:hold", len(run) - len(bad))
    unexpected = []
    for i in bad:
        c = run[i][0]
        if c.get("via_ctor"):
            ctx.count("image-hypotheses:fail(copy-constructed source)")
        elif any(d[0] == "cell_ann" for d in c.get("deco", [])):
            ctx.count("image-hypotheses:fail(per-cell annotation sets)")
        else:
            unexpected.append(c)
    ctx.obligation("image-theorem hypotheses fail only on copy-constructed sources and per-cell annotation sets", not unexpected)
    if unexpected:
        ctx.violation("the hypotheses wf_heap3s of the image theorems fail on a dumped heap that is neither a "
                      "copy-constructed source nor a matrix with per-cell annotation sets (%d cases)" % len(unexpected),
                      {"case": unexpected[0]}, no_input=True)


HEADER4 = "From DV Require Import Model.PyPrims Model.C12Model Model.C12Spec2 Model.C12Spec3.\nFrom Coq Require Import ZArith. Open Scope Z_scope."


def iso4_hypotheses(ctx, kept, shard):
    """fifth wave: on how many cases do the hypotheses of deepcopy_isomorphism (wf_heap3s, wf_heap4, root_ok4)
    hold?  Counted only (the theorem's other hypotheses are part of case_ok3); failures are expected on
    copy-constructed sources and per-cell annotation sets, anything else is counted separately."""
    run = [(c, t) for c, t in kept if "(ESkip" not in t]
    if not run:
        return
    bad, errors = core.run_cases(ctx.pid, HEADER4, "case_iso4_hyp", [t for _, t in run], shard=max(shard, 100), tag="_iso4")
    ctx.obligation("isomorphism-theorem hypotheses evaluated on %d cases (vm_compute)" % len(run), not errors)
    for e in errors:
        ctx.notes.append(e[:1500])
    if errors:
        return
    ctx.count("isomorphism-hypotheses:hold", len(run) - len(bad))
    for i in bad:
        c = run[i][0]
        if c.get("via_ctor"):
            ctx.count("isomorphism-hypotheses:fail(copy-constructed source)")
        elif any(d[0] == "cell_ann" for d in c.get("deco", [])):
            ctx.count("isomorphism-hypotheses:fail(per-cell annotation sets)")
        else:
            ctx.count("isomorphism-hypotheses:fail(other)")


HEADER5 = ("From DV Require Import Model.PyPrims Model.C12Model Model.C12Spec2 Model.C12Spec3 Model.C12Spec4.\n"
           "From Coq Require Import ZArith. Open Scope Z_scope.")


def _ns_side(tgt):
    """does an address name the namespace, a taxon, or an annotation of one of them?"""
    return tgt[0] in ("ns", "taxon") or (tgt[0] == "ann" and _ns_side(tgt[1]))


def _refs_in(spec):
    if spec[0] == "ref":
        yield spec[1]
    elif spec[0] in ("list", "tuple"):
        for x in spec[1]:
            for r in _refs_in(x):
                yield r
    elif spec[0] == "dict":
        for _k, x in spec[1]:
            for r in _refs_in(x):
                yield r


def _has_empty_tuple(spec):
    if spec[0] == "tuple":
        return not spec[1] or any(_has_empty_tuple(x) for x in spec[1])
    if spec[0] == "list":
        return any(_has_empty_tuple(x) for x in spec[1])
    if spec[0] == "dict":
        return any(_has_empty_tuple(x) for _k, x in spec[1])
    return False


def crosses_namespace_boundary(case):
    """Naive reading of the case description: does a decoration make something on the namespace side (the
    namespace, a taxon, one of their annotations) refer to an object of the copied structure, or the structure
    refer to an INNER object of the namespace side (an annotation of the namespace / of a taxon)?  These are the
    inputs on which source and copy share more than the namespace and its taxa by construction."""
    for d in case.get("deco", []):
        k = d[0]
        if k in ("ann", "extra", "bound", "cell_ann"):
            tgt = d[1] if k != "cell_ann" else ["seq", d[1]]
            val = d[-1]
            for r in _refs_in(val):
                if _ns_side(tgt) and not _ns_side(r):
                    return True
                if not _ns_side(tgt) and r[0] == "ann" and _ns_side(r):
                    return True
        elif k == "bound_other":
            obj, owner, val = d[1], d[2], d[4]
            if _ns_side(obj) and not _ns_side(owner):
                return True
            if not _ns_side(obj) and owner[0] == "ann" and _ns_side(owner):
                return True
            for r in _refs_in(val):
                if _ns_side(owner) and not _ns_side(r):
                    return True
                if not _ns_side(owner) and r[0] == "ann" and _ns_side(r):
                    return True
    return False


def iso5_hypotheses(ctx, kept, shard):
    """sixth wave: on how many cases does the privacy hypothesis of deepcopy_isomorphism_strict hold (wf_heap5 on top
    of the hypotheses of deepcopy_isomorphism)?  Counted; among the cases that satisfy the hypotheses of
    deepcopy_isomorphism the failures are classified: expected exactly when a decoration crosses the namespace
    boundary (see crosses_namespace_boundary) - the honest domain of the strict theorem; anything else is counted
    as fail(other) and listed in the notes."""
    run = [(c, t) for c, t in kept if "(ESkip" not in t]
    if not run:
        return
    terms = [t for _, t in run]
    bad4, err4 = core.run_cases(ctx.pid, HEADER5, "case_iso4_hyp", terms, shard=max(shard, 100), tag="_iso5a")
    bad5, err5 = core.run_cases(ctx.pid, HEADER5, "case_iso5_hyp", terms, shard=max(shard, 100), tag="_iso5b")
    badc, errc = core.run_cases(ctx.pid, HEADER5, "case_priv_conts", terms, shard=max(shard, 100), tag="_iso5d")
    errors = err4 + err5 + errc
    ctx.obligation("strict-isomorphism (privacy) hypotheses evaluated on %d cases (vm_compute)" % len(run), not errors)
    for e in errors:
        ctx.notes.append(e[:1500])
    if errors:
        return
    bad4, bad5, badc = set(bad4), set(bad5), set(badc)
    ctx.count("strict-isomorphism-hypotheses:hold", len(run) - len(bad5))
    ctx.count("strict-isomorphism-hypotheses:fail(already outside deepcopy_isomorphism)", len(bad5 & bad4))
    # the container part never fails on a dumped heap: nothing but its AnnotationSet refers to an _item_list / _item_set
    ctx.obligation("owned _item_list/_item_set are referred to by their annotation set only, on every dumped heap (%d cases)"
                   % len(run), not badc)
    other = []
    for i in sorted(bad5 - bad4):
        c = run[i][0]
        if crosses_namespace_boundary(c):
            ctx.count("strict-isomorphism-hypotheses:fail(decoration crosses the namespace boundary)")
        else:
            ctx.count("strict-isomorphism-hypotheses:fail(other)")
            other.append(c)
    n_cross = sum(1 for c, _t in run if crosses_namespace_boundary(c))
    ctx.count("cases whose decoration crosses the namespace boundary", n_cross)
    if other:
        ctx.notes.append("strict-isomorphism hypotheses fail on %d case(s) that no decoration explains; first: %s"
                         % (len(other), json.dumps({"type": other[0]["type"], "route": other[0]["route"],
                                                    "deco": other[0]["deco"]})[:1200]))


def run(tier, seed, replay=None):
    ctx = core.Ctx("C12", tier, seed)
    ctx.assumptions = [
        "model coq/Model/C12Model.v is a hand transcription of copy.deepcopy and the library's __deepcopy__ overrides; tied by this correspondence run",
        "object graphs are dumped by py/dv/c12_graph.py: immutable values are interned ids, tuples have no identity, StateAlphabet/StateIdentity are opaque",
        "Python recursion depth is outside the model (trees <= 60 nodes)",
        "variant of AnnotationSet.__deepcopy__ in the working tree (target None accepted: %s) decided by probing the library" % none_target_ok(),
    ]
    if replay:
        r = json.load(open(replay))["replay"]
        case = r.get("case") or r.get("first_disagreeing_case")
        if case is None:
            print("replay file names a broken obligation, no input:", json.dumps(r)[:1500])
            return 0
        obs = observe(case)
        print("oracle:", oracle(case, obs))
        print(json.dumps(_slim(obs), default=str)[:3000])
        return 0
    # the only translated (coq/Gen) file C12 uses is CopyGen.v (py/dv/gen_copy.py): translator failures on other
    # properties' sources are not C12 obligations
    ok = core.proof_stage(ctx, ["Props/C12.vo"], gen_needed=("CopyGen",))
    ok = gen_tie_stage(ctx) and ok
    if not ok:
        core.broken_proof(ctx, search)
    n = 300 if tier == "quick" else 10000
    cases = make_cases(ctx, n)
    if tier == "thorough":
        ex = list(exhaustive_cases(ctx.rng))
        ctx.count("exhaustive-small-trees", len(ex))
        cases.extend(ex)
    cache = {}

    def obs_cached(case):
        return observe(case)

    kept = []

    def to_coq_kept(case, obs):
        t = to_coq(case, obs)
        kept.append((case, t))
        return t

    shard = 40 if tier == "quick" else 125
    core.corr_stage(ctx, cases, obs_cached, to_coq_kept, HEADER, "case_ok3",
                    oracle=lambda c, o: oracle(c, o), show_fn="case_run", nontrivial=nontrivial,
                    search=search, shard=shard, sample_fn=sample_fn)
    iso_hypotheses(ctx, kept, shard)
    iso4_hypotheses(ctx, kept, shard)
    iso5_hypotheses(ctx, kept, shard)
    shallow_stage(ctx, cases, obs_cached, max(shard, 100))
    return ctx.finish(level="proof",
                      rule="random decorated trees (<=60 nodes), tree lists, DNA/standard/continuous matrices and namespaces; "
                           "every copy route; one random later mutation on either side; thorough adds every tree shape with "
                           "<=5 leaves x every route x {plain, annotated}; non-trivial = source graph of >=12 objects, copy "
                           "succeeded and the mutation was applied; distinct by full case content")
