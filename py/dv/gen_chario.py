"""Translator: character-matrix writers and readers of dendropy.dataio  ->  coq/Gen/CharIO.v  (property C09).

generate(repo) parses fastawriter.py, fastareader.py, phylipwriter.py, phylipreader.py and nexuswriter.py
with `ast` and compiles the methods listed in PLAN, statement by statement, into Gallina over the run-time
library coq/Model/C09Prims.v (whose definitions state the Python semantics assumed for each construct).

What is read off the AST: statement order, which variable is assigned, operators and comparison
directions, constants (numbers and string literals, format strings), call and method names, argument
order, loop structure, `continue` / `raise` / `try ... except ... else` structure, `if/elif/else` nesting.
What comes from tables in this file: the types of parameters, attributes and locals (Python has none),
which attribute chains denote mutable objects threaded through the methods, the primitive each method /
builtin on each type maps to (PRIMS), and the exception class -> PyPrims.err map.

Scheme
  * a method is a function of its read-only inputs (parameters, `self.x` attributes it only reads) and of
    the mutable objects it touches (STATE: e.g. self.char_matrix, its taxon_namespace, self.taxa_processed,
    the output stream); it returns the mutable objects as they are at the end and the returned value;
    a method that can raise returns `res`
  * `for x in xs: body` -> for_each / for_each_res over the iterated list with the tuple of variables that
    are assigned or mutated in the body and defined before the loop; `continue` ends the iteration
  * `if` whose branches all fall through joins on the variables assigned in a branch; a branch that ends in
    continue / raise / return makes the rest of the block part of the other branch
  * `raise E(...)` -> Err <class>; the arguments of an exception (messages) are not evaluated
  * `try: x = e  except K: handler  [else: orelse]` -> match on the result of e
  * `v is None` / `v is not None and ...` on an optional variable -> match, refining v in the branches
  * `m[t]` on a CharacterMatrix creates the row when missing: hoisted into a binding that re-binds m
  * a variable initialised with None and later given a value is `option`
Anything outside the subset raises Unsupported (py2coq writes a stub, so every dependent proof breaks).
"""
import ast
import os

OUTPUT = "CharIO.v"


class Unsupported(Exception):
    pass


def bad(node, why):
    raise Unsupported("%s at line %s: %s" % (why, getattr(node, "lineno", "?"), ast.dump(node)[:200]))


EXC = {"DataParseError": "ParseErr", "TypeError": "TypeErr", "ValueError": "ValueErr", "KeyError": "KeyErr",
       "IndexError": "IndexErr"}

# --------------------------------------------------------------------------------------------
# types
# --------------------------------------------------------------------------------------------
COQ_TY = {"block": "nat", "tdict": "tdict", "str": "text", "int": "Z", "bool": "bool", "state": "Z", "states": "(list Z)", "strs": "(list text)",
          "ints": "(list Z)", "stream": "text", "wmatrix": "(list wtaxon)", "wtaxon": "wtaxon", "tns": "tns",
          "cmat": "(cmat Z)", "taxon": "taxon", "taxset": "(list taxon)", "ref": "taxon", "alphabet": "alphabet",
          "lines": "(list text)", "wdict": "wdict", "wkey": "nat", "optint": "(option Z)", "descmatch": "(Z * Z)%type", "nslist": "(list unit)"}


def coq_ty(t):
    if t.startswith("opt:"):
        return "(option %s)" % coq_ty(t[4:])
    return COQ_TY[t]


def lit(s):
    return "[" + "; ".join(str(ord(c)) for c in s) + "]"


def tup(names):
    return names[0] if len(names) == 1 else "(" + ", ".join(names) + ")"


def pat(names):
    return names[0] if len(names) == 1 else "'(" + ", ".join(names) + ")"


def chain(e):
    """dotted name of an attribute chain rooted at a Name, or None"""
    parts = []
    while isinstance(e, ast.Attribute):
        parts.append(e.attr)
        e = e.value
    if isinstance(e, ast.Name):
        parts.append(e.id)
        return ".".join(reversed(parts))
    return None


def ident(dotted):
    return dotted.replace(".", "_")


class Spec:
    """one method to translate"""
    def __init__(self, file, cls, name, params, attrs, state, locals_, ret, out_name, skip_prefix=0, stop_at=None,
                 extra_params=(), init=(), branch=None):
        self.file, self.cls, self.name = file, cls, name
        self.params = params            # [(python name, type)]   ('skip' = unused by the translation)
        self.attrs = attrs              # read-only attribute chains: dotted -> type
        self.state = state              # mutable objects: dotted -> type   (order = order in the state tuple)
        self.locals = locals_           # local variable -> type
        self.ret = ret                  # type of the returned value, 'unit', or ('tuple', [types])
        self.out_name = out_name
        self.skip_prefix = skip_prefix  # number of leading statements that construct objects (checked by shape)
        self.stop_at = stop_at          # translate up to (excluding) the first statement assigning this name
        self.extra_params = extra_params  # [(coq name, coq type)] parameters of the primitives (lower, alphabet)
        self.init = init                # [(dotted, term)]: initial value of a state object created in the skipped prefix
        self.branch = branch            # ("else", dotted attr, literal): translate only the else-branch of the top-level
                                        # `if <attr> == <literal>:` (the other branch handles a data type outside the model)


class Env:
    def __init__(self):
        self.ty = {}         # dotted/python name -> type
        self.known = {}      # optional variable -> coq name of its value when known to be not None

    def copy(self):
        e = Env()
        e.ty = dict(self.ty)
        e.known = dict(self.known)
        return e


class Compiler:
    def __init__(self, spec, fn, done, consts):
        self.spec, self.fn, self.done, self.consts = spec, fn, done, consts
        self.n = 0
        self.monadic = self.can_raise(fn)
        self.state = list(spec.state)          # dotted names, in order

    # ---------------------------------------------------------------- analysis
    def can_raise(self, node):
        for n in ast.walk(node):
            if isinstance(n, (ast.Raise, ast.Try, ast.While)):
                return True
            if isinstance(n, ast.Call):
                c = chain(n.func)
                if c and c.startswith("self._") and c[5:] in RAISING_HELPERS:
                    return True
                if c and c.startswith("self.") and c[5:] in self.done and self.done[c[5:]].monadic:
                    return True
                if isinstance(n.func, ast.Name) and n.func.id == "max":
                    return True
                if c in ("textprocessing.unique_taxon_label_map",):
                    return True
            if isinstance(n, ast.Subscript):
                c = chain(n.value)
                if c and self.spec.locals.get(c, self.spec.attrs.get(c)) in ("wdict", "tns", "alphabet"):
                    if isinstance(n.ctx, ast.Load):
                        return True
        return False

    def fresh(self, base):
        self.n += 1
        return "%s_%d" % (base, self.n)

    def assigned(self, stmts):
        """names (dotted) assigned or mutated in stmts, in first-occurrence order"""
        out = []

        def add(x):
            if x not in out:
                out.append(x)

        def target(t):
            if isinstance(t, ast.Name):
                add(t.id)
            elif isinstance(t, ast.Tuple):
                for x in t.elts:
                    target(x)
            elif isinstance(t, ast.Subscript):
                c = chain(t.value)
                if c:
                    add(c)
            elif isinstance(t, ast.Attribute):
                c = chain(t)
                if c:
                    add(c)

        for s in stmts:
            for n in ast.walk(s):
                if isinstance(n, ast.Assign):
                    for t in n.targets:
                        target(t)
                elif isinstance(n, ast.AugAssign):
                    target(n.target)
                elif isinstance(n, ast.For):
                    target(n.target)
                elif isinstance(n, ast.Call):
                    c = chain(n.func)
                    if c is None:
                        # m[t].append(x)
                        if isinstance(n.func, ast.Attribute) and isinstance(n.func.value, ast.Subscript) and n.func.attr in ("append", "extend"):
                            cc = chain(n.func.value.value)
                            if cc:
                                add(cc)
                        continue
                    obj, _, meth = c.rpartition(".")
                    if obj == "self" and meth in self.done:
                        for d in self.done[meth].state:
                            add(d)
                    elif (self.type_of_name(obj), meth) in MUTATORS:
                        for d in MUTATORS[(self.type_of_name(obj), meth)](obj, self):
                            add(d)
                elif isinstance(n, ast.Subscript) and isinstance(n.ctx, ast.Load):
                    c = chain(n.value)
                    if c and self.type_of_name(c) == "cmat":
                        add(c)           # m[t] may create the row
        return out

    def type_of_name(self, dotted):
        s = self.spec
        if dotted in s.state:
            return s.state[dotted]
        if dotted in s.attrs:
            return s.attrs[dotted]
        if dotted in s.locals:
            return s.locals[dotted]
        for p, t in s.params:
            if p == dotted:
                return t
        return None

    def falls_through(self, stmts):
        if not stmts:
            return True
        last = stmts[-1]
        if isinstance(last, (ast.Continue, ast.Raise, ast.Return)):
            return False
        if isinstance(last, ast.Expr) and isinstance(last.value, ast.Call):
            c = chain(last.value.func)
            if c and c.startswith("self.") and c[5:] in RAISING_HELPERS:
                return False
        if isinstance(last, ast.If):
            return self.falls_through(last.body) or self.falls_through(last.orelse)
        return True

    # ---------------------------------------------------------------- terms for block ends
    def ok(self, term):
        return "Ok %s" % term if self.monadic else term

    def bind(self, names, term, body, can_fail):
        """let/do names := term in body"""
        p = pat(names)
        if can_fail:
            return "do %s <- %s ;;\n%s" % (tup(names), term, body)
        return "let %s := %s in\n%s" % (p, term, body)

    # ---------------------------------------------------------------- expressions
    def var(self, dotted, env, want=None):
        ty = env.ty.get(dotted)
        if ty is None:
            raise Unsupported("unknown name %s" % dotted)
        if ty.startswith("opt:") and want is not None and not want.startswith("opt:"):
            if dotted in env.known:
                return env.known[dotted], ty[4:]
            raise Unsupported("optional %s used where a value is needed without a None test" % dotted)
        return ident(dotted), ty

    def expr(self, e, env, pre, want=None):
        """(term, type); `pre` collects (names, term, can_fail) bindings to be made before the statement"""
        if isinstance(e, ast.Constant):
            v = e.value
            if v is None:
                return "None", "none"
            if isinstance(v, bool):
                return ("true" if v else "false"), "bool"
            if isinstance(v, int):
                return ("(%d)" % v), "int"
            if isinstance(v, str):
                return lit(v), "str"
            bad(e, "constant")
        if isinstance(e, ast.Name) and e.id in self.consts and e.id not in env.ty:
            return "(%d)" % self.consts[e.id], "int"
        c = chain(e)
        if c is not None and c in env.ty:
            return self.var(c, env, want)
        if isinstance(e, ast.Attribute):
            t, ty = self.expr(e.value, env, pre)
            key = (ty, e.attr)
            if key in ATTRS:
                f, rty = ATTRS[key]
                return f % t, rty
            bad(e, "attribute %s of %s" % (e.attr, ty))
        if isinstance(e, ast.UnaryOp):
            if isinstance(e.op, ast.Not):
                t, ty = self.expr(e.operand, env, pre, want="x")
                if ty == "bool":
                    return "(negb %s)" % t, "bool"
                if ty == "str":
                    return "(py_is_empty %s)" % t, "bool"
                bad(e, "not on %s" % ty)
            if isinstance(e.op, ast.USub) and isinstance(e.operand, ast.Constant) and isinstance(e.operand.value, int):
                return "(-%d)" % e.operand.value, "int"
            bad(e, "unary operator")
        if isinstance(e, ast.BoolOp):
            terms = []
            for x in e.values:
                t, ty = self.expr(x, env, pre)
                if ty == "int" and isinstance(x, ast.Call) and isinstance(x.func, ast.Name) and x.func.id == "len":
                    t, ty = "(negb (%s =? 0))" % t, "bool"          # truth value of len(..)
                if ty != "bool":
                    bad(x, "operand of and/or of type %s" % ty)
                terms.append(t)
            op = " && " if isinstance(e.op, ast.And) else " || "
            return "(" + op.join(terms) + ")", "bool"
        if isinstance(e, ast.Compare) and len(e.ops) == 1:
            op, l, r = e.ops[0], e.left, e.comparators[0]
            if isinstance(op, (ast.In, ast.NotIn)):
                lt, lty = self.expr(l, env, pre, want="x")
                if isinstance(r, ast.List):
                    items = [self.expr(x, env, pre)[0] for x in r.elts]
                    t = "(py_in_strs %s [%s])" % (lt, "; ".join(items))
                else:
                    rt, rty = self.expr(r, env, pre)
                    if (rty, "contains") not in PRIMS:
                        bad(e, "`in` on %s" % rty)
                    t = "(%s %s %s)" % (PRIMS[(rty, "contains")], rt, lt)
                return (t if isinstance(op, ast.In) else "(negb %s)" % t), "bool"
            lt, lty = self.expr(l, env, pre, want="x")
            rt, rty = self.expr(r, env, pre, want="x")
            if lty == "int" and rty == "int":
                sym = {ast.Eq: "=?", ast.Lt: "<?", ast.LtE: "<=?"}
                if type(op) in sym:
                    return "(%s %s %s)" % (lt, sym[type(op)], rt), "bool"
                if isinstance(op, ast.NotEq):
                    return "(negb (%s =? %s))" % (lt, rt), "bool"
                if isinstance(op, ast.Gt):
                    return "(%s <? %s)" % (rt, lt), "bool"
                if isinstance(op, ast.GtE):
                    return "(%s <=? %s)" % (rt, lt), "bool"
            if lty == "str" and rty == "str" and isinstance(op, (ast.Eq, ast.NotEq)):
                t = "(py_str_eq %s %s)" % (lt, rt)
                return (t if isinstance(op, ast.Eq) else "(negb %s)" % t), "bool"
            bad(e, "comparison %s %s" % (lty, rty))
        if isinstance(e, ast.BinOp):
            if isinstance(e.op, ast.Mod) and isinstance(e.left, ast.Constant) and isinstance(e.left.value, str):
                return self.percent_format(e, env, pre), "str"
            lt, lty = self.expr(e.left, env, pre, want="x")
            rt, rty = self.expr(e.right, env, pre, want="x")
            if lty == "int" and rty == "int" and isinstance(e.op, (ast.Add, ast.Sub)):
                return "(%s %s %s)" % (lt, "+" if isinstance(e.op, ast.Add) else "-", rt), "int"
            bad(e, "binary operator")
        if isinstance(e, ast.Subscript):
            return self.subscript(e, env, pre)
        if isinstance(e, ast.Call):
            return self.call(e, env, pre)
        if isinstance(e, ast.ListComp) and len(e.generators) == 1 and not e.generators[0].ifs:
            g = e.generators[0]
            it, ity = self.expr(g.iter, env, pre)
            elem = {"strs": "str", "states": "state"}.get(ity)
            if elem is None or not isinstance(g.target, ast.Name):
                bad(e, "list comprehension over %s" % ity)
            env2 = env.copy()
            env2.ty[g.target.id] = elem
            inner_pre = []
            bt, bty = self.expr(e.elt, env2, inner_pre)
            if inner_pre:
                bad(e, "effect inside a comprehension")
            rty = {"int": "ints", "str": "strs"}.get(bty)
            if rty is None:
                bad(e, "comprehension element type %s" % bty)
            return "(map (fun %s => %s) %s)" % (g.target.id, bt, it), rty
        if isinstance(e, ast.List) and not e.elts:
            return "[]", want or "states"
        if isinstance(e, ast.Dict) and not e.keys:
            return "[]", "wdict"
        bad(e, "expression")

    def str_of(self, term, ty, node):
        if ty == "str":
            return term
        if ty == "state":
            return "(py_str_state alpha %s)" % term
        if ty == "int":
            return "(py_int_str %s)" % term
        if ty == "objid":
            self.need_idstr = True
            return "(idstr %s)" % term       # str(id(obj)): an input of the model
        bad(node, "str() of %s" % ty)

    def format_pieces(self, fmt, holes, args, env, pre, node):
        pieces = fmt.split(holes) if isinstance(holes, str) else None
        return pieces

    def percent_format(self, e, env, pre):
        fmt = e.left.value
        args = e.right.elts if isinstance(e.right, ast.Tuple) else [e.right]
        out, i, k = [], 0, 0
        buf = ""
        while i < len(fmt):
            if fmt[i] == "%" and i + 1 < len(fmt) and fmt[i + 1] in "sd":
                if buf:
                    out.append(lit(buf))
                    buf = ""
                if k >= len(args):
                    bad(e, "too few arguments for format")
                t, ty = self.expr(args[k], env, pre, want="x")
                if fmt[i + 1] == "d" and ty != "int":
                    bad(e, "%d of " + ty)
                out.append(self.str_of(t, ty, e))
                k += 1
                i += 2
            elif fmt[i] == "%":
                bad(e, "format directive")
            else:
                buf += fmt[i]
                i += 1
        if buf:
            out.append(lit(buf))
        if k != len(args):
            bad(e, "too many arguments for format")
        return "(" + " ++ ".join(out) + ")" if out else "[]"

    def brace_format(self, fmt, args, env, pre, node):
        pieces = fmt.split("{}")
        if len(pieces) != len(args) + 1 or "{" in "".join(pieces) or "}" in "".join(pieces):
            bad(node, "format string")
        out = []
        for i, p in enumerate(pieces):
            if p:
                out.append(lit(p))
            if i < len(args):
                t, ty = self.expr(args[i], env, pre, want="x")
                out.append(self.str_of(t, ty, node))
        return "(" + " ++ ".join(out) + ")" if out else "[]"

    def subscript(self, e, env, pre):
        sl = e.slice
        c = chain(e.value)
        if isinstance(sl, ast.Slice):
            t, ty = self.expr(e.value, env, pre, want="x")
            if ty == "lines" and sl.step is None and sl.upper is None and sl.lower is not None:
                i, ity = self.expr(sl.lower, env, pre)
                return "(py_list_from %s %s)" % (t, i), "lines"
            if ty != "str" or sl.step is not None:
                bad(e, "slice of %s" % ty)
            if sl.lower is not None and sl.upper is None:
                i, ity = self.expr(sl.lower, env, pre)
                return "(py_slice_from %s %s)" % (t, i), "str"
            if sl.lower is None and sl.upper is not None:
                i, ity = self.expr(sl.upper, env, pre)
                return "(py_slice_to %s %s)" % (t, i), "str"
            bad(e, "slice")
        t, ty = self.expr(e.value, env, pre, want="x")
        k, kty = self.expr(sl, env, pre, want="x")
        if ty == "cmat" and kty in ("taxon", "ref"):
            if c is None:
                bad(e, "matrix expression")
            v = self.fresh("row")
            pre.append(([ident(c), v], "cm_getitem %s %s" % (t, k), False))
            return v, "states"
        if ty == "wmatrix" and kty == "wtaxon":
            return "(wm_getitem %s %s)" % (t, k), "states"
        if ty == "wdict" and kty in ("wtaxon", "wkey", "block"):
            v = self.fresh("item")
            key = "(wt_key %s)" % k if kty == "wtaxon" else k
            pre.append(([v], "wdict_get %s %s" % (t, key), True))
            return v, "str"
        if ty == "lines" and kty == "int":
            v = self.fresh("item")
            pre.append(([v], "py_list_get %s %s" % (t, k), True))
            return v, "str"
        if ty == "strs" and kty == "int":
            v = self.fresh("item")
            pre.append(([v], "py_list_get %s %s" % (t, k), True))
            return v, "str"
        if ty == "tns" and kty == "int":
            v = self.fresh("item")
            pre.append(([v], "tns_getitem %s %s" % (t, k), True))
            return v, "taxon"
        if ty == "alphabet" and kty == "str":
            v = self.fresh("item")
            pre.append(([v], "py_symbol_lookup %s %s" % (t, k), True))
            return v, "state"
        bad(e, "subscript %s[%s]" % (ty, kty))

    def call(self, e, env, pre):
        f = e.func
        if isinstance(f, ast.Name):
            if f.id == "len" and len(e.args) == 1:
                t, ty = self.expr(e.args[0], env, pre, want="x")
                if (ty, "len") in PRIMS:
                    return "(%s %s)" % (PRIMS[(ty, "len")], t), "int"
                if ty == "ref" and chain(e.args[0]) in REF_OWNER:
                    return "(cm_len_of %s %s)" % (ident(REF_OWNER[chain(e.args[0])]), t), "int"
                bad(e, "len of %s" % ty)
            if f.id == "str" and len(e.args) == 1:
                t, ty = self.expr(e.args[0], env, pre, want="x")
                return self.str_of(t, ty, e), "str"
            if f.id == "id" and len(e.args) == 1:
                t, ty = self.expr(e.args[0], env, pre, want="x")
                if ty != "block":
                    bad(e, "id of %s" % ty)
                return t, "objid"          # an object is represented by its identity
            if f.id == "max" and len(e.args) == 1:
                t, ty = self.expr(e.args[0], env, pre)
                if ty != "ints":
                    bad(e, "max of %s" % ty)
                v = self.fresh("mx")
                pre.append(([v], "py_max %s" % t, True))
                return v, "int"
            if f.id == "int" and len(e.args) == 1:
                a0 = e.args[0]
                # int(m.groups()[k]) for the match object of the description line
                if isinstance(a0, ast.Subscript) and isinstance(a0.value, ast.Call) and isinstance(a0.value.func, ast.Attribute) \
                        and a0.value.func.attr == "groups" and isinstance(a0.slice, ast.Constant) and a0.slice.value in (0, 1):
                    mt, mty = self.expr(a0.value.func.value, env, pre, want="x")
                    if mty != "descmatch":
                        bad(e, "groups() of %s" % mty)
                    return "(%s %s)" % ("fst" if a0.slice.value == 0 else "snd", mt), "int"
            bad(e, "builtin %s" % f.id)
        if isinstance(f, ast.Attribute):
            # literal.format(...) / literal.join(generator)
            if isinstance(f.value, ast.Constant) and isinstance(f.value.value, str):
                if f.attr == "format":
                    return self.brace_format(f.value.value, e.args, env, pre, e), "str"
                if f.attr == "join" and len(e.args) == 1 and isinstance(e.args[0], ast.GeneratorExp):
                    g = e.args[0]
                    lc = ast.ListComp(elt=g.elt, generators=g.generators)
                    t, ty = self.expr(lc, env, pre)
                    if ty != "strs":
                        bad(e, "join of %s" % ty)
                    return "(py_join %s %s)" % (lit(f.value.value), t), "str"
            c = chain(f)
            if c and c.startswith("self.") and c[5:] in self.done and not self.done[c[5:]].monadic \
                    and not self.done[c[5:]].state and not e.args and not e.keywords:
                # a translated method without effects, as an expression
                callee = self.done[c[5:]]
                ro = [self.expr(ast.parse(d, mode="eval").body, env, pre)[0] for d in callee.ro_attrs]
                extra = [n for n, _ in callee.spec.extra_params]
                return "(%s %s)" % (callee.spec.out_name, " ".join(extra + ro)), callee.spec.ret
            if c == "nexusprocessing.escape_nexus_token" and len(e.args) == 1 \
                    and [k_.arg for k_ in e.keywords] == ["preserve_spaces", "quote_underscores"]:
                t, ty = self.expr(e.args[0], env, pre, want="x")
                kt = [self.expr(k_.value, env, pre, want="x") for k_ in e.keywords]
                if ty != "str" or [x[1] for x in kt] != ["bool", "bool"]:
                    bad(e, "escape_nexus_token arguments")
                self.need_esc = True
                return "(esc %s %s %s)" % (kt[0][0], kt[1][0], t), "str"
            if c == "re.match" and len(e.args) == 2 and isinstance(e.args[0], ast.Constant) \
                    and e.args[0].value == r'\s*(\d+)\s+(\d+)\s*$':
                t, ty = self.expr(e.args[1], env, pre, want="x")
                return "(py_match_desc %s)" % t, "opt:descmatch"
            if c == "textprocessing.unique_taxon_label_map" and len(e.args) == 3:
                _ns, nty = self.expr(e.args[0], env, pre, want="x")
                d, dty = self.expr(e.args[1], env, pre, want="x")
                n, nty2 = self.expr(e.args[2], env, pre, want="x")
                if dty != "wdict" or nty2 != "int":
                    bad(e, "unique_taxon_label_map arguments")
                v = self.fresh("uniq")
                pre.append(([v], "py_unique_taxon_label_map %s %s" % (d, n), True))
                return v, "wdict"
            if c == "self.taxon_label_fn" and len(e.args) == 1:
                t, ty = self.expr(e.args[0], env, pre, want="x")
                if ty != "wtaxon":
                    bad(e, "taxon_label_fn of %s" % ty)
                return "(wt_label %s)" % t, "str"
            if c == "re.split" and len(e.args) == 2 and isinstance(e.args[0], ast.Constant):
                k = {"[ \t]{2,}": 2, "[ \t]{1,}": 1}.get(e.args[0].value)
                kws = {k_.arg: k_.value for k_ in e.keywords}
                if k is None or set(kws) != {"maxsplit"} or not (isinstance(kws["maxsplit"], ast.Constant) and kws["maxsplit"].value == 1):
                    bad(e, "re.split pattern")
                t, ty = self.expr(e.args[1], env, pre, want="x")
                return "(py_re_split_blanks %d %s)" % (k, t), "strs"
            ot, oty = self.expr(f.value, env, pre, want="x")
            key = (oty, f.attr)
            if key in PRIMS:
                args = [self.expr(a, env, pre, want="x")[0] for a in e.args]
                args += [self.expr(k_.value, env, pre, want="x")[0] for k_ in e.keywords]
                prim, rty, nargs = PRIMS[key]
                if len(args) != nargs:
                    bad(e, "arity of %s.%s" % key)
                return "(%s %s%s)" % (prim, ot, "".join(" " + a for a in args)), rty
            bad(e, "method %s of %s" % (f.attr, oty))
        bad(e, "call")

    # ---------------------------------------------------------------- statements
    def emit_pre(self, pre, body):
        for names, term, can_fail in reversed(pre):
            body = self.bind(names, term, body, can_fail)
        return body

    def block(self, stmts, env, kont, loop_kont=None):
        """term for `stmts` followed by kont(env)"""
        if not stmts:
            return kont(env)
        s, rest = stmts[0], stmts[1:]
        nxt = lambda env2: self.block(rest, env2, kont, loop_kont)
        if isinstance(s, ast.Continue):
            if loop_kont is None:
                bad(s, "continue outside a loop")
            return loop_kont(env)
        if isinstance(s, ast.Pass):
            return nxt(env)
        if isinstance(s, ast.Raise):
            return self.raise_term(s)
        if isinstance(s, ast.Return):
            return self.return_term(s, env)
        if isinstance(s, ast.Expr):
            return self.expr_stmt(s, env, nxt)
        if isinstance(s, ast.Assign) and len(s.targets) == 1:
            return self.assign(s.targets[0], s.value, env, nxt, s)
        if isinstance(s, ast.AugAssign) and isinstance(s.target, ast.Name) and isinstance(s.op, ast.Add):
            fake = ast.BinOp(left=ast.Name(id=s.target.id, ctx=ast.Load()), op=ast.Add(), right=s.value)
            return self.assign(s.target, fake, env, nxt, s)
        if isinstance(s, ast.If):
            return self.if_stmt(s, env, nxt, kont, loop_kont, rest)
        if isinstance(s, ast.For):
            return self.for_stmt(s, env, nxt)
        if isinstance(s, ast.Try):
            return self.try_stmt(s, env, nxt, loop_kont)
        if isinstance(s, ast.While):
            return self.while_stmt(s, env, nxt)
        bad(s, "statement")

    def raise_term(self, s):
        if not self.monadic:
            bad(s, "raise in a method classified as not raising")
        exc = s.exc
        if isinstance(exc, ast.Call):
            c = chain(exc.func)
            name = c.split(".")[-1] if c else None
            if name in EXC:
                return "Err %s" % EXC[name]
            if c and c.startswith("self.") and c[5:] in ERROR_FACTORIES:
                return "Err %s" % ERROR_FACTORIES[c[5:]]
        bad(s, "raise")

    def return_term(self, s, env):
        parts = [ident(d) for d in self.state]
        if s.value is None:
            pass
        elif isinstance(s.value, ast.Tuple):
            parts += [self.expr(x, env, [], want="x")[0] for x in s.value.elts]
        else:
            pre = []
            t, ty = self.expr(s.value, env, pre, want="x")
            ret = self.spec.ret
            if isinstance(ret, str) and ret.startswith("opt:"):
                if ty == "none":
                    t = "None"
                elif ty == ret[4:]:
                    t = "(Some %s)" % t
                else:
                    bad(s, "return of %s where %s is declared" % (ty, ret))
            elif pre:
                bad(s, "effect in a returned expression")
            parts.append(t)
            return self.emit_pre(pre, self.ok(tup(parts)))
        return self.ok(tup(parts) if parts else "tt")

    def expr_stmt(self, s, env, nxt):
        e = s.value
        if isinstance(e, ast.Constant) and isinstance(e.value, str):
            return nxt(env)                                  # docstring
        if not isinstance(e, ast.Call):
            bad(s, "expression statement")
        c = chain(e.func)
        # self._helper_that_raises(...)
        if c and c.startswith("self.") and c[5:] in RAISING_HELPERS:
            return "Err %s" % RAISING_HELPERS[c[5:]]
        # self.method(...) of a translated method, result unused
        if c and c.startswith("self.") and c[5:] in self.done:
            return self.method_call(c[5:], e, [], env, nxt, s)
        # m[t].append(x)
        if isinstance(e.func, ast.Attribute) and isinstance(e.func.value, ast.Subscript) and e.func.attr == "append":
            sub = e.func.value
            mc = chain(sub.value)
            pre = []
            mt, mty = self.expr(sub.value, env, pre, want="x")
            kt, kty = self.expr(sub.slice, env, pre, want="x")
            xt, xty = self.expr(e.args[0], env, pre, want="x")
            if mty != "cmat" or mc is None:
                bad(s, "append through a subscript of %s" % mty)
            body = self.bind([ident(mc)], "cm_extend %s %s [%s]" % (mt, kt, xt), nxt(env), False)
            return self.emit_pre(pre, body)
        if c is None:
            bad(s, "call statement")
        obj, _, meth = c.rpartition(".")
        oty = env.ty.get(obj)
        pre = []
        args = [self.expr(a, env, pre, want="x") for a in e.args]
        if (oty, meth) == ("stream", "write"):
            body = self.bind([ident(obj)], "%s ++ %s" % (ident(obj), args[0][0]), nxt(env), False)
            return self.emit_pre(pre, body)
        if (oty, meth) == ("states", "append"):
            body = self.bind([ident(obj)], "%s ++ [%s]" % (ident(obj), args[0][0]), nxt(env), False)
            return self.emit_pre(pre, body)
        if (oty, meth) == ("taxset", "add"):
            body = self.bind([ident(obj)], "set_add %s %s" % (ident(obj), args[0][0]), nxt(env), False)
            return self.emit_pre(pre, body)
        if oty is not None and oty.startswith("opt:ref") or oty == "ref":
            if meth == "extend":
                v, _ = self.var(obj, env, want="x")
                owner = REF_OWNER[obj]
                body = self.bind([ident(owner)], "cm_extend %s %s %s" % (ident(owner), v, args[0][0]), nxt(env), False)
                return self.emit_pre(pre, body)
        bad(s, "call statement %s.%s on %s" % (obj, meth, oty))

    def method_call(self, meth, e, targets, env, nxt, node):
        callee = self.done[meth]
        pre = []
        args = []
        for (pname, pty), a in zip(callee.spec.params, e.args):
            if pty != "skip":
                args.append(self.expr(a, env, pre, want="x")[0])
        ro = [self.expr(ast.parse(d, mode="eval").body, env, pre, want="x")[0] for d in callee.ro_attrs]
        extra = [n for n, _ in callee.spec.extra_params]
        st_in = [ident(d) for d in callee.state]
        term = "%s %s" % (callee.spec.out_name, " ".join(extra + ro + st_in + args))
        outs = [ident(d) for d in callee.state] + targets
        env2 = env.copy()
        return self.emit_pre(pre, self.bind(outs if outs else ["_"], term, nxt(env2), callee.monadic))

    def assign(self, target, value, env, nxt, node):
        # a, b = self.method(...)
        if isinstance(target, ast.Tuple) and isinstance(value, ast.Call):
            c = chain(value.func)
            if c and c.startswith("self.") and c[5:] in self.done:
                names = []
                env2 = env.copy()
                post = []
                for t in target.elts:
                    if not isinstance(t, ast.Name):
                        bad(node, "tuple target")
                    ty = env2.ty.get(t.id) or self.spec.locals.get(t.id)
                    if ty and ty.startswith("opt:"):
                        v = self.fresh(t.id)
                        names.append(v)
                        post.append((t.id, v, ty))
                    else:
                        names.append(t.id)
                        env2.ty[t.id] = ty
                callee = self.done[c[5:]]
                pre = []
                args = [self.expr(a, env, pre, want="x")[0]
                        for (pn, pt), a in zip(callee.spec.params, value.args) if pt != "skip"]
                ro = [self.expr(ast.parse(d, mode="eval").body, env, pre, want="x")[0] for d in callee.ro_attrs]
                extra = [n for n, _ in callee.spec.extra_params]
                st_in = [ident(d) for d in callee.state]
                term = "%s %s" % (callee.spec.out_name, " ".join(extra + ro + st_in + args))
                outs = [ident(d) for d in callee.state] + names

                def after(env3):
                    body = nxt(env3)
                    return body
                for (py, v, ty) in post:
                    env2.ty[py] = ty
                    env2.known[py] = v
                body = nxt(env2)
                for (py, v, ty) in reversed(post):
                    body = "let %s := Some %s in\n%s" % (py, v, body)
                return self.emit_pre(pre, self.bind(outs, term, body, callee.monadic))
        # m[t] = m.new_sequence(taxon=t)      d[k] = v
        if isinstance(target, ast.Subscript):
            c = chain(target.value)
            pre = []
            ot, oty = self.expr(target.value, env, pre, want="x")
            kt, kty = self.expr(target.slice, env, pre, want="x")
            if oty == "cmat" and isinstance(value, ast.Call) and chain(value.func) == c + ".new_sequence":
                body = self.bind([ident(c)], "cm_set %s %s []" % (ot, kt), nxt(env), False)
                return self.emit_pre(pre, body)
            if oty == "tdict":
                vt, vty = self.expr(value, env, pre, want="x")
                if kty != "str" or vty != "block":
                    bad(node, "title dict entry %s -> %s" % (kty, vty))
                body = self.bind([ident(c)], "tdict_set %s %s %s" % (ot, kt, vt), nxt(env), False)
                return self.emit_pre(pre, body)
            if oty == "wdict":
                vt, vty = self.expr(value, env, pre, want="x")
                if vty != "str":
                    bad(node, "dict value of type %s" % vty)
                key = "(wt_key %s)" % kt if kty == "wtaxon" else kt
                body = self.bind([ident(c)], "wdict_set %s %s %s" % (ot, key, vt), nxt(env), False)
                return self.emit_pre(pre, body)
            bad(node, "subscript assignment on %s" % oty)
        c = chain(target)
        if c is None:
            bad(node, "assignment target")
        declared = self.type_of_name(c)
        if declared is None:
            bad(node, "assignment to undeclared %s" % c)
        if declared == "skip":
            return nxt(env)
        pre = []
        # x = obj.require_taxon(label=e)
        if isinstance(value, ast.Call) and isinstance(value.func, ast.Attribute) and value.func.attr == "require_taxon":
            oc = chain(value.func.value)
            ot, oty = self.expr(value.func.value, env, pre, want="x")
            if oty != "tns" or oc is None or len(value.keywords) != 1 or value.keywords[0].arg != "label" or value.args:
                bad(node, "require_taxon call")
            lt, lty = self.expr(value.keywords[0].value, env, pre, want="x")
            return self.emit_pre(pre, self.bind_value(c, declared, "tns_require_taxon lower %s %s" % (ot, lt), env, nxt,
                                                      extra_out=ident(oc)))
        # v = m[t]  for a reference variable
        if declared in ("ref", "opt:ref") and isinstance(value, ast.Subscript):
            mc = chain(value.value)
            mt, mty = self.expr(value.value, env, pre, want="x")
            kt, kty = self.expr(value.slice, env, pre, want="x")
            if mty != "cmat" or mc is None:
                bad(node, "reference into %s" % mty)
            dummy = self.fresh("row")
            body = self.bind([ident(mc), dummy], "cm_getitem %s %s" % (mt, kt),
                             self.bind_value(c, declared, kt, env, nxt), False)
            return self.emit_pre(pre, body)
        if isinstance(value, ast.Call):
            cc = chain(value.func)
            if cc and cc.startswith("self.") and cc[5:] in self.done:
                return self.method_call(cc[5:], value, [ident(c)], self.with_type(env, c, declared), nxt, node)
        vt, vty = self.expr(value, env, pre, want=declared)
        if vty == "none":
            if not declared.startswith("opt:"):
                bad(node, "None assigned to non-optional %s" % c)
            env2 = env.copy()
            env2.ty[c] = declared
            env2.known.pop(c, None)
            return self.emit_pre(pre, self.bind([ident(c)], "None", nxt(env2), False))
        if declared.startswith("opt:") and vty == declared:
            env2 = env.copy()
            env2.ty[c] = declared
            env2.known.pop(c, None)
            return self.emit_pre(pre, self.bind([ident(c)], vt, nxt(env2), False))
        base = declared[4:] if declared.startswith("opt:") else declared
        if vty != base and not (base in ("states", "strs") and vt == "[]"):
            bad(node, "value of type %s assigned to %s : %s" % (vty, c, declared))
        return self.emit_pre(pre, self.bind_value(c, declared, vt, env, nxt))

    def with_type(self, env, c, ty):
        env2 = env.copy()
        env2.ty[c] = ty
        return env2

    def bind_value(self, c, declared, term, env, nxt, extra_out=None):
        env2 = env.copy()
        env2.ty[c] = declared
        if declared.startswith("opt:"):
            v = self.fresh(ident(c))
            env2.known[c] = v
            outs = ([extra_out] if extra_out else []) + [v]
            return self.bind(outs, term, "let %s := Some %s in\n%s" % (ident(c), v, nxt(env2)), False)
        env2.known.pop(c, None)
        outs = ([extra_out] if extra_out else []) + [ident(c)]
        return self.bind(outs, term, nxt(env2), False)

    def cond(self, test, env, pre):
        """returns ('bool', term) or ('isnone', var, positive)"""
        if isinstance(test, ast.Compare) and len(test.ops) == 1 and isinstance(test.comparators[0], ast.Constant) \
                and test.comparators[0].value is None and isinstance(test.ops[0], (ast.Is, ast.IsNot)):
            c = chain(test.left)
            if c and env.ty.get(c, "").startswith("opt:"):
                return ("isnone", c, isinstance(test.ops[0], ast.Is))
        if isinstance(test, ast.BoolOp) and isinstance(test.op, ast.And) and len(test.values) == 2:
            a = self.cond(test.values[0], env, pre)
            if a[0] == "isnone" and not a[2]:
                # v is not None and rest(v)
                c = a[1]
                v = self.fresh(ident(c))
                env2 = env.copy()
                env2.known[c] = v
                inner = []
                t, ty = self.expr(test.values[1], env2, inner, want="bool")
                if inner or ty != "bool":
                    bad(test, "guarded condition")
                return ("bool", "(match %s with Some %s => %s | None => false end)" % (ident(c), v, t))
        if isinstance(test, ast.UnaryOp) and isinstance(test.op, ast.Not):
            c = chain(test.operand)
            if c and env.ty.get(c) == "opt:str" and c not in env.known:
                return ("falsy", c, True)       # None or the empty string
        t, ty = self.expr(test, env, pre, want="bool")
        if ty == "str":
            t, ty = "(negb (py_is_empty %s))" % t, "bool"
        if ty != "bool":
            bad(test, "condition of type %s" % ty)
        return ("bool", t)

    def if_stmt(self, s, env, nxt, kont, loop_kont, rest):
        pre = []
        c = self.cond(s.test, env, pre)
        ft_body, ft_else = self.falls_through(s.body), self.falls_through(s.orelse)

        def branch(stmts, env_b, k):
            return self.block(stmts, env_b, k, loop_kont)

        if ft_body and ft_else:
            before = set(env.ty)
            a1, a2 = self.assigned(s.body), self.assigned(s.orelse)
            join = [x for x in a1 + [y for y in a2 if y not in a1]
                    if (x in before or (x in a1 and x in a2)) and self.type_of_name(x) not in (None, "skip")]
            if not join:
                # nothing assigned that survives: the branches only matter for their exceptions
                join = []
            names = [ident(x) for x in join]
            # first pass: which optional variables are known to hold a value at the end of every branch
            probe = []
            saved_n = self.n

            def rec(env_b):
                probe.append(env_b)
                return "tt"
            if c[0] == "bool":
                branch(s.body, env.copy(), rec)
                branch(s.orelse, env.copy(), rec)
            elif c[0] == "falsy":
                e_some = env.copy()
                e_some.known[c[1]] = "probe"
                branch(s.body, env.copy(), rec)
                branch(s.orelse, e_some, rec)
            else:
                e_some = env.copy()
                e_some.known[c[1]] = "probe"
                branch(s.body if c[2] else s.orelse, env.copy(), rec)
                branch(s.orelse if c[2] else s.body, e_some, rec)
            self.n = saved_n
            allknown = [x for x in join if (self.type_of_name(x) or "").startswith("opt:")
                        and probe and all(x in eb.known for eb in probe)]
            jnames = {x: (self.fresh(ident(x)) if x in allknown else ident(x)) for x in join}
            names = [jnames[x] for x in join]

            def end(env_b):
                vals = []
                for x in join:
                    if x not in env_b.ty:
                        raise Unsupported("%s not assigned in a branch" % x)
                    vals.append(env_b.known[x] if x in allknown else ident(x))
                return self.ok(tup(vals) if vals else "tt")
            envs = []

            def endk(env_b):
                envs.append(env_b)
                return end(env_b)
            if c[0] == "bool":
                tb = branch(s.body, env.copy(), endk)
                te = branch(s.orelse, env.copy(), endk)
                term = "(if %s then\n%s\nelse\n%s)" % (c[1], tb, te)
            elif c[0] == "falsy":
                # `not x` for an optional string: x is None, or x is the empty string
                v = self.fresh(ident(c[1]))
                env_some = env.copy()
                env_some.known[c[1]] = v
                t_none = branch(s.body, env.copy(), endk)
                t_empty = branch(s.body, env.copy(), endk)
                t_some = branch(s.orelse, env_some, endk)
                term = ("(match %s with\n| None =>\n%s\n| Some %s =>\nif py_is_empty %s then\n%s\nelse\n%s\nend)"
                        % (ident(c[1]), t_none, v, v, t_empty, t_some))
            else:
                v = self.fresh(ident(c[1]))
                env_some = env.copy()
                env_some.known[c[1]] = v
                env_none = env.copy()
                t_none = branch(s.body if c[2] else s.orelse, env_none, endk)
                t_some = branch(s.orelse if c[2] else s.body, env_some, endk)
                term = "(match %s with\n| None =>\n%s\n| Some %s =>\n%s\nend)" % (ident(c[1]), t_none, v, t_some)
            env2 = env.copy()
            for x in join:
                env2.ty[x] = self.type_of_name(x)
                env2.known.pop(x, None)
                if x in allknown:
                    env2.known[x] = jnames[x]
            body = nxt(env2)
            for x in reversed(allknown):
                body = "let %s := Some %s in\n%s" % (ident(x), jnames[x], body)
            if not names:
                names = ["_"]
            return self.emit_pre(pre, self.bind(names, term, body, self.monadic))
        # at least one branch does not fall through: the rest of the block continues the other one
        def cont_rest(env_b):
            return nxt(env_b)

        def dead(env_b):
            raise Unsupported("internal: fall-through of a terminal branch")
        kb = cont_rest if ft_body else dead
        ke = cont_rest if ft_else else dead
        if c[0] == "falsy":
            bad(s, "`not <optional string>` with a branch that does not fall through")
        if c[0] == "bool":
            tb = branch(s.body, env.copy(), kb)
            te = branch(s.orelse, env.copy(), ke) if (s.orelse or ft_else) else None
            term = "if %s then\n%s\nelse\n%s" % (c[1], tb, te)
        else:
            v = self.fresh(ident(c[1]))
            env_some = env.copy()
            env_some.known[c[1]] = v
            body_none, body_some = (s.body, s.orelse) if c[2] else (s.orelse, s.body)
            k_none, k_some = (kb, ke) if c[2] else (ke, kb)
            t_none = branch(body_none, env.copy(), k_none)
            t_some = branch(body_some, env_some, k_some)
            term = "match %s with\n| None =>\n%s\n| Some %s =>\n%s\nend" % (ident(c[1]), t_none, v, t_some)
        return self.emit_pre(pre, term)

    def for_stmt(self, s, env, nxt):
        if s.orelse:
            bad(s, "for-else")
        pre = []
        it = s.iter
        target = s.target
        # enumerate(xs): the index is only used in messages
        if isinstance(it, ast.Call) and isinstance(it.func, ast.Name) and it.func.id == "enumerate" and len(it.args) == 1:
            if not (isinstance(target, ast.Tuple) and len(target.elts) == 2):
                bad(s, "enumerate target")
            idx, target = target.elts
            if self.type_of_name(idx.id) != "skip":
                bad(s, "index of enumerate must be declared skip (used only in messages)")
            it = it.args[0]
        if not isinstance(target, ast.Name):
            bad(s, "loop target")
        xs, xty = self.expr(it, env, pre, want="x")
        elem = ITER.get(xty)
        if elem is None:
            bad(s, "iteration over %s" % xty)
        if isinstance(elem, tuple):
            xs, elem = elem[0] % xs, elem[1]
        env_b = env.copy()
        env_b.ty[target.id] = elem
        env_b.known = {}
        carried = [x for x in self.assigned(s.body) if x in env.ty and x != target.id and env.ty[x] != "skip"]
        names = [ident(x) for x in carried]
        if not names:
            bad(s, "loop without effect")
        end = lambda env_e: self.ok(tup(names))
        body = self.block(s.body, env_b, end, loop_kont=end)
        fe = "for_each_res" if self.monadic else "for_each"
        cty = " * ".join(coq_ty(env.ty[x]) for x in carried)
        if len(names) > 1:
            term = "%s %s (fun %s (carried_ : %s) => let %s := carried_ in\n%s) %s" % (
                fe, xs, target.id, cty, pat(names), body, tup(names))
        else:
            term = "%s %s (fun %s (%s : %s) =>\n%s) %s" % (fe, xs, target.id, names[0], cty, body, tup(names))
        env2 = env.copy()
        for x in carried:
            env2.known.pop(x, None)
        return self.emit_pre(pre, self.bind(names, term, nxt(env2), self.monadic))

    def while_stmt(self, s, env, nxt):
        """while cond: body   (no break / continue / return inside) as a fuelled loop over the carried variables"""
        if s.orelse:
            bad(s, "while-else")
        for n in ast.walk(s):
            if isinstance(n, (ast.Break, ast.Continue, ast.Return)):
                bad(n, "break / continue / return inside while")
        carried = [x for x in self.assigned(s.body) if x in env.ty and env.ty[x] != "skip"]
        if not carried:
            bad(s, "loop without effect")
        for x in carried:
            if env.ty[x].startswith("opt:"):
                bad(s, "optional variable carried through a while loop")
        names = [ident(x) for x in carried]
        env_b = env.copy()
        env_b.known = {k: v for k, v in env.known.items() if k not in carried}
        cpre = []
        c = self.cond(s.test, env_b, cpre)
        if c[0] != "bool" or cpre:
            bad(s, "loop condition with an effect")
        end = lambda env_e: self.ok(tup(names))
        body = self.block(s.body, env_b, end)
        cty = " * ".join(coq_ty(env.ty[x]) for x in carried)
        if len(names) > 1:
            opener = "fun (carried_ : %s) => let %s := carried_ in" % (cty, pat(names))
        else:
            opener = "fun (%s : %s) =>" % (names[0], cty)
        self.need_fuel = True
        term = "while_res fuel_ (%s\n%s) (%s\n%s) %s" % (opener, c[1], opener, body, tup(names))
        env2 = env.copy()
        for x in carried:
            env2.known.pop(x, None)
        return self.emit_pre([], self.bind(names, term, nxt(env2), True))

    def try_stmt(self, s, env, nxt, loop_kont):
        if len(s.body) != 1 or not isinstance(s.body[0], ast.Assign) or len(s.handlers) != 1 or s.finalbody:
            bad(s, "try shape")
        a = s.body[0]
        h = s.handlers[0]
        if not (isinstance(a.targets[0], ast.Name) and isinstance(h.type, ast.Name) and h.type.id in EXC):
            bad(s, "try shape")
        x = a.targets[0].id
        ty = self.type_of_name(x)
        pre = []
        vt, vty = self.expr(a.value, env, pre, want=ty)
        if not pre or pre[-1][0] != [vt] or not pre[-1][2] or vty != ty:
            bad(s, "the tried expression must be a single raising lookup")
        names, term, _ = pre.pop()
        env_ok = env.copy()
        env_ok.ty[x] = ty
        t_ok = self.block(s.orelse, env_ok, nxt, loop_kont) if s.orelse else nxt(env_ok)
        t_h = self.block(h.body, env.copy(), nxt, loop_kont)
        m = ("match %s with\n| Ok %s =>\n%s\n| Err %s =>\n%s\n| Err e_ => Err e_\n| OutOfFuel => OutOfFuel\nend"
             % (term, x, t_ok, EXC[h.type.id], t_h))
        return self.emit_pre(pre, m)

    # ---------------------------------------------------------------- the method
    def compile(self):
        spec, fn = self.spec, self.fn
        body = list(fn.body)
        if body and isinstance(body[0], ast.Expr) and isinstance(body[0].value, ast.Constant):
            body = body[1:]
        notes = []
        for s in body[:spec.skip_prefix]:
            check_setup(s)
            notes.append("line %d: object construction, not translated" % s.lineno)
        body = body[spec.skip_prefix:]
        if spec.branch is not None:
            which, attr, literal = spec.branch
            top = body[0] if len(body) == 1 else None
            if not (isinstance(top, ast.If) and isinstance(top.test, ast.Compare) and chain(top.test.left) == attr
                    and isinstance(top.test.ops[0], ast.Eq) and isinstance(top.test.comparators[0], ast.Constant)
                    and top.test.comparators[0].value == literal and which == "else"):
                raise Unsupported("%s: expected a single top-level `if %s == %r`" % (spec.name, attr, literal))
            notes.append("line %d: the branch `%s == %r` is not translated" % (top.lineno, attr, literal))
            body = top.orelse
        if spec.stop_at is not None:
            for i, s in enumerate(body):
                if isinstance(s, ast.Assign) and chain(s.targets[0]) == spec.stop_at:
                    for t in body[i:]:
                        check_tail(t)
                    body = body[:i]
                    break
            else:
                raise Unsupported("%s: statement assigning %s not found" % (spec.name, spec.stop_at))
        env = Env()
        for p, t in spec.params:
            if t != "skip":
                env.ty[p] = t
        self.ro_attrs = [d for d in spec.attrs if self.uses(fn, d)]
        for d in self.ro_attrs:
            env.ty[d] = spec.attrs[d]
        for d in self.state:
            env.ty[d] = spec.state[d]
        ret_missing = not any(isinstance(n, ast.Return) for n in ast.walk(fn)) or spec.stop_at is not None
        end = (lambda env_e: self.ok(tup([ident(d) for d in self.state]) if self.state else "tt")) if ret_missing else \
            (lambda env_e: self.ok(tup([ident(d) for d in self.state]) if self.state else "tt"))
        term = self.block(body, env, end)
        for d, t in reversed(spec.init):
            term = "let %s := %s in\n%s" % (ident(d), t, term)
        params = list(spec.extra_params)
        if getattr(self, "need_esc", False):
            params.append(("esc", "bool -> bool -> text -> text"))     # nexusprocessing.escape_nexus_token (C02's layer)
        if getattr(self, "need_idstr", False):
            params.append(("idstr", "nat -> text"))                    # str(id(obj))
        if getattr(self, "need_fuel", False):
            params.append(("fuel_", "nat"))                            # bound on the iterations of `while`
        self.auto_params = [n for n, _ in params[len(spec.extra_params):]]
        params += [(ident(d), coq_ty(spec.attrs[d])) for d in self.ro_attrs]
        params += [(ident(d), coq_ty(spec.state[d])) for d in self.state if d not in dict(spec.init)]
        params += [(p, coq_ty(t)) for p, t in spec.params if t != "skip"]
        sig = " ".join("(%s : %s)" % x for x in params)
        hdr = "(* %s.%s  (%s, line %d)%s *)" % (spec.cls, spec.name, spec.file, fn.lineno,
                                               "".join("\n   " + n for n in notes))
        return "%s\nDefinition %s %s :=\n%s.\n" % (hdr, spec.out_name, sig, term)

    def uses(self, fn, dotted):
        for n in ast.walk(fn):
            if chain(n) == dotted:
                return True
            if isinstance(n, ast.Call):
                c = chain(n.func)
                if c and c.startswith("self.") and c[5:] in self.done and dotted in self.done[c[5:]].ro_attrs:
                    return True
        return False


def check_setup(s):
    """statements of a reader's preamble that build the objects the translation takes as given"""
    ok = False
    if isinstance(s, ast.Assign) and isinstance(s.value, ast.Call):
        c = chain(s.value.func) or ""
        ok = c.endswith("_factory") or c in ("filesys.get_lines",)
    if isinstance(s, ast.Expr) and isinstance(s.value, ast.Call) and chain(s.value.func) == "self.reset":
        ok = True
    if isinstance(s, ast.Assign) and chain(s.targets[0]) in ("self.stream", "symbol_state_map"):
        ok = True
    if isinstance(s, ast.If):
        # `if self.data_type is None: raise TypeError` and the choice of the matrix constructor
        ok = all(isinstance(n, (ast.If, ast.Raise, ast.Assign, ast.Expr, ast.Call, ast.Compare, ast.BoolOp, ast.Attribute,
                                ast.Name, ast.Constant, ast.keyword, ast.Load, ast.Store, ast.Is, ast.IsNot, ast.Eq,
                                ast.And, ast.expr_context))
                 for n in ast.walk(s))
    if not ok:
        bad(s, "unexpected statement in the object-construction prefix")


def check_tail(s):
    ok = isinstance(s, ast.Return) or (isinstance(s, ast.Assign) and isinstance(s.value, ast.Call)
                                       and (chain(s.value.func) or "").endswith("Product"))
    if not ok:
        bad(s, "unexpected statement after the translated part")


# --------------------------------------------------------------------------------------------
# tables: primitives per (type, method / builtin)
# --------------------------------------------------------------------------------------------
PRIMS = {
    ("str", "strip"): ("py_strip", "str", 0), ("str", "rstrip"): ("py_rstrip", "str", 0),
    ("str", "startswith"): ("py_startswith", "bool", 1), ("str", "replace"): ("py_replace1", "str", 2),
    ("str", "ljust"): ("py_ljust", "str", 1),
    ("str", "upper"): ("upper", "str", 0),          # str.upper: a function parameter (UPPER) of the translated method
    ("states", "symbols_as_string"): ("py_symbols_as_string alpha", "str", 0),
    ("wdict", "values"): ("wdict_values", "strs", 0),
    ("str", "len"): "py_len_str", ("strs", "len"): "len", ("states", "len"): "len", ("wmatrix", "len"): "wm_len",
    ("tns", "len"): "tns_len", ("nslist", "len"): "len", ("taxset", "len"): "set_len", ("lines", "len"): "len",
    ("cmat", "contains"): "cm_contains", ("wmatrix", "contains"): "wm_contains",
    ("wdict", "contains"): "wdict_contains", ("tdict", "contains"): "tdict_contains",
}
ATTRS = {("wtaxon", "label"): ("(wt_label %s)", "str"),
         ("wmatrix", "max_sequence_size"): ("(wm_max_sequence_size %s)", "int"),
         ("wmatrix", "taxon_namespace"): ("%s", "wmatrix")}
ITER = {"cmat": ("(map fst %s)", "taxon"), "wmatrix": "wtaxon", "states": "state", "lines": "str", "str": ("(py_chars %s)", "str"), "strs": "str",
        "wdict": ("(wdict_keys %s)", "wkey")}
MUTATORS = {("stream", "write"): lambda obj, c: [obj], ("states", "append"): lambda obj, c: [obj],
            ("taxset", "add"): lambda obj, c: [obj], ("tns", "require_taxon"): lambda obj, c: [obj],
            ("opt:ref", "extend"): lambda obj, c: [REF_OWNER[obj]], ("ref", "extend"): lambda obj, c: [REF_OWNER[obj]]}
REF_OWNER = {"curr_vec": "char_matrix"}
RAISING_HELPERS = {"_taxon_error": "ParseErr"}          # checked: every path of the helper ends in raise DataParseError
ERROR_FACTORIES = {"_data_parse_error": "ParseErr"}     # checked: returns an instance of a DataParseError subclass


def find_method(tree, cls, name):
    for n in tree.body:
        if isinstance(n, ast.ClassDef) and n.name == cls:
            for m in n.body:
                if isinstance(m, ast.FunctionDef) and m.name == name:
                    return m
    raise Unsupported("method %s.%s not found" % (cls, name))


def check_helpers(tree):
    """_taxon_error always raises DataParseError; _data_parse_error returns error_type(...) of the reader's classes"""
    te = find_method(tree, "PhylipReader", "_taxon_error")
    last = te.body[-1]
    if not (isinstance(last, ast.Raise) and isinstance(last.exc, ast.Call) and chain(last.exc.func) == "error.DataParseError"):
        bad(te, "_taxon_error must end in raise error.DataParseError")
    for n in te.body[:-1]:
        if any(isinstance(x, (ast.Return,)) for x in ast.walk(n)):
            bad(n, "_taxon_error must not return")
    de = find_method(tree, "PhylipReader", "_data_parse_error")
    last = de.body[-1]
    if not (isinstance(last, ast.Return) and isinstance(last.value, ast.Call) and chain(last.value.func) == "error_type"):
        bad(de, "_data_parse_error must return error_type(...)")
    for n in ast.walk(de):
        if isinstance(n, ast.Assign) and chain(n.targets[0]) == "error_type":
            c = chain(n.value) or ""
            if not c.startswith("PhylipReader.Phylip") or not c.endswith("Error"):
                bad(n, "error_type")
    for n in tree.body:
        if isinstance(n, ast.ClassDef) and n.name == "PhylipReader":
            for m in n.body:
                if isinstance(m, ast.ClassDef) and m.name.startswith("Phylip") and m.name.endswith("Error"):
                    if [chain(b) for b in m.bases] != ["error.DataParseError"]:
                        bad(m, "error class base")


# --------------------------------------------------------------------------------------------
# the methods
# --------------------------------------------------------------------------------------------
ALPHA = ("alpha", "alphabet")
LOWER = ("lower", "text -> text")
UPPER = ("upper", "text -> text")

PLAN = [
    Spec("fastawriter.py", "FastaWriter", "_write_char_matrix",
         params=[("stream", "skip"), ("char_matrix", "wmatrix")],
         attrs={"self.wrap": "bool", "self.wrap_width": "int"},
         state={"stream": "stream"},
         locals_={"taxon": "wtaxon", "seq": "states", "col_count": "int", "c": "state", "s": "str"},
         ret="unit", out_name="FastaWriter_write_char_matrix", extra_params=[ALPHA]),
    Spec("fastareader.py", "FastaReader", "_read",
         params=[("stream", "lines"), ("taxon_namespace_factory", "skip"), ("tree_list_factory", "skip"),
                 ("char_matrix_factory", "skip"), ("state_alphabet_factory", "skip"),
                 ("global_annotations_target", "skip")],
         attrs={"symbol_state_map": "alphabet"},
         state={"taxon_namespace": "tns", "char_matrix": "cmat"},
         locals_={"curr_vec": "opt:ref", "curr_taxon": "opt:taxon", "line_index": "skip", "line": "str", "s": "str",
                  "name": "str", "states": "states", "col_ind": "skip", "c": "str", "state": "state"},
         ret="unit", out_name="FastaReader_read", skip_prefix=4, stop_at="product",
         extra_params=[LOWER], init=[("taxon_namespace", "[]"), ("char_matrix", "[]")]),
    Spec("phylipwriter.py", "PhylipWriter", "get_taxon_label_map",
         params=[("taxon_namespace", "wmatrix")],
         attrs={"self.strict": "bool", "self.force_unique_taxon_labels": "bool", "self.spaces_to_underscores": "bool", "self.suppress_missing_taxa": "bool"}, state={},
         locals_={"taxon_label_map": "wdict", "max_label_len": "int", "taxon": "wtaxon", "label": "str", "t": "wkey"},
         ret="wdict", out_name="PhylipWriter_get_taxon_label_map"),
    Spec("phylipwriter.py", "PhylipWriter", "_write_char_matrix",
         params=[("stream", "skip"), ("char_matrix", "wmatrix")],
         attrs={"self.strict": "bool", "self.force_unique_taxon_labels": "bool", "self.spaces_to_underscores": "bool", "self.suppress_missing_taxa": "bool"}, state={"stream": "stream"},
         locals_={"taxon_label_map": "wdict", "spacer": "str", "taxon": "wtaxon", "label": "str", "maxlen": "int",
                  "n_seqs": "int", "n_sites": "int", "seq_vec": "str"},
         ret="unit", out_name="PhylipWriter_write_char_matrix", extra_params=[ALPHA]),
    Spec("phylipreader.py", "PhylipReader", "_parse_taxon_from_line",
         params=[("line", "str"), ("line_index", "skip")],
         attrs={"self.strict": "bool", "self.multispace_delimiter": "bool", "self.underscores_to_spaces": "bool", "self.ntax": "int", "self.nchar": "int", "self.ignore_invalid_chars": "bool", "self.interleaved": "bool", "self.char_matrix.default_state_alphabet": "alphabet"}, state={"self.char_matrix.taxon_namespace": "tns", "self.char_matrix": "cmat", "self.taxa_processed": "taxset"},
         locals_={"seq_label": "str", "parts": "strs", "current_taxon": "taxon"},
         ret=("tuple", ["taxon", "str"]), out_name="PhylipReader_parse_taxon_from_line", extra_params=[LOWER]),
    Spec("phylipreader.py", "PhylipReader", "_parse_sequence_from_line",
         params=[("current_taxon", "taxon"), ("line", "str"), ("line_index", "skip")],
         attrs={"self.strict": "bool", "self.multispace_delimiter": "bool", "self.underscores_to_spaces": "bool", "self.ntax": "int", "self.nchar": "int", "self.ignore_invalid_chars": "bool", "self.interleaved": "bool", "self.char_matrix.default_state_alphabet": "alphabet"}, state={"self.char_matrix.taxon_namespace": "tns", "self.char_matrix": "cmat", "self.taxa_processed": "taxset"},
         locals_={"c": "str", "state": "state"},
         ret="unit", out_name="PhylipReader_parse_sequence_from_line",
         branch=("else", "self.data_type", "continuous")),
    Spec("phylipreader.py", "PhylipReader", "_parse_sequential",
         params=[("lines", "lines"), ("line_num_start", "skip")],
         attrs={"self.strict": "bool", "self.multispace_delimiter": "bool", "self.underscores_to_spaces": "bool", "self.ntax": "int", "self.nchar": "int", "self.ignore_invalid_chars": "bool", "self.interleaved": "bool", "self.char_matrix.default_state_alphabet": "alphabet"}, state={"self.char_matrix.taxon_namespace": "tns", "self.char_matrix": "cmat", "self.taxa_processed": "taxset"},
         locals_={"seq_labels": "skip", "seq_label": "skip", "current_taxon": "opt:taxon", "line_index": "skip", "line": "str"},
         ret="unit", out_name="PhylipReader_parse_sequential", extra_params=[LOWER]),
    Spec("phylipreader.py", "PhylipReader", "_parse_interleaved",
         params=[("lines", "lines"), ("line_num_start", "skip")],
         attrs={"self.strict": "bool", "self.multispace_delimiter": "bool", "self.underscores_to_spaces": "bool", "self.ntax": "int", "self.nchar": "int", "self.ignore_invalid_chars": "bool", "self.interleaved": "bool", "self.char_matrix.default_state_alphabet": "alphabet"}, state={"self.char_matrix.taxon_namespace": "tns", "self.char_matrix": "cmat", "self.taxa_processed": "taxset"},
         locals_={"seq_labels": "skip", "current_taxon": "opt:taxon", "paged": "bool", "paged_row": "int",
                  "line_index": "skip", "line": "str"},
         ret="unit", out_name="PhylipReader_parse_interleaved", extra_params=[LOWER]),
    Spec("phylipreader.py", "PhylipReader", "_read",
         params=[("stream", "skip"), ("taxon_namespace_factory", "skip"), ("tree_list_factory", "skip"),
                 ("char_matrix_factory", "skip"), ("state_alphabet_factory", "skip"),
                 ("global_annotations_target", "skip"), ("lines", "lines")],
         attrs={k: v for k, v in {"self.strict": "bool", "self.multispace_delimiter": "bool", "self.underscores_to_spaces": "bool", "self.ntax": "int", "self.nchar": "int", "self.ignore_invalid_chars": "bool", "self.interleaved": "bool", "self.char_matrix.default_state_alphabet": "alphabet"}.items() if k not in ("self.ntax", "self.nchar")}, state={"self.char_matrix.taxon_namespace": "tns", "self.char_matrix": "cmat", "self.taxa_processed": "taxset"},
         locals_={"desc_line": "str", "m": "opt:descmatch", "self.ntax": "int", "self.nchar": "int", "taxon": "taxon"},
         ret="unit", out_name="PhylipReader_read", skip_prefix=6, stop_at="product", extra_params=[LOWER],
         init=[("self.char_matrix.taxon_namespace", "[]"), ("self.char_matrix", "[]"), ("self.taxa_processed", "[]")]),
    Spec("nexuswriter.py", "NexusWriter", "_link_blocks", params=[],
         attrs={"self.suppress_block_titles": "opt:bool", "self.taxon_namespaces_to_write": "nslist"},
         state={}, locals_={}, ret="bool", out_name="NexusWriter_link_blocks"),
    # a block (taxon namespace, matrix, tree list) is its identity; its label is a separate input
    Spec("nexuswriter.py", "NexusWriter", "_get_block_title", params=[("block", "block")],
         attrs={"self.suppress_block_titles": "opt:bool", "self.taxon_namespaces_to_write": "nslist",
                "self.preserve_spaces": "bool", "self.unquoted_underscores": "bool", "block.label": "opt:str"},
         state={"self._title_block_map": "tdict", "self._block_title_map": "wdict"},
         locals_={"title": "str", "idx": "int", "original_title": "str", "raw_title": "str"},
         ret="opt:str", out_name="NexusWriter_get_block_title", extra_params=[UPPER]),
]


def generate(repo):
    base = os.path.join(repo, "src", "dendropy", "dataio")
    out = ["(* GENERATED by py/dv/gen_chario.py from src/dendropy/dataio/{fastawriter,fastareader,phylipwriter,phylipreader,nexuswriter}.py. DO NOT EDIT. *)",
           "From Coq Require Import ZArith List Bool.",
           "From DV Require Import Model.PyPrims Model.C09AlphaTypes Model.C09Model Model.C09Prims.",
           "Import ListNotations.", "Open Scope Z_scope.", ""]
    trees = {}
    done = {}
    for spec in PLAN:
        if spec.file not in trees:
            with open(os.path.join(base, spec.file)) as f:
                trees[spec.file] = ast.parse(f.read())
            if spec.file == "phylipreader.py":
                check_helpers(trees[spec.file])
        tree = trees[spec.file]
        consts = {}
        for n in tree.body:
            if isinstance(n, ast.Assign) and isinstance(n.targets[0], ast.Name) and isinstance(n.value, ast.Constant) \
                    and isinstance(n.value.value, int):
                consts[n.targets[0].id] = n.value.value
        fn = find_method(tree, spec.cls, spec.name)
        same_class = {k: v for k, v in done.items() if v.spec.cls == spec.cls}
        comp = Compiler(spec, fn, same_class, consts)
        out.append(comp.compile())
        done[spec.name] = comp
    return "\n".join(out)


if __name__ == "__main__":
    import sys
    print(generate(sys.argv[1] if len(sys.argv) > 1 else "/repo"))
