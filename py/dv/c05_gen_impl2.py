"""third part of the translator py/dv/gen_splitdist.py: per-tree and TreeArray score functions,
frequency_of_bipartition, collapse, summarizer (methods that may raise, generators, strings,
keyword calls, nested loop targets)."""
import ast
import os

from dv.gen_splitdist import Unsupported, bad, coq_ty, cname, SELF_ATTRS, EXC, COQ_TY
from dv.c05_gen_impl import FnT, FnS, assigned as assigned1, always_exits, find, TCM

COQ_TY.update({"SETZ": "(list Z)", "ftree": "fob_tree", "tl": "(list fob_tree)", "STR": "string", "stree": "stree", "ITERFN": "iterfn", "LN": "(list stree)", "node": "stree",
               "ta": "ta", "ENUMZIP": "(list (Z * (Z * list Z)))"})

ITERFNS = {"preorder_node_iter": "PreAll", "preorder_internal_node_iter": "PreInternal",
           "postorder_node_iter": "PostAll", "postorder_internal_node_iter": "PostInternal"}
TA_ATTRS = {"_tree_leafset_bitmasks": ("ta_leafsets", "LZ"), "_tree_split_bitmasks": ("ta_splits", "LLZ")}


class FnU(FnT):
    raises = False
    selfkind = "sd"
    collapse_tree = None
    log_vars = ()

    def monadic(self):
        return self.kind == "pure" or self.raises

    # ---- expressions
    def ex(self, e, env):
        if isinstance(e, ast.Constant) and isinstance(e.value, str):
            return '"%s"%%string' % e.value.replace('"', '""'), "STR"
        if isinstance(e, ast.Compare) and len(e.ops) == 1 and isinstance(e.ops[0], (ast.Eq, ast.NotEq)):
            a, ta = self.ex(e.left, env)
            b, tb = self.ex(e.comparators[0], env)
            if ta == "STR" and tb == "STR":
                r = "(py_str_eq %s %s)" % (a, b)
                return (r if isinstance(e.ops[0], ast.Eq) else "(negb %s)" % r), "B"
            # fall through: recompiling is pure, hoisted bindings would be duplicated -> forbid
            if self.pre_mark() != self._mark:
                pass
        return FnT.ex(self, e, env)

    def compare(self, e, env):
        if len(e.ops) == 1 and isinstance(e.ops[0], (ast.In, ast.NotIn)):
            k, kty = self.ex(e.left, env)
            t, ty = self.ex(e.comparators[0], env)
            r = None
            if ty == "SETZ" and kty == "Z":
                r = "(py_set_has_int %s %s)" % (t, k)
            elif ty == "ODQ" and kty == "Z":
                r = "(py_odict_has %s %s)" % (t, k)
            if r is not None:
                return (r if isinstance(e.ops[0], ast.In) else "(negb %s)" % r), "B"
            bad(e, "membership in %s" % (ty,))
        return FnT.compare(self, e, env)

    _mark = 0

    def pre_mark(self):
        return 0

    def attr(self, e, env):
        b = e.value
        if isinstance(b, ast.Name) and env.get(b.id) == "stree" and e.attr in ITERFNS:
            return ITERFNS[e.attr], "ITERFN"
        if isinstance(b, ast.Attribute) and b.attr == "edge" and isinstance(b.value, ast.Name) \
                and env.get(b.value.id) == "node" and e.attr == "split_bitmask":
            return "(py_node_split_bitmask %s)" % cname(b.value.id), "Z"
        if isinstance(b, ast.Name) and env.get(b.id) == "ftree" and e.attr == "is_unrooted":
            return "(py_ftree_is_unrooted %s)" % cname(b.id), "OB"
        if isinstance(b, ast.Name) and env.get(b.id) == "stree" and e.attr == "is_rooted" and "tree_rooting" in env:
            return "tree_rooting", "OB"
        if e.attr == "split_bitmask" and ast.unparse(b).endswith(".edge.bipartition") \
                and isinstance(b.value.value, ast.Name) and env.get(b.value.value.id) == "node":
            return "(py_node_split_bitmask %s)" % cname(b.value.value.id), "Z"
        if self.selfkind == "ta" and isinstance(b, ast.Name) and b.id == "self" and e.attr in TA_ATTRS:
            f, ty = TA_ATTRS[e.attr]
            return "(%s self)" % f, ty
        if self.selfkind == "ta" and e.attr == "split_frequencies" and isinstance(b, ast.Attribute) \
                and b.attr == "_split_distribution" and isinstance(b.value, ast.Name) and b.value.id == "self":
            v = self.fresh("r")
            self.pre.append(("let", "'(self, %s)" % v, "ta_split_frequencies cfg self"))
            return v, "ODQ"
        return FnT.attr(self, e, env)

    def call(self, e, env):
        f = e.func
        # iter_fn()
        if isinstance(f, ast.Name) and env.get(f.id) == "ITERFN" and not e.args and not e.keywords:
            return "(py_tree_iter %s %s)" % (cname(f.id), cname(self.iter_tree)), "LN"
        # tree.postorder_node_iter()
        if isinstance(f, ast.Attribute) and f.attr in ITERFNS and isinstance(f.value, ast.Name) \
                and env.get(f.value.id) == "stree" and not e.args and not e.keywords:
            return "(py_tree_iter %s %s)" % (ITERFNS[f.attr], cname(f.value.id)), "LN"
        # set(b.split_bitmask for b in tree.bipartition_encoding)
        if isinstance(f, ast.Name) and f.id == "set" and len(e.args) == 1 and isinstance(e.args[0], ast.GeneratorExp):
            g = e.args[0]
            if len(g.generators) == 1 and not g.generators[0].ifs and isinstance(g.generators[0].target, ast.Name):
                v = g.generators[0].target.id
                it = g.generators[0].iter
                if ast.unparse(g.elt) == "%s.split_bitmask" % v and isinstance(it, ast.Attribute) \
                        and it.attr == "bipartition_encoding" and isinstance(it.value, ast.Name) \
                        and env.get(it.value.id) == "ftree":
                    return "(py_ftree_splits %s)" % cname(it.value.id), "SETZ"
            bad(e, "set(...) shape")
        # treemodel.Bipartition.normalize_bitmask(bitmask=.., fill_bitmask=.., lowest_relevant_bit=..)
        if isinstance(f, ast.Attribute) and f.attr == "normalize_bitmask" and not e.args \
                and ast.unparse(f.value) == "treemodel.Bipartition":
            kws = {k.arg: k.value for k in e.keywords}
            if set(kws) != {"bitmask", "fill_bitmask", "lowest_relevant_bit"}:
                bad(e, "normalize_bitmask keywords")
            parts = []
            for k in ("bitmask", "fill_bitmask", "lowest_relevant_bit"):
                t, ty = self.ex(kws[k], env)
                if ty != "Z":
                    bad(e, "normalize_bitmask argument type")
                parts.append(t)
            return "(py_normalize_bitmask %s)" % " ".join(parts), "Z"
        # self.taxon_namespace.all_taxa_bitmask()
        if ast.unparse(f) == "self.taxon_namespace.all_taxa_bitmask" and not e.args and not e.keywords:
            return "ns_all", "Z"
        # treemodel.Bipartition.is_trivial_bitmask(a, b)
        if isinstance(f, ast.Attribute) and f.attr == "is_trivial_bitmask" and len(e.args) == 2 \
                and ast.unparse(f.value) == "treemodel.Bipartition":
            a, ta = self.ex(e.args[0], env)
            b, tb = self.ex(e.args[1], env)
            if ta == "Z" and tb == "Z":
                return "(py_is_trivial_bitmask %s %s)" % (a, b), "B"
        # enumerate(zip(a, b))
        if isinstance(f, ast.Name) and f.id == "enumerate" and len(e.args) == 1 and isinstance(e.args[0], ast.Call) \
                and isinstance(e.args[0].func, ast.Name) and e.args[0].func.id == "zip" and len(e.args[0].args) == 2:
            a, ta = self.ex(e.args[0].args[0], env)
            b, tb = self.ex(e.args[0].args[1], env)
            if ta == "LZ" and tb == "LLZ":
                return "(py_enumerate_zip %s %s)" % (a, b), "ENUMZIP"
        return FnT.call(self, e, env)

    def known_call(self, name, e, env, recv):
        coqname, kind, ptys, rty = self.known[name][:4]
        meta = self.known[name][4] if len(self.known[name]) > 4 else {}
        if e.keywords and not e.args and meta.get("params"):
            # keyword call: reorder by the callee's parameter names
            kws = {k.arg: k.value for k in e.keywords}
            if set(kws) != set(meta["params"]):
                bad(e, "keyword arguments %s, expected %s" % (sorted(kws), meta["params"]))
            e = ast.copy_location(ast.Call(func=e.func, args=[kws[p] for p in meta["params"]], keywords=[]), e)
        if meta.get("raises"):
            if not self.monadic() or recv != "self":
                bad(e, "call of a raising method from a non-raising context")
            args = []
            for a, pty in zip(e.args, ptys):
                t, ty = self.ex(a, env)
                args.append(self.coerce(t, ty, pty, a))
            v = self.fresh("r")
            self.pre.append(("bind", "'(self, %s)" % v, "(%s cfg self %s)" % (coqname, " ".join(args))))
            return v, rty
        return FnT.known_call(self, name, e, env, recv)

    # ---- statements
    def block(self, stmts, env, cont):
        if stmts and isinstance(stmts[0], ast.Expr) and isinstance(stmts[0].value, ast.Yield):
            s = stmts[0]
            v, vty = self.ex(s.value.value, env)
            v = self.coerce(v, vty, "Q", s)
            txt, env2 = self.bind_local("_yield", "(py_append %s %s)" % (cname("_yield"), v), "LQ", env)
            return self.seq(txt, lambda e2: self.block(stmts[1:], e2, cont), env2)
        return FnT.block(self, stmts, env, cont)

    def exprstmt(self, s, env, nxt):
        c = s.value
        if isinstance(c, ast.Call) and isinstance(c.func, ast.Attribute) and isinstance(c.func.value, ast.Name) \
                and env.get(c.func.value.id) == "stree" and c.func.attr == "encode_bipartitions" and not c.args:
            return "(* %s: the target tree is given as encoded *)\n  " % ast.unparse(s) + nxt(env)
        return FnT.exprstmt(self, s, env, nxt)

    def augassign(self, s, env, nxt):
        tg, v = s.target, s.value
        if isinstance(tg, ast.Name) and tg.id in self.log_vars:
            if not (isinstance(s.op, ast.Add) and isinstance(v, ast.Call) and ast.unparse(v.func) == "math.log"
                    and len(v.args) == 1):
                bad(s, "update of a log-domain variable")
            y, yty = self.ex(v.args[0], env)
            if yty != "Q":
                bad(s, "math.log of %s" % (yty,))
            txt, env2 = self.bind_local(tg.id, "(py_log_add %s %s)" % (cname(tg.id), y), "Q", env)
            return self.seq(txt, nxt, env2)
        if any(isinstance(n, ast.Call) and ast.unparse(n.func) == "math.log" for n in ast.walk(s)):
            bad(s, "math.log outside the log-accumulator idiom")
        return FnT.augassign(self, s, env, nxt)

    def if_(self, s, env, nxt, rest, cont):
        # frequency_of_bipartition: the keyword dispatch, specialised to split_bitmask=...
        if isinstance(s.test, ast.Compare) and isinstance(s.test.ops[0], ast.In) \
                and isinstance(s.test.left, ast.Constant) and s.test.left.value == "split_bitmask" \
                and ast.unparse(s.test.comparators[0]) == "kwargs":
            if not (len(s.body) == 1 and ast.unparse(s.body[0]) == "split = kwargs['split_bitmask']"):
                bad(s, "split_bitmask branch")
            txt, env2 = self.bind_local("split", "split_bitmask", "Z", env)
            return "(* keyword dispatch specialised to split_bitmask=.. *)\n  " + txt + nxt(env2)
        return FnT.if_(self, s, env, nxt, rest, cont)

    def try_(self, s, env, nxt):
        # try: return float(a) / b   except ZeroDivisionError: return 0
        if len(s.body) == 1 and isinstance(s.body[0], ast.Return) and len(s.handlers) == 1 \
                and ast.unparse(s.handlers[0].type) == "ZeroDivisionError" and len(s.handlers[0].body) == 1 \
                and isinstance(s.handlers[0].body[0], ast.Return) \
                and isinstance(s.handlers[0].body[0].value, ast.Constant) and s.handlers[0].body[0].value.value == 0:
            v = s.body[0].value
            if isinstance(v, ast.BinOp) and isinstance(v.op, ast.Div) and isinstance(v.left, ast.Call) \
                    and isinstance(v.left.func, ast.Name) and v.left.func.id == "float" and len(v.left.args) == 1:
                a, ta = self.ex(v.left.args[0], env)
                b, tb = self.ex(v.right, env)
                if ta == "Z" and tb == "Z":
                    return self.wrap_pre(self.ret("(self, (py_div_or_zero %s %s))" % (a, b)))
            bad(s, "division guarded by ZeroDivisionError")
        return FnT.try_(self, s, env, nxt)

    def assign(self, s, env, nxt):
        tg, v = s.targets[0], s.value
        # is_bipartitions_updated = kwargs.pop('is_bipartitions_updated', False): a parameter here
        if isinstance(tg, ast.Name) and isinstance(v, ast.Call) and ast.unparse(v.func) == "kwargs.pop" \
                and len(v.args) == 2 and isinstance(v.args[0], ast.Constant) and v.args[0].value == tg.id \
                and tg.id in env:
            return "(* %s: a parameter *)\n  " % ast.unparse(s) + nxt(env)
        if isinstance(tg, ast.Name) and tg.id in self.log_vars and isinstance(v, ast.Constant) and v.value == 0.0:
            txt, env2 = self.bind_local(tg.id, "py_log_zero", "Q", env)
            return txt + nxt(env2)
        return FnT.assign(self, s, env, nxt)

    def for_(self, s, env, nxt):
        # for nd in to_collapse: nd.edge.collapse(adjust_collapsed_head_children_edge_lengths=True)
        if isinstance(s.iter, ast.Name) and env.get(s.iter.id) == "LN" and isinstance(s.target, ast.Name) \
                and len(s.body) == 1 and ast.unparse(s.body[0]) == \
                "%s.edge.collapse(adjust_collapsed_head_children_edge_lengths=True)" % s.target.id:
            if not self.monadic() or self.collapse_tree is None:
                bad(s, "collapse loop outside a raising method")
            tv = self.collapse_tree
            return "py_bind (py_collapse_nodes %s %s) (fun %s =>\n  %s)" % (
                cname(tv), cname(s.iter.id), cname(tv), nxt(env))
        if isinstance(s.iter, ast.Name) and s.iter.id == "self" and self.selfkind == "tl" \
                and isinstance(s.target, ast.Name):
            return self.for_list(s, dict(env), nxt, "self", "LFT")
        it_probe = s.iter
        # loops over node lists / int lists / enumerate(zip) are added here; the rest is inherited
        pre0 = list(self.pre)
        t, ty = self.ex(it_probe, env)
        if ty not in ("LN", "LZ", "ENUMZIP", "LQ"):
            self.pre = pre0
            if ty in ("LQ",):
                pass
            return self.for_generic(s, env, nxt)
        return self.for_list(s, env, nxt, t, ty)

    def for_generic(self, s, env, nxt):
        return FnS.for_(self, s, env, nxt)

    def for_list(self, s, env, nxt, it, ity):
        pre = self.pre
        self.pre = []
        env_b = dict(env)
        if ity == "ENUMZIP":
            tg = s.target
            if not (isinstance(tg, ast.Tuple) and len(tg.elts) == 2 and isinstance(tg.elts[0], ast.Name)
                    and isinstance(tg.elts[1], ast.Tuple) and len(tg.elts[1].elts) == 2
                    and all(isinstance(x, ast.Name) for x in tg.elts[1].elts)):
                bad(s, "loop target")
            a, b, c = tg.elts[0].id, tg.elts[1].elts[0].id, tg.elts[1].elts[1].id
            binder = "'(%s, (%s, %s))" % (cname(a), cname(b), cname(c))
            env_b[a], env_b[b], env_b[c] = "Z", "Z", "LZ"
        else:
            if not isinstance(s.target, ast.Name):
                bad(s, "loop target")
            binder = cname(s.target.id)
            env_b[s.target.id] = {"LN": "node", "LZ": "Z", "LQ": "Q", "LFT": "ftree"}[ity]
        vs = [v for v in self.assigned(s.body) if (v in env and env[v] != "ALIAS") or v == "self"]
        if not vs:
            bad(s, "loop without effect")
        lm = self.contains_try(s.body) or (self.monadic() and self.may_raise(s.body))
        endk = lambda e2: ("Ok " + self.tup(vs)) if lm else self.tup(vs)
        saved = (self.loop_cont, getattr(self, "loop_monadic", False))
        self.loop_cont, self.loop_monadic = endk, lm
        body = self.block(s.body, env_b, endk)
        self.loop_cont, self.loop_monadic = saved
        rest_txt = nxt(dict(env))
        self.pre = pre
        if lm:
            return self.wrap_pre("py_bind (py_forM %s (fun %s %s =>\n  %s) %s) (fun %s =>\n  %s)"
                                 % (it, binder, self.pat(vs), body, self.tup(vs), self.pat(vs), rest_txt))
        return self.wrap_pre("let %s := py_for %s (fun %s %s =>\n  %s) %s in\n  %s"
                             % (self.pat(vs), it, binder, self.pat(vs), body, self.tup(vs), rest_txt))

    def assigned(self, stmts):
        out = assigned1(stmts)
        if any(isinstance(n, ast.Yield) for s in stmts for n in ast.walk(s)) and "_yield" not in out:
            out.append("_yield")
        return out

    def may_raise(self, stmts):
        for s in stmts:
            for n in ast.walk(s):
                if isinstance(n, ast.Raise):
                    return True
                if isinstance(n, ast.Call) and isinstance(n.func, ast.Attribute) and n.func.attr in self.known \
                        and (len(self.known[n.func.attr]) > 4 and self.known[n.func.attr][4].get("raises")):
                    return True
        return False


# the inherited if_/for_ use the module-level `assigned`; make them see yields too
def _patch_assigned():
    import dv.c05_gen_impl as m
    orig = m.assigned

    def assigned2(stmts):
        out = orig(stmts)
        if any(isinstance(n, ast.Yield) for s in stmts for n in ast.walk(s)) and "_yield" not in out:
            out.append("_yield")
        return out
    if not getattr(m, "_patched", False):
        m.assigned = assigned2
        m._patched = True


_patch_assigned()

# (class, python name, coq name, selfkind, raises, [(param, type)], result type, {local: type}, log vars,
#  ignored trailing params, iter_tree)
PLAN2 = [
    ("SplitDistribution", "split_support_iter", "gen_split_support_iter", "sd", True,
     [("tree", "stree"), ("is_bipartitions_updated", "B"), ("include_external_splits", "B"),
      ("traversal_strategy", "STR")], "LQ", {}, (), ["node_support_attr_name", "edge_support_attr_name"], "tree"),
    ("SplitDistribution", "log_product_of_split_support_on_tree", "gen_log_product_of_split_support_on_tree", "sd", True,
     [("tree", "stree"), ("is_bipartitions_updated", "B"), ("include_external_splits", "B")], "Q", {},
     ("log_product_of_split_support",), [], None),
    ("SplitDistribution", "sum_of_split_support_on_tree", "gen_sum_of_split_support_on_tree", "sd", True,
     [("tree", "stree"), ("is_bipartitions_updated", "B"), ("include_external_splits", "B")], "Q", {}, (), [], None),
    ("TreeArray", "calculate_log_product_of_split_supports", "gen_calculate_log_product_of_split_supports", "ta", False,
     [("include_external_splits", "B")], ("T", ["LQ", "ONAT"]),
     {"scores": "LQ", "max_score": "OQ", "max_score_tree_idx": "ONAT"}, ("log_product_of_split_support",), [], None),
    ("TreeArray", "calculate_sum_of_split_supports", "gen_calculate_sum_of_split_supports", "ta", False,
     [("include_external_splits", "B")], ("T", ["LQ", "ONAT"]),
     {"scores": "LQ", "max_score": "OQ", "max_score_tree_idx": "ONAT"}, (), [], None),
    ("SplitDistribution", "collapse_edges_with_less_than_minimum_support", "gen_collapse_edges", "sd", True,
     [("tree", "stree"), ("min_freq", "Q")], "stree", {"to_collapse": "LN"}, (), [], "tree"),
    ("TreeList", "frequency_of_bipartition", "gen_frequency_of_bipartition", "tl", False,
     [("is_bipartitions_updated", "B"), ("split_bitmask", "Z")], "Q", {}, (), [], None),
]

HEADER2 = """
(* self._split_distribution.split_frequencies on a TreeArray: the property of the nested object *)
Definition ta_split_frequencies (cfg : config) (a : ta) : ta * option (list (Z * Q)) :=
  let '(x, r) := gen_get_split_frequencies cfg (mkSdx (ta_sd a) None None 0) in
  (with_sd a (x_sd x), r).
"""


def compile_fn2(entry, tree, known):
    cls, pyname, coqname, selfkind, raises, params, rty, local_types, log_vars, ignored, iter_tree = entry
    fn = find(tree, cls, pyname)
    names = [a.arg for a in fn.args.args][1:]
    want = [p for p, _ in params] + list(ignored)
    if pyname == "frequency_of_bipartition":
        if names or fn.args.kwarg is None or fn.args.kwarg.arg != "kwargs":
            raise Unsupported("frequency_of_bipartition: signature")
    elif names != want or fn.args.vararg or fn.args.kwarg:
        raise Unsupported("%s: signature %s, expected %s" % (pyname, names, want))
    used = {n.id for n in ast.walk(fn) if isinstance(n, ast.Name)}
    for p in ignored:
        if p in used:
            raise Unsupported("%s: the ignored parameter %s is used" % (pyname, p))
    c = FnU(fn, "method", params, known, {})
    c.raises, c.selfkind, c.log_vars, c.iter_tree = raises, selfkind, log_vars, iter_tree
    c.rty, c.local_types, c.summary_mode = rty, local_types, False
    env = {p: t for p, t in params}
    if pyname == "collapse_edges_with_less_than_minimum_support":
        env["tree_rooting"] = "OB"
        c.collapse_tree = "tree"
    is_gen = any(isinstance(n, ast.Yield) for n in ast.walk(fn))
    prefix = ""
    if is_gen:
        env["_yield"] = "LQ"
        prefix = "let %s := [] in\n  " % cname("_yield")
        end = lambda e2: c.ret("(self, %s)" % cname("_yield"))
    elif pyname == "collapse_edges_with_less_than_minimum_support":
        end = lambda e2: c.ret("(self, tree)")      # the tree is mutated in place: returned as a value
    else:
        end = None
    body = prefix + c.block(fn.body, env, end)
    selfty = {"sd": "sdx", "ta": "ta", "tl": "(list fob_tree)"}[selfkind]
    extra_sig = ""
    if pyname == "collapse_edges_with_less_than_minimum_support":
        extra_sig = "(tree_rooting : option bool) "
    if selfkind == "tl":
        extra_sig = "(ns_all : Z) "
    sig = "(cfg : config) (self : %s) " % selfty + extra_sig + " ".join("(%s : %s)" % (cname(p), coq_ty(t)) for p, t in params)
    ret = "%s * %s" % (selfty, coq_ty(rty))
    if raises:
        ret = "res (%s)" % ret
    return "(* %s.%s, line %d *)\nDefinition %s %s : %s :=\n  %s.\n" % (cls, pyname, fn.lineno, coqname, sig, ret, body)


def extra(trees, known):
    out = [HEADER2]
    tree = trees[TCM]
    for entry in PLAN2:
        out.append(compile_fn2(entry, tree, known))
        cls, pyname, coqname, selfkind, raises, params, rty = entry[:7]
        known[pyname] = (coqname, "method", [t for _p, t in params], rty,
                         {"raises": raises, "params": [p for p, _t in params], "selfkind": selfkind})
    out.append(compile_summarizer(tree, known))
    return "\n".join(out)


# ------------------------------------------------------------------------------------------
# SplitDistributionSummarizer.summarize_splits_on_tree
# ------------------------------------------------------------------------------------------
COQ_TY.update({"nodev": "nodev", "LNV": "(list nodev)", "OSTR": "(option string)", "sopts": "sopts"})
SM_ATTRS = {"support_as_percentages": ("o_percent", "B"), "minimum_edge_length": ("o_min_len", "OQ"),
            "error_on_negative_edge_lengths": ("o_err_neg", "B")}
SD_PROPS = {"split_node_age_summaries": ("gen_get_split_node_age_summaries", "ODS"),
            "split_edge_length_summaries": ("gen_get_split_edge_length_summaries", "ODS"),
            "split_frequencies": ("gen_get_split_frequencies", "ODQ")}
OUTS = "_outs"


class FnV(FnU):
    no_data_keys = ()

    def attr(self, e, env):
        b = e.value
        if isinstance(b, ast.Name) and b.id == "self":
            if e.attr in SM_ATTRS:
                f, ty = SM_ATTRS[e.attr]
                return "(%s self)" % f, ty
            if e.attr == "set_edge_lengths":
                return "(py_mode_str (o_mode self))", "OSTR"
            bad(e, "summarizer attribute outside the translated subset")
        if isinstance(b, ast.Name) and env.get(b.id) == "sdx" and e.attr in SD_PROPS:
            f, ty = SD_PROPS[e.attr]
            v = self.fresh("r")
            self.pre.append(("let", "'(%s, %s)" % (cname(b.id), v), "%s cfg %s" % (f, cname(b.id))))
            return v, ty
        if ast.unparse(e) in ("node.edge.bipartition.split_bitmask",) and env.get("node") == "nodev":
            return "(py_nv_split node)", "Z"
        if ast.unparse(e) == "node.edge.length" and env.get("node") == "nodev":
            return "(py_nv_len node)", "OQ"
        return FnU.attr(self, e, env)

    def ex(self, e, env):
        # `X in ('a', 'b')` / `not in (..., None)` on the option string
        if isinstance(e, ast.Compare) and len(e.ops) == 1 and isinstance(e.ops[0], (ast.In, ast.NotIn)) \
                and isinstance(e.comparators[0], ast.Tuple):
            t, ty = self.ex(e.left, env)
            if ty == "OSTR":
                parts = []
                for c in e.comparators[0].elts:
                    if isinstance(c, ast.Constant) and c.value is None:
                        parts.append("(py_ostr_is_none %s)" % t)
                    elif isinstance(c, ast.Constant) and isinstance(c.value, str):
                        parts.append('(py_ostr_eq %s "%s"%%string)' % (t, c.value))
                    else:
                        bad(e, "tuple element")
                out = parts[-1]
                for p in reversed(parts[:-1]):
                    out = "(orb %s %s)" % (p, out)
                return (out if isinstance(e.ops[0], ast.In) else "(negb %s)" % out), "B"
        if isinstance(e, ast.Compare) and len(e.ops) == 1:
            op, r = e.ops[0], e.comparators[0]
            a, ta = self.ex(e.left, env) if not isinstance(op, (ast.In, ast.NotIn)) else (None, None)
            if ta == "OSTR":
                if isinstance(op, ast.Is) and isinstance(r, ast.Constant) and r.value is None:
                    return "(py_ostr_is_none %s)" % a, "B"
                if isinstance(op, ast.Eq) and isinstance(r, ast.Constant) and isinstance(r.value, str):
                    return '(py_ostr_eq %s "%s"%%string)' % (a, r.value), "B"
                bad(e, "comparison of the option string")
            if ta == "OQ" and isinstance(op, (ast.Lt, ast.Gt, ast.LtE, ast.GtE)):
                # a value known not to be None here (guarded by `is not None` / assigned a number before)
                b, tb = self.ex(r, env)
                a2 = "(py_float_of_opt %s)" % a
                b2 = "(py_float_of_opt %s)" % b if tb == "OQ" else self.coerce(b, tb, "Q", e)
                if isinstance(op, ast.Lt):
                    return "(py_flt %s %s)" % (a2, b2), "B"
                bad(e, "comparison operator on None-or-float")
        if isinstance(e, ast.UnaryOp) and isinstance(e.op, ast.Not):
            t, ty = self.ex(e.operand, env)
            if ty == "ODS":
                return "(negb (py_truth_odict %s))" % t, "B"
            return "(negb %s)" % self.truth(t, ty, e), "B"
        return FnU.ex(self, e, env)

    def call(self, e, env):
        if ast.unparse(e.func) == "self.no_data_values.get" and len(e.args) == 2 \
                and isinstance(e.args[0], ast.Constant) and e.args[0].value not in self.no_data_keys:
            return self.ex(e.args[1], env)
        return FnU.call(self, e, env)

    def assigned(self, stmts):
        out = FnU.assigned(self, stmts)
        for s in stmts:
            for n in ast.walk(s):
                if isinstance(n, ast.Assign) and ast.unparse(n.targets[0]) in ("node.edge.length", "node.age"):
                    if "node" not in out:
                        out.append("node")
                if isinstance(n, ast.Call) and ast.unparse(n.func) == "self._decorate":
                    if "node" not in out:
                        out.append("node")
                if (isinstance(n, ast.Call) and ast.unparse(n.func) == "tree.set_edge_lengths_from_node_ages") or \
                        (isinstance(n, ast.For) and ast.unparse(n.iter) == "tree"):
                    if OUTS not in out:
                        out.append(OUTS)
        return [v for v in out if v != "self"]

    # ---- statements
    def skip(self, s, why, nxt, env):
        return "(* %s: %s *)\n  " % (ast.unparse(s).split("\n")[0][:70].replace("*)", "* )"), why) + nxt(env)

    def if_(self, s, env, nxt, rest, cont):
        src = ast.unparse(s.test)
        if src == "split_distribution.taxon_namespace is not tree.taxon_namespace" and len(s.body) == 1 \
                and isinstance(s.body[0], ast.Raise):
            return self.skip(s, "namespace identity", nxt, env)
        if src == "self.support_label_compose_fn is not None" and \
                all(isinstance(x, ast.Assign) and isinstance(x.value, ast.Lambda) for x in s.body + s.orelse):
            return self.skip(s, "label formatting, not represented", nxt, env)
        if src == "self.set_support_as_node_label" and len(s.body) == 1 and not s.orelse \
                and ast.unparse(s.body[0].targets[0]) == "node.label":
            return self.skip(s, "label, not represented", nxt, env)
        if len(s.body) == 1 and not s.orelse and isinstance(s.body[0], ast.For) \
                and isinstance(s.body[0].body[-1], ast.Expr) \
                and ast.unparse(s.body[0].body[-1].value.func) == "self._decorate" \
                and any(k.arg == "fieldname" and isinstance(k.value, ast.Name) for k in s.body[0].body[-1].value.keywords):
            return self.skip(s, "length_*/age_* decorations, not represented", nxt, env)
        return self.if_generic(s, env, nxt, rest, cont)

    def if_generic(self, s, env, nxt, rest, cont):
        # the generic join with this class's notion of assigned variables
        import dv.c05_gen_impl as m
        saved = m.assigned
        m.assigned = self.assigned
        try:
            return FnU.if_(self, s, env, nxt, rest, cont)
        finally:
            m.assigned = saved

    def exprstmt(self, s, env, nxt):
        c = s.value
        if isinstance(c, ast.Call) and ast.unparse(c.func) == "self._decorate":
            kws = {k.arg: k.value for k in c.keywords}
            if isinstance(kws.get("fieldname"), ast.Constant) and kws["fieldname"].value == "support" \
                    and ast.unparse(kws.get("target")) == "node":
                v, vty = self.ex(kws["value"], env)
                txt, env2 = self.bind_local("node", "(py_nv_set_support node %s)" % self.coerce(v, vty, "Q", s),
                                            "nodev", env)
                return self.seq(txt, nxt, env2)
            bad(s, "_decorate call")
        if isinstance(c, ast.Call) and ast.unparse(c.func) == "tree.set_edge_lengths_from_node_ages":
            kws = {k.arg: k.value for k in c.keywords}
            if c.args or set(kws) != {"minimum_edge_length", "error_on_negative_edge_lengths"}:
                bad(s, "set_edge_lengths_from_node_ages arguments")
            mn, mty = self.ex(kws["minimum_edge_length"], env)
            er, ety = self.ex(kws["error_on_negative_edge_lengths"], env)
            if mty != "OQ" or ety != "B":
                bad(s, "set_edge_lengths_from_node_ages argument types")
            o = cname(OUTS)
            return "py_bind (py_set_edge_lengths_from_node_ages tree %s %s %s) (fun %s =>\n  %s)" % (
                o, mn, er, o, nxt(env))
        return FnU.exprstmt(self, s, env, nxt)

    def assign(self, s, env, nxt):
        tg = ast.unparse(s.targets[0])
        if tg in ("node.edge.length", "node.age") and env.get("node") == "nodev":
            setter = "py_nv_set_len" if tg == "node.edge.length" else "py_nv_set_age"
            v = s.value
            t, ty = self.ex(v, env)
            t = self.coerce(t, ty, "OQ", s)
            txt, env2 = self.bind_local("node", "(%s node %s)" % (setter, t), "nodev", env)
            return self.seq(txt, nxt, env2)
        return FnU.assign(self, s, env, nxt)

    def try_(self, s, env, nxt):
        # try: node.X = summaries[k]['mean']  except KeyError: node.X = self.no_data_values.get('mean', 0.0)
        if len(s.body) == 1 and len(s.handlers) == 1 and isinstance(s.body[0], ast.Assign) \
                and ast.unparse(s.handlers[0].type) == "KeyError" and len(s.handlers[0].body) == 1 \
                and isinstance(s.handlers[0].body[0], ast.Assign) \
                and ast.unparse(s.handlers[0].body[0].targets[0]) == ast.unparse(s.body[0].targets[0]):
            tg = ast.unparse(s.body[0].targets[0])
            v = s.body[0].value
            if tg in ("node.edge.length", "node.age") and isinstance(v, ast.Subscript) \
                    and isinstance(v.value, ast.Subscript) and isinstance(v.slice, ast.Constant) \
                    and isinstance(v.value.value, ast.Name) and env.get(v.value.value.id) == "ODS":
                k, kty = self.ex(v.value.slice, env)
                d, dty = self.ex(s.handlers[0].body[0].value, env)
                d = self.coerce(d, dty, "OQ", s)
                setter = "py_nv_set_len" if tg == "node.edge.length" else "py_nv_set_age"
                r = self.fresh("kv")
                body = "py_bind (py_try_default [KeyErr] (py_summ_lookup %s %s \"%s\"%%string) %s) (fun %s =>\n  " % (
                    cname(v.value.value.id), k, v.slice.value, d, r)
                txt, env2 = self.bind_local("node", "(%s node %s)" % (setter, r), "nodev", env)
                return body + txt + nxt(env2) + ")"
        return FnU.try_(self, s, env, nxt)

    def for_(self, s, env, nxt):
        if isinstance(s.iter, ast.Name) and s.iter.id == "tree" and isinstance(s.target, ast.Name) \
                and s.target.id == "node":
            o = cname(OUTS)
            first = OUTS not in env
            src = "(py_tree_nodes tree)" if first else o
            env_b = dict(env, node="nodev")
            env_b[OUTS + "acc"] = "LNV"
            acc = cname(OUTS + "acc")
            saved = (self.loop_cont, self.loop_monadic)
            endk = lambda e2: "Ok (py_append %s node)" % acc
            self.loop_cont, self.loop_monadic = endk, True
            body = self.block(s.body, env_b, endk)
            self.loop_cont, self.loop_monadic = saved
            env2 = dict(env)
            env2[OUTS] = "LNV"
            return "py_bind (py_forM %s (fun node %s =>\n  %s) []) (fun %s =>\n  %s)" % (src, acc, body, o, nxt(env2))
        return FnU.for_(self, s, env, nxt)

    def return_(self, s, env):
        if isinstance(s.value, ast.Name) and s.value.id == "tree":
            return "Ok (split_distribution, %s)" % cname(OUTS)
        return FnU.return_(self, s, env)

    def truth(self, text, ty, node):
        if ty == "ODS":
            return "(py_truth_odict %s)" % text
        return FnU.truth(self, text, ty, node)


def no_data_keys(tree):
    fn = find(tree, "SplitDistributionSummarizer", "configure")
    for n in ast.walk(fn):
        if isinstance(n, ast.Assign) and ast.unparse(n.targets[0]) == "self.no_data_values" and isinstance(n.value, ast.Dict):
            ks = []
            for k in n.value.keys:
                if not (isinstance(k, ast.Constant) and isinstance(k.value, str)):
                    raise Unsupported("no_data_values key")
                ks.append(k.value)
            return tuple(ks)
    raise Unsupported("no_data_values not found in configure")


def compile_summarizer(tree, known):
    fn = find(tree, "SplitDistributionSummarizer", "summarize_splits_on_tree")
    names = [a.arg for a in fn.args.args]
    if names != ["self", "split_distribution", "tree", "is_bipartitions_updated"] or fn.args.vararg or fn.args.kwarg:
        raise Unsupported("summarize_splits_on_tree: signature %s" % names)
    params = [("split_distribution", "sdx"), ("tree", "stree"), ("is_bipartitions_updated", "B")]
    c = FnV(fn, "method", params, known, {})
    c.raises, c.selfkind, c.log_vars, c.iter_tree = True, "sm", (), "tree"
    c.rty, c.local_types, c.summary_mode = None, {}, False
    c.no_data_keys = no_data_keys(tree)
    env = {p: t for p, t in params}
    body = c.block(fn.body, env, None)
    sig = "(cfg : config) (self : sopts) " + " ".join("(%s : %s)" % (cname(p), coq_ty(t)) for p, t in params)
    return ("(* SplitDistributionSummarizer.summarize_splits_on_tree, line %d *)\n"
            "Definition gen_summarize_splits_on_tree %s : res (sdx * list nodev) :=\n  %s.\n" % (fn.lineno, sig, body))
