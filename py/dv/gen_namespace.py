"""Translator: methods of dendropy TaxonNamespace -> coq/Gen/Namespace.v  (property C10).

generate(repo) parses, with `ast`, the CURRENT text of
  src/dendropy/datamodel/taxonmodel.py      (class TaxonNamespace: the methods in PLAN)
  src/dendropy/dataio/nexusprocessing.py    (bitmask_as_newick_string)
  src/dendropy/utility/bitprocessing.py     (bit_length, int_as_bitstring)
  src/dendropy/utility/error.py             (base classes of the exceptions raised)
and compiles every function statement by statement into Gallina over the run-time library
coq/Model/C10NsPrims.v (dynamically typed values `pyval`, the object state is the `world` record of
coq/Model/C10Model.v).  It is a compiler for a whitelisted subset, not a table of known bodies:
operators, callee names, argument order and keywords, comparison directions, which variable or
field is updated, loop sources and exception classes are all read off the AST; anything outside
the subset raises Unsupported (py2coq then writes a stub, so every dependent proof breaks).

Shapes:
  * every function becomes   py_<name> (w : world) (<params> : pyval) : res pyval            (pure)
                       or    py_<name> (w : world) (<params> : pyval) : res (world * pyval)  (it updates
    the object state or creates a Taxon; decided by an effect analysis over the call graph)
  * an expression is compiled in continuation-passing style; every primitive that can raise is bound
    with `do x <- prim ;; ...`, so evaluation order is Python's (left to right, arguments before call)
  * `for x in <list>: body` -> py_for over the element list with the tuple of the variables that are
    assigned in the body and live before the loop (plus the world) as loop state; `return` inside a
    loop is the `Ret` outcome; iterating self._taxa / the namespace itself is only accepted when the
    body calls nothing that changes the member list
  * `while c: body` -> py_while with an explicit fuel term (table FUEL; the equalities proved in
    Proofs/C10Gen.v show that it suffices)
  * `try: <state-free statements> except E: handler` -> match on the raised class
  * `if`/`assert`/`raise`/`return`, assignments to locals, `self.<dict>[k] = v`, augmented assignments,
    and the mutating calls append / remove / clear / reverse / sort / pop(k, None) on the fields in FIELDS
"""
import ast
import os


class Unsupported(Exception):
    pass


OUTPUT = "Namespace.v"

# python attribute of the namespace object -> (record field, shape)
FIELDS = {
    "_taxa": ("taxa", "taxa"),
    "_taxon_accession_index_map": ("acc", ("dict", "KTaxon", "KInt")),
    "_accession_index_taxon_map": ("rev", ("dict", "KInt", "KTaxon")),
    "_current_accession_count": ("count", "int"),
    "_taxon_bitmask_map": ("bm", ("dict", "KTaxon", "KInt")),
    "is_mutable": ("is_mut", "bool"),
    "is_case_sensitive": ("is_cs", "bool"),
}

# (file key, class or None, function, name of the namespace object inside it or None)
PLAN = [
    ("tm", "TaxonNamespace", "add_taxon", "self"),
    ("tm", "TaxonNamespace", "add_taxa", "self"),
    ("tm", "TaxonNamespace", "new_taxon", "self"),
    ("tm", "TaxonNamespace", "new_taxa", "self"),
    ("tm", "TaxonNamespace", "remove_taxon", "self"),
    ("tm", "TaxonNamespace", "_lookup_label", "self"),
    ("tm", "TaxonNamespace", "remove_taxon_label", "self"),
    ("tm", "TaxonNamespace", "discard_taxon_label", "self"),
    ("tm", "TaxonNamespace", "clear", "self"),
    ("tm", "TaxonNamespace", "findall", "self"),
    ("tm", "TaxonNamespace", "get_taxon", "self"),
    ("tm", "TaxonNamespace", "get_taxa", "self"),
    ("tm", "TaxonNamespace", "has_taxon_label", "self"),
    ("tm", "TaxonNamespace", "has_taxa_labels", "self"),
    ("tm", "TaxonNamespace", "require_taxon", "self"),
    ("tm", "TaxonNamespace", "sort", "self"),
    ("tm", "TaxonNamespace", "reverse", "self"),
    ("tm", "TaxonNamespace", "labels", "self"),
    ("tm", "TaxonNamespace", "all_taxa_bitmask", "self"),
    ("tm", "TaxonNamespace", "taxon_bitmask", "self"),
    ("tm", "TaxonNamespace", "accession_index", "self"),
    ("tm", "TaxonNamespace", "taxa_bitmask", "self"),
    ("tm", "TaxonNamespace", "bitmask_taxa_list", "self"),
    ("np", None, "bitmask_as_newick_string", "taxon_set"),
    ("bp", None, "bit_length", None),
    ("bp", None, "int_as_bitstring", None),
]

# fuel of the while loops, by (function, index of the loop in source order); the term may mention the
# variables in scope at the loop
FUEL = {
    ("remove_taxon", 0): "(fuel_len (taxa (w_ns w)))",
    ("bitmask_taxa_list", 0): "(fuel_bits v_bitmask)",
}

BUILTIN_ERR = {"TypeError": "TypeErr", "ValueError": "ValueErr", "LookupError": "LookupErr", "KeyError": "KeyErr",
               "IndexError": "IndexErr", "AttributeError": "AttrErr", "AssertionError": "AssertErr"}
CHARS = {"0": "C0", "1": "C1", "b": "Cb", "-": "Cminus"}
STRNORM = {"lower": "SLower", "casefold": "SCasefold"}
TAXA_MUTATORS = ("append", "remove", "clear", "reverse", "sort")
BINOPS = {ast.LShift: "py_lshift", ast.RShift: "py_rshift", ast.BitAnd: "py_band", ast.BitOr: "py_bor",
          ast.Add: "py_add", ast.Sub: "py_sub"}


def V(name):
    """Coq name of a Python local / parameter"""
    return "v_" + name


def coq_str(s):
    return '"%s"%%string' % s.replace('"', '""')


def vstr(s):
    try:
        return "(VStr [%s])" % "; ".join(CHARS[c] for c in s)
    except KeyError:
        raise Unsupported("string constant %r outside the bin() alphabet" % s)


def const(v):
    if v is None:
        return "VNone"
    if isinstance(v, bool):
        return "(VBool %s)" % ("true" if v else "false")
    if isinstance(v, int):
        return "(VInt (%d))" % v
    raise Unsupported("constant %r" % (v,))


class Info(object):
    """one function of the plan"""

    def __init__(self, key, cls, fn, selfname):
        self.key, self.cls, self.fn, self.selfname = key, cls, fn, selfname
        self.name = fn.name
        a = fn.args
        if a.vararg or a.kwonlyargs or a.posonlyargs:
            raise Unsupported("%s: parameter kinds" % fn.name)
        names = [x.arg for x in a.args]
        if cls:
            if not names or names[0] != selfname:
                raise Unsupported("%s: first parameter is not %s" % (fn.name, selfname))
            names = names[1:]
        defaults = [None] * (len(names) - len(a.defaults)) + list(a.defaults)
        self.params = []
        for n, d in zip(names, defaults):
            if d is None:
                self.params.append((n, None))
            elif isinstance(d, ast.Constant):
                self.params.append((n, const(d.value)))
            else:
                raise Unsupported("%s: default of %s" % (fn.name, n))
        self.kwarg = a.kwarg.arg if a.kwarg else None
        self.coq_params = [n for n, _ in self.params if n != selfname] + ([self.kwarg] if self.kwarg else [])
        self.eff = False
        self.mut_taxa = False
        self.calls = set()


class Compiler(object):
    def __init__(self, infos, errmap, iter_is_taxa):
        self.infos = infos              # name -> Info
        self.errmap = errmap
        self.iter_is_taxa = iter_is_taxa

    # ---------------- analysis ----------------
    def is_self(self, info, e):
        return isinstance(e, ast.Name) and info.selfname is not None and e.id == info.selfname

    def self_field(self, info, e):
        """e is <self>.<field in FIELDS> -> field name"""
        if isinstance(e, ast.Attribute) and self.is_self(info, e.value) and e.attr in FIELDS:
            return e.attr
        return None

    def callee(self, info, call):
        f = call.func
        if isinstance(f, ast.Attribute) and self.is_self(info, f.value) and f.attr in self.infos and self.infos[f.attr].cls:
            return self.infos[f.attr]
        if isinstance(f, ast.Name) and f.id in self.infos and not self.infos[f.id].cls:
            return self.infos[f.id]
        return None

    def analyse(self):
        for info in self.infos.values():
            for n in ast.walk(info.fn):
                if isinstance(n, ast.Call):
                    c = self.callee(info, n)
                    if c:
                        info.calls.add(c.name)
                    f = n.func
                    if isinstance(f, ast.Name) and f.id == "Taxon":
                        info.eff = True
                    if isinstance(f, ast.Attribute) and self.self_field(info, f.value):
                        fld = self.self_field(info, f.value)
                        if fld == "_taxa" and f.attr in TAXA_MUTATORS:
                            info.eff = info.mut_taxa = True
                        if FIELDS[fld][1] != "taxa" and f.attr in ("pop", "clear"):
                            info.eff = True
                if isinstance(n, (ast.Assign, ast.AugAssign)):
                    for t in (n.targets if isinstance(n, ast.Assign) else [n.target]):
                        if isinstance(t, ast.Attribute) and self.is_self(info, t.value):
                            info.eff = True
                        if isinstance(t, ast.Subscript) and self.self_field(info, t.value):
                            info.eff = True
        changed = True
        while changed:
            changed = False
            for info in self.infos.values():
                for c in info.calls:
                    ci = self.infos[c]
                    if ci.eff and not info.eff:
                        info.eff = changed = True
                    if ci.mut_taxa and not info.mut_taxa:
                        info.mut_taxa = changed = True

    def order(self):
        out, seen, stack = [], set(), set()

        def visit(n):
            if n in seen:
                return
            if n in stack:
                raise Unsupported("recursive call cycle through %s" % n)
            stack.add(n)
            for c in sorted(self.infos[n].calls):
                visit(c)
            stack.discard(n)
            seen.add(n)
            out.append(n)
        for n in self.infos:
            visit(n)
        return out

    # ---------------- one function ----------------
    def function(self, info):
        fc = FnCompiler(self, info)
        return fc.emit()


class Ctx(object):
    """where a statement sits: top level of the function, or inside a loop body with the given state"""

    def __init__(self, loop=None):
        self.loop = loop        # None | list of state variable names


class FnCompiler(object):
    def __init__(self, comp, info):
        self.c, self.info = comp, info
        self.tmp = 0
        self.nwhile = 0
        self.pure_depth = 0     # > 0: state changes are not allowed here

    def fresh(self, base="v"):
        self.tmp += 1
        return "%s__%d" % (base, self.tmp)

    # ----- result shapes -----
    def rty(self):
        return "(world * pyval)" if self.info.eff else "pyval"

    def retval(self, v):
        return "(w, %s)" % v if self.info.eff else v

    def ret(self, ctx, v):
        if ctx.loop is None:
            return "(Ok %s)" % self.retval(v)
        return "(Ok (@Ret %s %s %s))" % (self.sty(ctx.loop), self.rty(), self.retval(v))

    def sty(self, names):
        if not names:
            return "unit"
        return "(%s)" % " * ".join("world" if n == "w" else "pyval" for n in names)

    def tup(self, names):
        if not names:
            return "tt"
        if len(names) == 1:
            return names[0]
        return "(%s)" % ", ".join(names)

    def pat(self, names):
        if not names:
            return "_"
        if len(names) == 1:
            return names[0]
        return "'(%s)" % ", ".join(names)

    def fall(self, ctx):
        """code for running off the end of the statement list"""
        if ctx.loop is None:
            return self.ret(ctx, "VNone")
        return "(Ok (@Next %s %s %s))" % (self.sty(ctx.loop), self.rty(), self.tup(ctx.loop))

    def effect(self, what):
        if self.pure_depth:
            raise Unsupported("%s: %s inside a state-free context" % (self.info.name, what))
        if not self.info.eff:
            raise Unsupported("%s: %s in a function analysed as pure" % (self.info.name, what))

    # ----- expressions (CPS) -----
    def fld(self, attr):
        return "(%s (w_ns w))" % FIELDS[attr][0]

    def bind(self, term, k, base="v"):
        x = self.fresh(base)
        return "(do %s <- %s ;;\n  %s)" % (x, term, k(x))

    def cps_list(self, es, k):
        def go(i, acc):
            if i == len(es):
                return k(acc)
            return self.cps(es[i], lambda v: go(i + 1, acc + [v]))
        return go(0, [])

    def pure(self, e):
        """a term of type res pyval that changes nothing"""
        self.pure_depth += 1
        try:
            return self.cps(e, lambda v: "(Ok %s)" % v)
        finally:
            self.pure_depth -= 1

    def cps(self, e, k):
        info = self.info
        if isinstance(e, ast.Constant):
            if isinstance(e.value, str):
                return k(vstr(e.value))
            return k(const(e.value))
        if isinstance(e, ast.Name):
            if self.c.is_self(info, e):
                raise Unsupported("%s: the namespace object used as a value" % info.name)
            return k(V(e.id))
        if isinstance(e, ast.Attribute):
            f = self.c.self_field(info, e)
            if f:
                shape = FIELDS[f][1]
                if shape == "int":
                    return k("(VInt %s)" % self.fld(f))
                if shape == "bool":
                    return k("(VBool %s)" % self.fld(f))
                raise Unsupported("%s: field %s used as a value (aliasing)" % (info.name, f))
            if e.attr == "label":
                return self.cps(e.value, lambda v: self.bind("(py_attr_label w %s)" % v, k))
            if e.attr == "lower_cased_label":
                return self.cps(e.value, lambda v: self.bind("(py_Taxon_lower_cased_label w %s)" % v, k))
            raise Unsupported("%s: attribute %s" % (info.name, e.attr))
        if isinstance(e, ast.Compare):
            if len(e.ops) != 1:
                raise Unsupported("chained comparison")
            op, l, r = e.ops[0], e.left, e.comparators[0]
            if isinstance(op, (ast.Is, ast.IsNot)):
                if not isinstance(r, ast.Constant) or not (r.value is None or r.value is True):
                    raise Unsupported("%s: `is` against %s" % (info.name, ast.dump(r)))
                test = "py_is_none" if r.value is None else "py_is_true"
                neg = isinstance(op, ast.IsNot)
                return self.cps(l, lambda v: k("(VBool (%s(%s %s)))" % ("negb " if neg else "", test, v)))
            if isinstance(op, (ast.In, ast.NotIn)):
                neg = isinstance(op, ast.NotIn)

                def fin(t):
                    if neg:
                        return self.bind(t, lambda x: self.bind("(py_not %s)" % x, k))
                    return self.bind(t, k)
                f = self.c.self_field(info, r)
                if f:
                    shape = FIELDS[f][1]
                    if shape == "taxa":
                        return self.cps(l, lambda v: fin("(taxa_has %s %s)" % (self.fld(f), v)))
                    if isinstance(shape, tuple):
                        return self.cps(l, lambda v: fin("(pyd_has %s %s %s)" % (shape[1], self.fld(f), v)))
                    raise Unsupported("`in` on field %s" % f)
                if isinstance(r, ast.Name) and r.id == info.kwarg:
                    if not (isinstance(l, ast.Constant) and isinstance(l.value, str)):
                        raise Unsupported("`in kwargs` with a non-literal key")
                    return fin("(kw_has %s %s)" % (coq_str(l.value), V(r.id)))
                return self.cps_list([l, r], lambda vs: fin("(py_in_list %s %s)" % (vs[0], vs[1])))
            if isinstance(op, ast.Eq):
                return self.cps_list([l, r], lambda vs: self.bind("(py_eq %s %s)" % (vs[0], vs[1]), k))
            if isinstance(op, ast.NotEq):
                return self.cps_list([l, r], lambda vs: self.bind(
                    "(py_eq %s %s)" % (vs[0], vs[1]), lambda x: self.bind("(py_not %s)" % x, k)))
            raise Unsupported("%s: comparison %s" % (info.name, type(op).__name__))
        if isinstance(e, ast.BoolOp):
            # short circuit; the operands must not change the state
            terms = [self.pure(v) for v in e.values]
            is_or = isinstance(e.op, ast.Or)

            def chain(i):
                if i == len(terms) - 1:
                    return terms[i]
                a, t = self.fresh("a"), self.fresh("t")
                rest = chain(i + 1)
                stop = "(Ok %s)" % a
                return "(do %s <- %s ;; do %s <- py_truth %s ;;\n  if %s then %s else %s)" % (
                    a, terms[i], t, a, t, stop if is_or else rest, rest if is_or else stop)
            return self.bind(chain(0), k, "c")
        if isinstance(e, ast.UnaryOp) and isinstance(e.op, ast.Not):
            return self.cps(e.operand, lambda v: self.bind("(py_not %s)" % v, k))
        if isinstance(e, ast.BinOp):
            f = BINOPS.get(type(e.op))
            if not f:
                raise Unsupported("%s: operator %s" % (info.name, type(e.op).__name__))
            return self.cps_list([e.left, e.right], lambda vs: self.bind("(%s %s %s)" % (f, vs[0], vs[1]), k))
        if isinstance(e, ast.List):
            return self.cps_list(list(e.elts), lambda vs: k("(VList [%s])" % "; ".join(vs)))
        if isinstance(e, ast.Lambda):
            a = e.args
            if (len(a.args) == 1 and not a.defaults and not a.vararg and not a.kwarg and isinstance(e.body, ast.Attribute)
                    and isinstance(e.body.value, ast.Name) and e.body.value.id == a.args[0].arg and e.body.attr == "label"):
                return k("VKeyLabel")
            raise Unsupported("%s: lambda other than `lambda x: x.label`" % info.name)
        if isinstance(e, ast.ListComp):
            if len(e.generators) != 1 or e.generators[0].ifs or not isinstance(e.generators[0].target, ast.Name):
                raise Unsupported("%s: list comprehension shape" % info.name)
            g = e.generators[0]
            var = V(g.target.id)
            elt = self.pure(e.elt)
            return self.iter_cps(g.iter, False, lambda xs: self.bind(
                "(py_map (fun %s => %s) %s)" % (var, elt, xs), lambda ys: k("(VList %s)" % ys)))
        if isinstance(e, ast.Subscript):
            f = self.c.self_field(info, e.value)
            if f and isinstance(FIELDS[f][1], tuple):
                sh = FIELDS[f][1]
                return self.cps(e.slice, lambda v: self.bind("(pyd_get %s %s %s %s)" % (sh[1], sh[2], self.fld(f), v), k))
            if isinstance(e.value, ast.Name) and e.value.id == info.kwarg:
                if not (isinstance(e.slice, ast.Constant) and isinstance(e.slice.value, str)):
                    raise Unsupported("kwargs[...] with a non-literal key")
                return self.bind("(kw_get %s %s)" % (coq_str(e.slice.value), V(e.value.id)), k)
            if isinstance(e.slice, ast.Slice):
                s = e.slice
                if s.lower is not None and s.upper is None and s.step is None:
                    return self.cps_list([e.value, s.lower], lambda vs: self.bind("(py_slice_from %s %s)" % (vs[0], vs[1]), k))
                if (s.lower is None and s.upper is None and isinstance(s.step, ast.UnaryOp) and isinstance(s.step.op, ast.USub)
                        and isinstance(s.step.operand, ast.Constant) and s.step.operand.value == 1):
                    return self.cps(e.value, lambda v: self.bind("(py_str_reverse %s)" % v, k))
            raise Unsupported("%s: subscript %s" % (info.name, ast.dump(e)[:80]))
        if isinstance(e, ast.Call):
            return self.call(e, k)
        raise Unsupported("%s: expression %s" % (info.name, type(e).__name__))

    def call(self, e, k):
        info = self.info
        f = e.func
        callee = self.c.callee(info, e)
        if callee:
            # f(**kwargs): the whole keyword dictionary is passed on
            if not e.args and len(e.keywords) == 1 and e.keywords[0].arg is None:
                kwv = e.keywords[0].value
                if not (isinstance(kwv, ast.Name) and kwv.id == info.kwarg) or callee.kwarg:
                    raise Unsupported("%s: ** call shape" % info.name)
                plist = "[%s]" % "; ".join("(%s, %s)" % (coq_str(n), ("Some %s" % d) if d else "None") for n, d in callee.params)
                names = [self.fresh("k") for _ in callee.params]
                inner = self.invoke(callee, names, k)
                return self.bind("(py_kwargs %s %s)" % (plist, V(kwv.id)),
                                 lambda a: "(match %s with\n  | [%s] => %s\n  | _ => Err OtherErr\n  end)" % (a, "; ".join(names), inner), "args")
            if callee.kwarg:
                raise Unsupported("%s: call of **kwargs function %s" % (info.name, callee.name))
            # evaluation order: positional arguments, then keywords, left to right
            slots = {}
            exprs = []
            pnames = [n for n, _ in callee.params]
            for i, a in enumerate(e.args):
                if i >= len(pnames):
                    raise Unsupported("%s: too many arguments to %s" % (info.name, callee.name))
                slots[pnames[i]] = len(exprs)
                exprs.append(a)
            for kw in e.keywords:
                if kw.arg is None or kw.arg not in pnames or kw.arg in slots:
                    raise Unsupported("%s: keyword %s of %s" % (info.name, kw.arg, callee.name))
                slots[kw.arg] = len(exprs)
                exprs.append(kw.value)

            def after(vs):
                args = []
                for n, d in callee.params:
                    if n in slots:
                        args.append(vs[slots[n]])
                    elif d is not None:
                        args.append(d)
                    else:
                        raise Unsupported("%s: missing argument %s of %s" % (info.name, n, callee.name))
                return self.invoke(callee, args, k)
            return self.cps_list(exprs, after)
        if isinstance(f, ast.Name):
            if f.id == "Taxon":
                if e.args or len(e.keywords) != 1 or e.keywords[0].arg != "label":
                    raise Unsupported("Taxon(...) shape")
                self.effect("Taxon()")
                x = self.fresh("t")
                return self.cps(e.keywords[0].value, lambda v: "(do (w, %s) <- py_new_taxon_obj w %s ;;\n  %s)" % (x, v, k(x)))
            if f.id == "len" and len(e.args) == 1 and not e.keywords:
                fld = self.c.self_field(info, e.args[0])
                if fld == "_taxa":
                    return k("(VInt (Z.of_nat (List.length %s)))" % self.fld(fld))
                return self.cps(e.args[0], lambda v: self.bind("(py_len %s)" % v, k))
            if f.id == "bin" and len(e.args) == 1 and not e.keywords:
                return self.cps(e.args[0], lambda v: self.bind("(py_bin %s)" % v, k))
            if f.id == "escape_nexus_token" and len(e.args) == 1:
                for kw in e.keywords:
                    if not isinstance(kw.value, (ast.Name, ast.Constant)):
                        raise Unsupported("escape_nexus_token keyword")
                return self.cps(e.args[0], lambda v: self.bind("(py_escape_nexus_token %s)" % v, k))
            raise Unsupported("%s: call of %s" % (info.name, f.id))
        if isinstance(f, ast.Attribute):
            # str(x).lower() / str(x).casefold()
            if (f.attr in STRNORM and not e.args and not e.keywords and isinstance(f.value, ast.Call)
                    and isinstance(f.value.func, ast.Name) and f.value.func.id == "str" and len(f.value.args) == 1):
                return self.cps(f.value.args[0], lambda v: self.bind("(py_str_norm lower casefold %s %s)" % (STRNORM[f.attr], v), k))
            # "<fmt>".format(...): the two renderings
            if f.attr == "format" and isinstance(f.value, ast.Constant) and isinstance(f.value.value, str) and not e.keywords:
                def join_arg(a, sep):
                    if (isinstance(a, ast.Call) and isinstance(a.func, ast.Attribute) and a.func.attr == "join"
                            and isinstance(a.func.value, ast.Constant) and a.func.value.value == sep and len(a.args) == 1):
                        return a.args[0]
                    raise Unsupported("%s: format argument is not %r.join(..)" % (info.name, sep))
                fmt = f.value.value
                if fmt == "({});" and len(e.args) == 1:
                    return self.cps(join_arg(e.args[0], ","), lambda v: self.bind("(py_newick_one_group %s)" % v, k))
                if fmt == "(({}), ({}));" and len(e.args) == 2:
                    return self.cps_list([join_arg(a, ", ") for a in e.args],
                                         lambda vs: self.bind("(py_newick_two_groups %s %s)" % (vs[0], vs[1]), k))
                raise Unsupported("%s: format string %r" % (info.name, fmt))
            fld = self.c.self_field(info, f.value)
            if fld and isinstance(FIELDS[fld][1], tuple) and f.attr == "pop":
                sh = FIELDS[fld][1]
                if len(e.args) != 2 or e.keywords or not (isinstance(e.args[1], ast.Constant) and e.args[1].value is None):
                    raise Unsupported("%s: pop shape" % info.name)
                self.effect("dict.pop")
                d, x = self.fresh("d"), self.fresh("p")
                return self.cps(e.args[0], lambda v: "(do (%s, %s) <- pyd_pop %s %s %s %s ;;\n  let w := set_%s w %s in\n  %s)" % (
                    d, x, sh[1], sh[2], self.fld(fld), v, FIELDS[fld][0], d, k(x)))
            if f.attr == "lstrip" and len(e.args) == 1 and not e.keywords:
                return self.cps_list([f.value, e.args[0]], lambda vs: self.bind("(py_lstrip %s %s)" % (vs[0], vs[1]), k))
            if f.attr == "rjust" and len(e.args) == 2 and not e.keywords:
                return self.cps_list([f.value] + list(e.args), lambda vs: self.bind("(py_rjust %s %s %s)" % tuple(vs), k))
            if f.attr == "replace" and len(e.args) == 2 and not e.keywords:
                return self.cps_list([f.value] + list(e.args), lambda vs: self.bind("(py_str_replace %s %s %s)" % tuple(vs), k))
        raise Unsupported("%s: call %s" % (info.name, ast.dump(f)[:100]))

    def invoke(self, callee, args, k):
        x = self.fresh("r")
        argtxt = "".join(" " + a for a in args)
        if callee.eff:
            self.effect("call of %s" % callee.name)
            return "(do (w, %s) <- py_%s w%s ;;\n  %s)" % (x, callee.name, argtxt, k(x))
        return "(do %s <- py_%s w%s ;;\n  %s)" % (x, callee.name, argtxt, k(x))

    def iter_cps(self, e, body_mutates_taxa, k):
        """element list (Coq: list pyval) of an iterable"""
        info = self.info
        fld = self.c.self_field(info, e)
        if fld == "_taxa" or (self.c.is_self(info, e) and self.c.iter_is_taxa):
            if body_mutates_taxa:
                raise Unsupported("%s: loop over the member list whose body changes the member list" % info.name)
            return k("(taxa_vals %s)" % self.fld("_taxa"))
        if isinstance(e, ast.Call) and isinstance(e.func, ast.Name) and e.func.id == "zip" and len(e.args) == 2 and not e.keywords:
            return self.iter_cps(e.args[0], body_mutates_taxa, lambda a: self.iter_cps(
                e.args[1], body_mutates_taxa, lambda b: k("(py_zip %s %s)" % (a, b))))
        return self.cps(e, lambda v: self.bind("(py_iter %s)" % v, k, "xs"))

    # ----- statements -----
    def assigned(self, stmts):
        out = set()
        for s in stmts:
            for n in ast.walk(s):
                if isinstance(n, ast.Assign):
                    for t in n.targets:
                        if isinstance(t, ast.Name):
                            out.add(t.id)
                elif isinstance(n, ast.AugAssign) and isinstance(n.target, ast.Name):
                    out.add(n.target.id)
                elif isinstance(n, ast.For):
                    for t in ast.walk(n.target):
                        if isinstance(t, ast.Name):
                            out.add(t.id)
                elif (isinstance(n, ast.Expr) and isinstance(n.value, ast.Call) and isinstance(n.value.func, ast.Attribute)
                      and n.value.func.attr == "append" and isinstance(n.value.func.value, ast.Name)):
                    out.add(n.value.func.value.id)
        return out

    def body_mutates_taxa(self, stmts):
        info = self.info
        for s in stmts:
            for n in ast.walk(s):
                if isinstance(n, ast.Call):
                    c = self.c.callee(info, n)
                    if c and c.mut_taxa:
                        return True
                    f = n.func
                    if isinstance(f, ast.Attribute) and self.c.self_field(info, f.value) == "_taxa" and f.attr in TAXA_MUTATORS:
                        return True
        return False

    def block(self, stmts, scope, ctx, k):
        """code of `stmts` followed by k(scope') when control runs off their end"""
        if not stmts:
            return k(scope)
        s, rest = stmts[0], stmts[1:]
        info = self.info

        def cont(scope2):
            return self.block(rest, scope2, ctx, k)
        if isinstance(s, ast.Expr) and isinstance(s.value, ast.Constant) and isinstance(s.value.value, str):
            return cont(scope)
        if isinstance(s, ast.Pass):
            return cont(scope)
        if isinstance(s, ast.Continue):
            if ctx.loop is None:
                raise Unsupported("continue outside a loop")
            return self.fall(ctx)
        if isinstance(s, ast.Return):
            if s.value is None:
                return self.ret(ctx, "VNone")
            return self.cps(s.value, lambda v: self.ret(ctx, v))
        if isinstance(s, ast.Raise):
            exc = s.exc
            cname = None
            if isinstance(exc, ast.Call):
                exc = exc.func
            if isinstance(exc, ast.Name):
                cname = exc.id
            elif isinstance(exc, ast.Attribute) and isinstance(exc.value, ast.Name) and exc.value.id == "error":
                cname = exc.attr
            if cname not in self.c.errmap:
                raise Unsupported("%s: raise of %s" % (info.name, ast.dump(s.exc)[:60]))
            return "(Err %s)" % self.c.errmap[cname]
        if isinstance(s, ast.Assert):
            return self.cps(s.test, lambda c: self.bind("(py_truth %s)" % c, lambda b: "(if %s then %s else Err AssertErr)" % (b, cont(scope)), "b"))
        if isinstance(s, ast.If):
            def branches(c):
                b = self.fresh("b")
                return "(do %s <- py_truth %s ;;\n  if %s\n  then %s\n  else %s)" % (
                    b, c, b, self.block(s.body, scope, ctx, lambda sc: cont(sc)),
                    self.block(s.orelse, scope, ctx, lambda sc: cont(sc)))
            return self.cps(s.test, branches)
        if isinstance(s, ast.Assign):
            if len(s.targets) != 1:
                raise Unsupported("multiple assignment targets")
            t = s.targets[0]
            if isinstance(t, ast.Name):
                if t.id == "w" or t.id.endswith("__"):
                    raise Unsupported("variable name %s" % t.id)
                return self.cps(s.value, lambda v: "(let %s := %s in\n  %s)" % (V(t.id), v, cont(scope | {t.id})))
            fld = self.c.self_field(info, t.value) if isinstance(t, ast.Subscript) else None
            if fld and isinstance(FIELDS[fld][1], tuple):
                sh = FIELDS[fld][1]
                self.effect("dict store")
                d = self.fresh("d")
                # Python evaluates the right-hand side first, then the subscript
                return self.cps_list([s.value, t.slice], lambda vs: "(do %s <- pyd_set %s %s %s %s %s ;;\n  let w := set_%s w %s in\n  %s)" % (
                    d, sh[1], sh[2], self.fld(fld), vs[1], vs[0], FIELDS[fld][0], d, cont(scope)))
            raise Unsupported("%s: assignment target %s" % (info.name, ast.dump(t)[:80]))
        if isinstance(s, ast.AugAssign):
            f = BINOPS.get(type(s.op))
            if not f:
                raise Unsupported("augmented operator")
            t = s.target
            if isinstance(t, ast.Name):
                return self.cps(s.value, lambda v: self.bind("(%s %s %s)" % (f, V(t.id), v), lambda x: "(let %s := %s in\n  %s)" % (V(t.id), x, cont(scope)), "n"))
            fld = self.c.self_field(info, t)
            if fld and FIELDS[fld][1] == "int":
                self.effect("field update")
                return self.cps(s.value, lambda v: self.bind("(%s (VInt %s) %s)" % (f, self.fld(fld), v), lambda x: "(do w <- set_%s w %s ;;\n  %s)" % (
                    FIELDS[fld][0], x, cont(scope)), "n"))
            raise Unsupported("%s: augmented assignment target" % info.name)
        if isinstance(s, ast.Expr) and isinstance(s.value, ast.Call):
            call = s.value
            f = call.func
            if isinstance(f, ast.Attribute):
                fld = self.c.self_field(info, f.value)
                if fld == "_taxa":
                    self.effect("member list update")
                    l = self.fresh("l")
                    if f.attr in ("append", "remove") and len(call.args) == 1 and not call.keywords:
                        return self.cps(call.args[0], lambda v: "(do %s <- taxa_%s %s %s ;;\n  let w := set_taxa w %s in\n  %s)" % (
                            l, f.attr, self.fld(fld), v, l, cont(scope)))
                    if f.attr == "clear" and not call.args and not call.keywords:
                        return "(let w := set_taxa w [] in\n  %s)" % cont(scope)
                    if f.attr == "reverse" and not call.args and not call.keywords:
                        return "(let w := set_taxa w (List.rev %s) in\n  %s)" % (self.fld(fld), cont(scope))
                    if f.attr == "sort" and not call.args and [kw.arg for kw in call.keywords] == ["key", "reverse"]:
                        return self.cps_list([kw.value for kw in call.keywords], lambda vs: "(do %s <- taxa_sort w %s %s %s ;;\n  let w := set_taxa w %s in\n  %s)" % (
                            l, self.fld(fld), vs[0], vs[1], l, cont(scope)))
                    raise Unsupported("%s: member list method %s" % (info.name, f.attr))
                if fld and isinstance(FIELDS[fld][1], tuple):
                    if f.attr == "clear" and not call.args and not call.keywords:
                        self.effect("dict.clear")
                        return "(let w := set_%s w [] in\n  %s)" % (FIELDS[fld][0], cont(scope))
                    if f.attr == "pop":
                        return self.call(call, lambda v: cont(scope))
                    raise Unsupported("%s: dict method %s" % (info.name, f.attr))
                if f.attr == "append" and isinstance(f.value, ast.Name) and len(call.args) == 1 and not call.keywords:
                    name = f.value.id
                    if name not in scope:
                        raise Unsupported("%s: append to unknown local %s" % (info.name, name))
                    return self.cps(call.args[0], lambda v: self.bind("(py_append %s %s)" % (V(name), v), lambda x: "(let %s := %s in\n  %s)" % (V(name), x, cont(scope)), "l"))
            if self.c.callee(info, call):
                return self.call(call, lambda v: cont(scope))
            raise Unsupported("%s: expression statement %s" % (info.name, ast.dump(f)[:80]))
        if isinstance(s, ast.For):
            if s.orelse:
                raise Unsupported("for-else")
            mut = self.body_mutates_taxa(s.body)
            carried = sorted(self.assigned(s.body) & scope)
            state = (["w"] if info.eff else []) + [V(n) for n in carried]
            if ctx.loop is not None:
                # variables of the enclosing loop state stay in scope; nothing else to do
                pass
            x = self.fresh("x")
            if isinstance(s.target, ast.Name):
                tv = V(s.target.id)
                unpack = lambda body: body
                bscope = scope | {s.target.id}
            elif isinstance(s.target, ast.Tuple) and len(s.target.elts) == 2 and all(isinstance(t, ast.Name) for t in s.target.elts):
                a, b = s.target.elts[0].id, s.target.elts[1].id
                tv = x
                unpack = lambda body: "(do (%s, %s) <- py_unpack2 %s ;;\n  %s)" % (V(a), V(b), x, body)
                bscope = scope | {a, b}
            else:
                raise Unsupported("%s: loop target" % info.name)
            lctx = Ctx(loop=state)
            body = self.block(s.body, bscope, lctx, lambda sc: self.fall(lctx))
            r, st = self.fresh("r"), self.fresh("st")

            def after(xs):
                exit_ret = "(Ok %s)" % r if ctx.loop is None else "(Ok (@Ret %s %s %s))" % (self.sty(ctx.loop), self.rty(), r)
                return ("(do %s <- py_for %s (fun %s %s => let %s := %s in\n  %s) %s ;;\n"
                        "  match %s with\n  | Ret %s => %s\n  | Next %s => let %s := %s in\n  %s\n  end)") % (
                    "o" + r, xs, tv, st, self.pat(state), st, unpack(body), self.tup(state),
                    "o" + r, r, exit_ret, st, self.pat(state), st, cont(scope))
            return self.iter_cps(s.iter, mut, after)
        if isinstance(s, ast.While):
            if s.orelse:
                raise Unsupported("while-else")
            key = (info.name, self.nwhile)
            self.nwhile += 1
            if key not in FUEL:
                raise Unsupported("%s: no fuel term for while loop %d" % key)
            carried = sorted(self.assigned(s.body) & scope)
            state = (["w"] if info.eff else []) + [V(n) for n in carried]
            lctx = Ctx(loop=state)
            cond = self.pure(s.test)
            body = self.block(s.body, scope, lctx, lambda sc: self.fall(lctx))
            r, st = self.fresh("r"), self.fresh("st")
            exit_ret = "(Ok %s)" % r if ctx.loop is None else "(Ok (@Ret %s %s %s))" % (self.sty(ctx.loop), self.rty(), r)
            return ("(do %s <- py_while %s (fun %s => let %s := %s in do c__ <- %s ;; py_truth c__)\n"
                    "  (fun %s => let %s := %s in\n  %s) %s ;;\n"
                    "  match %s with\n  | Ret %s => %s\n  | Next %s => let %s := %s in\n  %s\n  end)") % (
                "o" + r, FUEL[key], st, self.pat(state), st, cond, st, self.pat(state), st, body, self.tup(state),
                "o" + r, r, exit_ret, st, self.pat(state), st, cont(scope))
        if isinstance(s, ast.Try):
            if s.orelse or s.finalbody or len(s.handlers) != 1:
                raise Unsupported("%s: try shape" % info.name)
            h = s.handlers[0]
            if not isinstance(h.type, ast.Name) or h.type.id not in BUILTIN_ERR or h.name:
                raise Unsupported("%s: except clause" % info.name)
            # the protected statements must not change the state and must end in return on every path
            self.pure_depth += 1
            try:
                def no_fall(sc):
                    raise Unsupported("%s: try body can fall through" % info.name)
                body = self.block(s.body, scope, ctx, no_fall)
            finally:
                self.pure_depth -= 1
            handler = self.block(h.body, scope, ctx, lambda sc: cont(sc))
            err = BUILTIN_ERR[h.type.id]
            return "(match %s with\n  | Err %s => %s\n  | other__ => other__\n  end)" % (body, err, handler)
        raise Unsupported("%s: statement %s" % (info.name, type(s).__name__))

    def emit(self):
        info = self.info
        scope = frozenset(info.coq_params)
        for p in info.coq_params:
            if p == "w" or p.endswith("__") or p == "lower":
                raise Unsupported("parameter name %s" % p)
        ctx = Ctx()
        body = self.block(list(info.fn.body), scope, ctx, lambda sc: self.fall(ctx))
        params = "".join(" (%s : pyval)" % V(p) for p in info.coq_params)
        where = (info.cls + "." if info.cls else "") + info.name
        return "(* %s, line %d *)\nDefinition py_%s (w : world)%s : res %s :=\n  %s.\n" % (
            where, info.fn.lineno, info.name, params, self.rty(), body)


def find_def(tree, name, cls=None):
    nodes = tree.body
    if cls:
        for n in nodes:
            if isinstance(n, ast.ClassDef) and n.name == cls:
                nodes = n.body
                break
        else:
            raise Unsupported("class %s not found" % cls)
    found = [n for n in nodes if isinstance(n, ast.FunctionDef) and n.name == name]
    if len(found) != 1:
        raise Unsupported("function %s: %d definitions" % (name, len(found)))
    if found[0].decorator_list:
        raise Unsupported("function %s is decorated" % name)
    return found[0]


def error_map(tree):
    """exception class name -> PyPrims.err constructor, through the base classes in utility/error.py"""
    bases = {}
    for n in tree.body:
        if isinstance(n, ast.ClassDef):
            bases[n.name] = [b.id for b in n.bases if isinstance(b, ast.Name)]
    out = dict(BUILTIN_ERR)

    def resolve(c, depth=0):
        if c in out:
            return out[c]
        if depth > 10 or c not in bases:
            return None
        for b in bases[c]:
            r = resolve(b, depth + 1)
            if r:
                return r
        return None
    for c in bases:
        r = resolve(c)
        if r:
            out[c] = r
    return out


def iter_returns_taxa(tree):
    """TaxonNamespace.__iter__ is `return iter(self._taxa)`"""
    fn = find_def(tree, "__iter__", "TaxonNamespace")
    body = [s for s in fn.body if not (isinstance(s, ast.Expr) and isinstance(s.value, ast.Constant))]
    if len(body) == 1 and isinstance(body[0], ast.Return):
        v = body[0].value
        if (isinstance(v, ast.Call) and isinstance(v.func, ast.Name) and v.func.id == "iter" and len(v.args) == 1
                and isinstance(v.args[0], ast.Attribute) and v.args[0].attr == "_taxa"
                and isinstance(v.args[0].value, ast.Name) and v.args[0].value.id == "self"):
            return True
    raise Unsupported("TaxonNamespace.__iter__ is not `return iter(self._taxa)`")


def taxon_normal_form(tree):
    """Which str method Taxon.lower_cased_label applies to the member's label, read off
    Taxon._get_lower_cased_label; also checks the cache discipline that lets the translation ignore
    the cache: `_label` is assigned only by the `label` setter, which resets the cache, and the cache is
    otherwise only ever set to None or to <method>(current label)."""
    cls = None
    for n in tree.body:
        if isinstance(n, ast.ClassDef) and n.name == "Taxon":
            cls = n
    if cls is None:
        raise Unsupported("class Taxon not found")

    def body_of(name):
        fn = find_def(tree, name, "Taxon")
        return fn, [s for s in fn.body if not (isinstance(s, ast.Expr) and isinstance(s.value, ast.Constant))]

    def is_self_attr(e, attr):
        return isinstance(e, ast.Attribute) and e.attr == attr and isinstance(e.value, ast.Name) and e.value.id == "self"

    def is_none(e):
        return isinstance(e, ast.Constant) and e.value is None

    def is_none_test(e, attr):
        return (isinstance(e, ast.Compare) and len(e.ops) == 1 and isinstance(e.ops[0], ast.Is)
                and is_self_attr(e.left, attr) and is_none(e.comparators[0]))
    fn, b = body_of("_get_lower_cased_label")
    if [a.arg for a in fn.args.args] != ["self"] or len(b) != 3:
        raise Unsupported("Taxon._get_lower_cased_label: shape")
    s0, s1, s2 = b
    if not (isinstance(s0, ast.If) and is_none_test(s0.test, "_label") and not s0.orelse and len(s0.body) == 1
            and isinstance(s0.body[0], ast.Return) and is_none(s0.body[0].value)):
        raise Unsupported("Taxon._get_lower_cased_label: first statement")
    if not (isinstance(s1, ast.If) and is_none_test(s1.test, "_lower_cased_label") and not s1.orelse and len(s1.body) == 1
            and isinstance(s1.body[0], ast.Assign) and len(s1.body[0].targets) == 1
            and is_self_attr(s1.body[0].targets[0], "_lower_cased_label")):
        raise Unsupported("Taxon._get_lower_cased_label: second statement")
    v = s1.body[0].value
    if not (isinstance(v, ast.Call) and not v.args and not v.keywords and isinstance(v.func, ast.Attribute)
            and isinstance(v.func.value, ast.Call) and isinstance(v.func.value.func, ast.Name) and v.func.value.func.id == "str"
            and len(v.func.value.args) == 1 and is_self_attr(v.func.value.args[0], "_label") and v.func.attr in STRNORM):
        raise Unsupported("Taxon._get_lower_cased_label: the cached value is not str(self._label).lower()/.casefold()")
    method = v.func.attr
    if not (isinstance(s2, ast.Return) and is_self_attr(s2.value, "_lower_cased_label")):
        raise Unsupported("Taxon._get_lower_cased_label: return")
    fn, b = body_of("_get_label")
    if not (len(b) == 1 and isinstance(b[0], ast.Return) and is_self_attr(b[0].value, "_label")):
        raise Unsupported("Taxon._get_label: shape")
    fn, b = body_of("_set_label")
    if not ([a.arg for a in fn.args.args] == ["self", "v"] and len(b) == 2
            and isinstance(b[0], ast.Assign) and len(b[0].targets) == 1 and is_self_attr(b[0].targets[0], "_label")
            and isinstance(b[0].value, ast.Name) and b[0].value.id == "v"
            and isinstance(b[1], ast.Assign) and len(b[1].targets) == 1 and is_self_attr(b[1].targets[0], "_lower_cased_label")
            and is_none(b[1].value)):
        raise Unsupported("Taxon._set_label does not reset the lower-cased cache")
    props = {}
    for n in cls.body:
        if (isinstance(n, ast.Assign) and len(n.targets) == 1 and isinstance(n.targets[0], ast.Name)
                and isinstance(n.value, ast.Call) and isinstance(n.value.func, ast.Name) and n.value.func.id == "property"):
            props[n.targets[0].id] = [a.id if isinstance(a, ast.Name) else None for a in n.value.args]
    if props.get("label") != ["_get_label", "_set_label"] or props.get("lower_cased_label") != ["_get_lower_cased_label"]:
        raise Unsupported("Taxon.label / Taxon.lower_cased_label are not the expected properties")
    for f in cls.body:
        if not isinstance(f, ast.FunctionDef):
            continue
        for n in ast.walk(f):
            if isinstance(n, (ast.Assign, ast.AugAssign)):
                for t in (n.targets if isinstance(n, ast.Assign) else [n.target]):
                    if is_self_attr(t, "_label") and f.name != "_set_label":
                        raise Unsupported("Taxon.%s assigns _label without resetting the cache" % f.name)
                    if is_self_attr(t, "_lower_cased_label") and f.name != "_get_lower_cased_label" and not (
                            isinstance(n, ast.Assign) and is_none(n.value)):
                        raise Unsupported("Taxon.%s writes the lower-cased cache" % f.name)
    return method


def generate(repo):
    src = os.path.join(repo, "src", "dendropy")
    files = {"tm": os.path.join("datamodel", "taxonmodel.py"), "np": os.path.join("dataio", "nexusprocessing.py"),
             "bp": os.path.join("utility", "bitprocessing.py"), "er": os.path.join("utility", "error.py")}
    trees = {}
    for k, rel in files.items():
        with open(os.path.join(src, rel)) as f:
            trees[k] = ast.parse(f.read())
    infos = {}
    for key, cls, name, selfname in PLAN:
        if name in infos:
            raise Unsupported("duplicate function name %s" % name)
        infos[name] = Info(key, cls, find_def(trees[key], name, cls), selfname)
    comp = Compiler(infos, error_map(trees["er"]), iter_returns_taxa(trees["tm"]))
    comp.analyse()
    out = ["(* GENERATED by py/dv/gen_namespace.py from datamodel/taxonmodel.py, dataio/nexusprocessing.py and",
           "   utility/bitprocessing.py -- do not edit.  Meaning of the primitives: coq/Model/C10NsPrims.v *)",
           "From Coq Require Import ZArith List Bool String.",
           "From DV Require Import Model.PyPrims Model.C10Model Model.C10ModelExt Model.C10NsPrims.",
           "Import ListNotations.",
           "Open Scope Z_scope.", "",
           "Section Namespace.",
           "Variable lower : lbl -> lbl.",
           "Variable casefold : lbl -> lbl.", "",
           "(* Taxon._get_lower_cased_label: the normal form cached for a member's label (the cache itself is",
           "   not represented: the label setter resets it, nothing else writes it - checked by the generator) *)",
           "Definition member_normal_form : strnorm := %s." % STRNORM[taxon_normal_form(trees["tm"])],
           "Definition py_Taxon_lower_cased_label (w : world) (v_self : pyval) : res pyval :=",
           "  (do l__ <- py_attr_label w v_self ;; py_str_norm lower casefold member_normal_form l__).", ""]
    for name in comp.order():
        out.append(comp.function(infos[name]))
    out.append("End Namespace.")
    return "\n".join(out) + "\n"


if __name__ == "__main__":
    import sys
    print(generate(sys.argv[1] if len(sys.argv) > 1 else "/repo"))
