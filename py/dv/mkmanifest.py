"""Assemble MANIFEST.json from manifest/Cxx.json fragments (one per claimed property)."""
import json
import os
import sys

ROOT = os.path.dirname(os.path.dirname(os.path.dirname(os.path.abspath(__file__))))

NA_REASON = {}


def main():
    checks = []
    claimed = set()
    frag_dir = os.path.join(ROOT, "manifest")
    approved = set(json.load(open(os.path.join(frag_dir, "_approved.json"))))
    for fn in sorted(os.listdir(frag_dir)):
        if not fn.endswith(".json") or fn.startswith("_"):
            continue
        fr = json.load(open(os.path.join(frag_dir, fn)))
        pid = fr["property_id"]
        if pid not in approved:
            continue
        claimed.add(pid)
        checks.append({
            "property_id": pid,
            "quick_cmd": "./check %s --tier quick" % pid,
            "thorough_cmd": "./check %s --tier thorough" % pid,
            "evidence_file": "/verif/evidence/%s.json" % pid,
            "replay_cmd_template": "./check %s --replay {path}" % pid,
            "engine": "coq-dv",
            "level_claimed": fr["level_claimed"],
            "level_note": fr["level_note"],
            "technique": fr["technique"],
        })
    na_file = os.path.join(frag_dir, "_not_applicable.json")
    na_reasons = json.load(open(na_file)) if os.path.exists(na_file) else {}
    na = []
    for i in range(1, 21):
        pid = "C%02d" % i
        if pid not in claimed:
            na.append({"property_id": pid, "reason": na_reasons.get(pid, "check not yet built in this session; not a claim that machine-checked proof cannot apply (see DESIGN.md section 9)")})
    man = {
        "version": 1,
        "setup_cmd": "./check setup",
        "hooks": {
            "guard": "DENDROPY_VERIF",
            "enable": "no source hooks are used: every check imports the working tree directly (PYTHONPATH=/repo/src, PYTHONHASHSEED=0, /venv/bin/python)",
            "baseline_off_cmd": "cd /repo && /venv/bin/python -m pytest -ra -q -p no:cacheprovider --timeout=900 --continue-on-collection-errors",
            "source_commits": [],
            "add_only": True,
        },
        "engines": [{"name": "coq-dv", "path": "/verif/check", "serves_properties": sorted(claimed),
                     "kind_free_text": "Coq 8.16.1 development (coq/Gen regenerated from /repo/src by py/dv/py2coq.py, coq/Model executable Gallina models, coq/Proofs, coq/Props theorem files with Print Assumptions) + Python differential correspondence harness evaluating the model by vm_compute inside coqc"}],
        "checks": checks,
        "not_applicable": na,
        "notes": "Deciding technique for every claimed property: machine-checked proof in Coq about an executable model, tied to the source by a fail-closed translator (coq/Gen) and/or a differential correspondence check run on every invocation. See DESIGN.md.",
    }
    with open(os.path.join(ROOT, "MANIFEST.json"), "w") as f:
        json.dump(man, f, indent=1)
    print("MANIFEST.json: %d checks, %d not claimed" % (len(checks), len(na)))


if __name__ == "__main__":
    main()
