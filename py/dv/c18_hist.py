"""C18 - histories within ONE interpreter session.

A simulator must be a function of its arguments and the generator state: nothing computed earlier
in the session (module-level caches, class attributes, the global generator) may leak into it.
`python -m dv.c18_hist` is a worker: it reads {"steps": [...], "case": ..., "seed": ..., "script": ...}
from stdin, performs the polluting public calls `steps` in order, then runs the simulator under test
twice - on a scripted generator (lazily chosen draws, or the explicit `script`) and on
random.Random(seed) - and prints the observations as JSON.  The harness (dv.c18.history_*) runs one
worker with the history and one fresh worker without it and compares.
"""
import json
import random
import sys


def do_step(step):
    """one polluting public call; exceptions are part of ordinary use and ignored"""
    import dendropy
    from dendropy.model import coalescent, birthdeath
    from dendropy.calculate import probability, combinatorics
    from dendropy.simulate import treesim
    k = step[0]
    rng = random.Random(step[1])
    try:
        if k == "time_to_coalescence":
            coalescent.time_to_coalescence(step[2], pop_size=step[3], n_to_coalesce=step[4], rng=rng)
        elif k == "discrete_time_to_coalescence":
            coalescent.discrete_time_to_coalescence(step[2], pop_size=step[3], n_to_coalesce=step[4], rng=rng)
        elif k == "expected_tmrca":
            coalescent.expected_tmrca(step[2], pop_size=step[3], n_to_coalesce=step[4])
        elif k == "kingman":
            ns = dendropy.TaxonNamespace(["p%d" % i for i in range(step[2])])
            treesim.pure_kingman_tree(ns, pop_size=step[3], rng=rng)
        elif k == "mean_kingman":
            ns = dendropy.TaxonNamespace(["p%d" % i for i in range(step[2])])
            coalescent.mean_kingman_tree(ns, pop_size=step[3], rng=rng)
        elif k == "coalesce_nodes":
            nodes = [dendropy.Node() for _ in range(step[2])]
            coalescent.coalesce_nodes(nodes, pop_size=step[3], period=step[4], rng=rng)
        elif k == "bd":
            treesim.birth_death_tree(step[2], step[3], num_extant_tips=step[4], rng=rng)
        elif k == "fbd":
            birthdeath.fast_birth_death_tree(step[2], step[3], num_extant_tips=step[4], rng=rng)
        elif k == "discrete_bd":
            birthdeath.discrete_birth_death_tree(step[2], step[3], num_extant_tips=step[4], rng=rng)
        elif k == "pb":
            ns = dendropy.TaxonNamespace(["p%d" % i for i in range(step[2])])
            treesim.uniform_pure_birth_tree(ns, step[3], rng=rng)
        elif k == "contained":
            sp = dendropy.Tree.get(data=step[2], schema="newick")
            m = dendropy.TaxonNamespaceMapping.create_contained_taxon_mapping(sp.taxon_namespace, num_contained=step[3])
            treesim.contained_coalescent_tree(sp, m, rng=rng)
        elif k == "constrained":
            sp = dendropy.Tree.get(data=step[2], schema="newick")
            coalescent.constrained_kingman_tree(sp, rng=rng, num_genes=step[3])
        elif k == "weighted_choice":
            probability.weighted_choice(list(range(step[2])), [1.0] * step[2], rng=rng)
        elif k == "poisson_rv":
            probability.poisson_rv(step[2], rng=rng)
        elif k == "choose":
            combinatorics.choose(step[2], step[3])
        elif k == "global_rng":
            import dendropy.utility
            dendropy.utility.GLOBAL_RNG.seed(step[2])
            dendropy.utility.GLOBAL_RNG.random()
        elif k == "star_tree":
            ns = dendropy.TaxonNamespace(["p%d" % i for i in range(step[2])])
            treesim.star_tree(ns)
        else:
            raise ValueError("unknown step %r" % (step,))
    except ValueError as e:
        if "unknown step" in str(e):
            raise
    except Exception:
        pass


def gen_steps(rng, case):
    """polluting public calls aimed at the simulator under test: other parameters, other counts"""
    n_hint = case.get("N") or 6
    steps = []
    for _ in range(rng.randint(1, 5)):
        kind = rng.choice(["ttc", "ttc", "ttc_range", "dttc", "etmrca", "kingman", "mean_kingman", "coalesce_nodes",
                           "bd", "fbd", "discrete_bd", "pb", "contained", "constrained", "weighted_choice",
                           "poisson_rv", "choose", "global_rng", "star_tree"])
        s = rng.getrandbits(30)
        if kind == "ttc":
            steps.append(["time_to_coalescence", s, rng.randint(3, max(4, n_hint + 3)), rng.choice([1, 2.0, None, 0.5]),
                          rng.choice([3, 3, 4, 1])])
        elif kind == "ttc_range":
            k = rng.choice([3, 3, 4, 1])
            for n in range(3, max(5, n_hint + 4)):
                steps.append(["time_to_coalescence", s + n, n, rng.choice([1, 2.0, None]), k])
        elif kind == "dttc":
            steps.append(["discrete_time_to_coalescence", s, rng.randint(2, n_hint + 3), rng.choice([1, 2, 5]), rng.choice([2, 3])])
        elif kind == "etmrca":
            steps.append(["expected_tmrca", s, rng.randint(2, n_hint + 3), rng.choice([1, 3.0, None]), rng.choice([2, 3])])
        elif kind in ("kingman", "mean_kingman"):
            steps.append([kind, s, rng.randint(1, n_hint + 4), rng.choice([1, 0.25, 7])])
        elif kind == "coalesce_nodes":
            steps.append(["coalesce_nodes", s, rng.randint(1, n_hint + 3), rng.choice([1, 3.0]), rng.choice([None, 0.5, 2.0])])
        elif kind in ("bd", "fbd"):
            steps.append([kind, s, rng.choice([1.0, 0.3, 2.0]), rng.choice([0.0, 0.1, 0.25]), rng.randint(1, n_hint + 5)])
        elif kind == "discrete_bd":
            steps.append(["discrete_bd", s, 0.4, 0.1, rng.randint(2, 6)])
        elif kind == "pb":
            steps.append(["pb", s, rng.randint(1, n_hint + 4), rng.choice([1.0, 0.5, 3.0])])
        elif kind == "contained":
            steps.append(["contained", s, "[&R] ((A:1,B:1):2,(C:0.5,D:0.5):2.5);", rng.randint(1, 4)])
        elif kind == "constrained":
            steps.append(["constrained", s, "[&R] ((A:1,B:1):2,C:3);", rng.randint(2, 7)])
        elif kind == "weighted_choice":
            steps.append(["weighted_choice", s, rng.randint(1, 9)])
        elif kind == "poisson_rv":
            steps.append(["poisson_rv", s, rng.choice([0.5, 3.0, 80.0])])
        elif kind == "choose":
            steps.append(["choose", s, rng.randint(2, 12), rng.choice([2, 3])])
        elif kind == "global_rng":
            steps.append(["global_rng", s, rng.getrandbits(20)])
        else:
            steps.append(["star_tree", s, rng.randint(1, 6)])
    return steps


def worker():
    from dv import c18
    job = json.load(sys.stdin)
    for st in job.get("steps", []):
        do_step(st)
    case = dict(job["case"])
    out = {}
    # scripted generator (exact): observation incl. the arguments of every generator call
    if job.get("script") is not None:
        case["script"] = job["script"]
    obs = c18._observe(case)
    out["scripted"] = {"out": obs["out"], "script": obs["script"], "calls": obs["calls"], "touched": obs["touched"],
                       "extra": {k: v for k, v in (obs.get("extra") or {}).items() if k != "gene_order"}}
    # real seed
    c2 = {k: v for k, v in job["case"].items() if k not in ("seed", "policy", "cap", "script")}
    r = c18.run_seed(c2, job["seed"])
    out["seeded"] = {"out": r["out"][0], "newick": r.get("newick"), "err": r["out"][1:] if r["out"][0] != "tree" else None,
                     "touched": r["touched"]}
    json.dump(out, sys.stdout, default=str)


if __name__ == "__main__":
    worker()
