"""C06 part (ii): the real SumTrees collation path.

TreeProcessor.analyze_trees is run on 1-4 small tree files (Newick, or NEXUS - then files after the
first may hold NO tree: TAXA block only / empty TREES block - with a burn-in of 0-2 trees per file)
under /var/tmp/dv-C06 in serial mode and with num_processes 2 .. files+2 (real multiprocessing).  The schedule that really happened (which
worker process read which file, in which order the results were merged) is observed through two
wrappers installed from outside (no change to the library):
  * sumtrees._read_into_tree_array  - tags the worker's TreeArray with the files it was given
    (the tag travels back to the parent inside the pickled array)
  * TreeArray.update                - in the parent: logs the arrival order
The model's collation under that schedule must reproduce the master array exactly; the oracle
compares every parallel run with the serial run and with a naive pooling of all trees.
A few runs go through the command line interface (sumtrees main, -m N) and compare the output
files.
"""
import hashlib
import json
import os
import random
import shutil
import subprocess
import sys
import time

from dv import core, trees
from dv.core import cz, cbool, clist, copt, cnat

SCRATCH = "/var/tmp/dv-C06"


def gen_case(rng, idx):
    from dv import c06
    ntax = rng.randint(4, 7)
    nfiles = rng.randint(1, 4)
    mode = rng.choice(["explicit-rooted", "explicit-unrooted", "implicit-none", "implicit-R", "implicit-U",
                       "implicit-none", "explicit-unrooted"])
    ages_on = mode in ("explicit-rooted", "implicit-R") and rng.random() < 0.5
    use_w = rng.random() < 0.4
    n_distinct = rng.randint(1, 3)
    pool = c06.gen_tree_pool(rng, ntax, ages_on, n_distinct)
    if ages_on:
        for t in pool:
            c06.make_ultrametric(t, rng)
            t["len"] = None
    # NEXUS sources may hold NO tree (TAXA block only / empty TREES block): a worker that fetches such a
    # file contributes nothing, serial mode skips a file index (wave 7)
    schema = "nexus" if rng.random() < 0.4 else "newick"
    files = []
    forms = []
    for f in range(nfiles):
        n = rng.choice([1, 1, 2, 3, 4]) if f > 0 else rng.choice([1, 2, 3])
        if schema == "nexus" and f > 0 and rng.random() < 0.3:
            n = 0
        forms.append("trees" if n else rng.choice(["taxa-only", "empty-block"]))
        files.append([{"tree": rng.randrange(n_distinct),
                       "weight": rng.choice([512, 1024, 2048, 3072]) if use_w else None} for _ in range(n)])
    # the first tree of the first file defines the taxa (discover_taxa): it has all of them by construction
    burnin = rng.choice([0, 0, 0, 1]) if schema == "newick" else rng.choice([0, 1, 1, 2])
    mixed = mode.startswith("implicit") and nfiles > 1 and rng.random() < 0.12
    return {"kind": "sumtrees", "id": idx, "ntax": ntax, "mode": mode, "ages_on": ages_on, "use_w": use_w,
            "pool": pool, "files": files, "burnin": burnin, "mixed_rooting_files": mixed, "schema": schema, "forms": forms,
            "nprocs": sorted(set([2, nfiles, nfiles + 1, nfiles + 2]) - {1}),
            "repeats": 1}


def file_token(case, fidx):
    mode = case["mode"]
    tok = {"implicit-R": "[&R] ", "implicit-U": "[&U] "}.get(mode, "")
    if case["mixed_rooting_files"] and fidx == len(case["files"]) - 1:
        tok = "[&R] " if tok != "[&R] " else ""
    if mode.startswith("explicit") and fidx % 2 == 1:
        tok = "[&R] " if mode == "explicit-unrooted" else "[&U] "     # overridden by --rooted/--unrooted
    return tok


def write_files(case, d):
    paths = []
    nexus = case.get("schema", "newick") == "nexus"
    for i, f in enumerate(case["files"]):
        p = os.path.join(d, "f%d.%s" % (i, "nex" if nexus else "tre"))
        with open(p, "w") as fh:
            if nexus:
                fh.write("#NEXUS\nBEGIN TAXA;\n  DIMENSIONS NTAX=%d;\n  TAXLABELS %s;\nEND;\n"
                         % (case["ntax"], " ".join("t%d" % k for k in range(case["ntax"]))))
                if f or case["forms"][i] == "empty-block":
                    fh.write("BEGIN TREES;\n")
            for j, occ in enumerate(f):
                w = "" if occ["weight"] is None else "[&W %r] " % (occ["weight"] * trees.UNIT)
                fh.write(("  TREE tr%d = " % j if nexus else "") + file_token(case, i) + w + trees.newick(case["pool"][occ["tree"]]) + "\n")
            if nexus and (f or case["forms"][i] == "empty-block"):
                fh.write("END;\n")
        paths.append(p)
    return paths


def settings(case):
    rooted = {"explicit-rooted": True, "explicit-unrooted": False}.get(case["mode"])
    return dict(is_source_trees_rooted=rooted, ignore_edge_lengths=False, ignore_node_ages=not case["ages_on"],
                use_tree_weights=case["use_w"], ultrametricity_precision=1e-5, taxon_label_age_map=None,
                log_frequency=0, messenger=None, debug_mode=True)


class Spy:
    """observe the schedule without touching the library"""

    def __enter__(self):
        import dendropy
        from dendropy.application import sumtrees
        self.sumtrees = sumtrees
        self.TA = dendropy.TreeArray
        self.arrivals = []
        self.orig_read = sumtrees._read_into_tree_array
        self.orig_update = self.TA.update
        spy = self

        def read(tree_array, tree_sources, *a, **k):
            tree_array.__dict__.setdefault("_dv_files", []).extend(list(tree_sources))
            return spy.orig_read(tree_array, tree_sources, *a, **k)

        def update(self_, other):
            spy.arrivals.append({"worker": getattr(other, "worker_name", None),
                                 "files": list(getattr(other, "_dv_files", [])), "n": len(other)})
            return spy.orig_update(self_, other)
        sumtrees._read_into_tree_array = read
        self.TA.update = update
        return self

    def __exit__(self, *a):
        self.sumtrees._read_into_tree_array = self.orig_read
        self.TA.update = self.orig_update
        return False


def summary_of(ta):
    """the summary tree and its supports, the MCC tree and score, as canonical data"""
    out = {}
    try:
        con = ta.consensus_tree(min_freq=0.5)
        con.encode_bipartitions()
        items = []
        for nd in con.postorder_node_iter():
            sup = nd.annotations.get_value("support", None)
            items.append([nd.edge.bipartition.split_bitmask, None if sup is None else round(float(sup), 9),
                          None if nd.edge.length is None else round(float(nd.edge.length), 9)])
        out["consensus"] = sorted(items)
        out["consensus_rooted"] = con.is_rooted
    except Exception as e:
        out["consensus_error"] = "%s: %s" % (type(e).__name__, e)
    if len(ta):
        try:
            sc, idx = ta.calculate_log_product_of_split_supports()
            out["mcc_score"] = max(sc)
            out["mcc_unique"] = len({tuple(sorted(ta._tree_split_bitmasks[i])) for i, x in enumerate(sc)
                                     if max(sc) - x <= 1e-9}) == 1
            t = ta.maximum_product_of_split_support_tree(summarize_splits=False)
            t.encode_bipartitions()
            out["mcc_splits"] = sorted(b.split_bitmask for b in t.bipartition_encoding)
        except Exception as e:
            out["mcc_error"] = "%s: %s" % (type(e).__name__, e)
    return out


def run_processor(case, paths, nproc):
    from dendropy.application import sumtrees
    from dv import c06
    res = {"nproc": nproc}
    with Spy() as spy:
        try:
            with core.alarm(90):
                tp = sumtrees.TreeProcessor(num_processes=nproc, **settings(case))
                ta = tp.analyze_trees(tree_sources=list(paths), schema=case.get("schema", "newick"), taxon_namespace=None,
                                      tree_offset=case["burnin"], preserve_underscores=False)
            res["state"] = c06.dump_state(ta)
            res["summary"] = summary_of(ta)
            res["error"] = None
        except BaseException as e:
            if isinstance(e, (KeyboardInterrupt, SystemExit)):
                raise
            res["error"] = c06.err_name(e)
            res["error_text"] = "%s: %s" % (type(e).__name__, str(e)[:300])
        res["arrivals"] = spy.arrivals
    return res


def file_records(case, paths):
    """the per-tree records of every file as the workers' readers deliver the trees"""
    import dendropy
    from dv import c06
    rooted = settings(case)["is_source_trees_rooted"]
    rooting = dendropy.get_rooting_argument(is_rooted=rooted)
    first = None
    schema = case.get("schema", "newick")
    for t in dendropy.Tree.yield_from_files([paths[0]], schema=schema):
        first = t
        break
    labels = [t.label for t in first.taxon_namespace]
    out = []
    for p in paths:
        recs = []

        def load():
            ns = dendropy.TaxonNamespace(labels)
            ns.is_mutable = False
            return ns, list(dendropy.Tree.yield_from_files([p], schema=schema, taxon_namespace=ns, rooting=rooting,
                                                           store_tree_weights=case["use_w"]))
        ns1, l1 = load()
        ns2, l2 = load()
        for k, (t1, t2) in enumerate(zip(l1, l2)):
            if k < case["burnin"]:
                continue
            seen = t1.is_rooted
            weight = None if t1.weight is None else c06.units(float(t1.weight))
            ta = dendropy.TreeArray(taxon_namespace=ns1, ignore_node_ages=True)
            ta.add_tree(t1)
            rec = {"splits": list(ta._tree_split_bitmasks[0]), "elens": [c06.units(x) for x in ta._tree_edge_lengths[0]],
                   "leafset": ta._tree_leafset_bitmasks[0], "weight": weight, "rooting": seen, "ages_ok": True,
                   "ages": [None] * len(ta._tree_split_bitmasks[0])}
            tb = dendropy.TreeArray(taxon_namespace=ns2, ignore_node_ages=False)
            sd = tb._split_distribution
            got = {}
            orig = sd.count_splits_on_tree

            def wrapped(*a, _orig=orig, **kw):
                r = _orig(*a, **kw)
                got["r"] = r
                return r
            sd.count_splits_on_tree = wrapped
            try:
                tb.add_tree(t2)
                if list(got["r"][0]) == rec["splits"]:
                    rec["ages"] = [c06.units(x) for x in got["r"][2]]
            except Exception as e:
                rec["ages_ok"] = c06.err_name(e)
            recs.append(rec)
        out.append(recs)
    return out


def observe(case):
    d = os.path.join(SCRATCH, "st-%d-%s" % (os.getpid(), case["id"]))
    shutil.rmtree(d, ignore_errors=True)
    os.makedirs(d)
    try:
        paths = write_files(case, d)
        obs = {"files": [os.path.basename(p) for p in paths]}
        obs["records"] = file_records(case, paths)
        obs["serial"] = run_processor(case, paths, 1)
        runs = []
        for nproc in case["nprocs"]:
            for _ in range(case["repeats"]):
                r = run_processor(case, paths, nproc)
                for a in r["arrivals"]:
                    a["files"] = [os.path.basename(f) for f in a["files"]]
                runs.append(r)
        obs["runs"] = runs
        obs["runs_summary"] = [[r["nproc"], r["error"], [[a["worker"], a["files"]] for a in r["arrivals"]]] for r in runs]
        if case.get("cli"):
            obs["cli"] = run_cli(case, paths, d)
        return obs
    finally:
        shutil.rmtree(d, ignore_errors=True)


def run_cli(case, paths, d):
    """the command line program: default (serial) against -m N; the output tree files must agree"""
    res = {}
    env = dict(os.environ)
    base = [sys.executable, "-m", "dendropy.application.sumtrees", "-q", "-r", "--no-meta-comments", "-F", "newick"]
    if case.get("schema", "newick") != "newick":
        base += ["-i", case["schema"]]
    if case["mode"] == "explicit-rooted":
        base.append("--rooted")
    elif case["mode"] == "explicit-unrooted":
        base.append("--unrooted")
    if case["use_w"]:
        base.append("--weighted-trees")
    if case["burnin"]:
        base += ["-b", str(case["burnin"])]
    if case["ages_on"]:
        base += ["-e", "mean-age"]
    for tag, extra in [("serial", [])] + [("m%d" % n, ["-m", str(n)]) for n in case["nprocs"]]:
        out = os.path.join(d, "out-%s.tre" % tag)
        p = subprocess.run(base + extra + ["-o", out] + list(paths), env=env, stdout=subprocess.PIPE,
                           stderr=subprocess.STDOUT, text=True, timeout=180)
        txt = open(out).read() if os.path.exists(out) else None
        res[tag] = {"rc": p.returncode, "tree": txt, "log": p.stdout[-400:]}
    return res


def oracle_all(case, obs):
    """every violation visible in the case (a run that hits a listed finding must not hide another run)"""
    from dv import c06
    found = []
    ser = obs["serial"]
    allrecs = [r for f in obs["records"] for r in f]
    rootings = {r["rooting"] for r in allrecs}
    expect_fail = len(rootings) > 1 or any(r["ages_ok"] is not True for r in allrecs if case["ages_on"])
    if ser["error"] is not None and not expect_fail:
        found.append(("sumtrees serial mode fails on compatible sources: %s" % ser["error_text"], "serial-fails"))
    if ser["error"] is None:
        flags = ser["state"]["flags"][:3]
        v = c06.compare_pooled(ser["state"], c06.pooled(allrecs, flags), "serial mode")
        if v:
            found.append(v)
    for r in obs["runs"]:
        what = "num_processes=%d, schedule %s" % (r["nproc"], [[a["worker"], a["files"]] for a in r["arrivals"]])
        if ser["error"] is not None:
            if r["error"] is None and complete(obs, r):
                found.append(("serial mode raises (%s) but %s succeeds" % (ser["error"], what), "parallel-succeeds-serial-fails"))
            continue
        if r["error"] is not None:
            found.append(("serial mode succeeds but %s raises %s" % (what, r["error_text"]), "parallel-raises:" + r["error"]))
            continue
        if len(r["arrivals"]) != r["nproc"]:
            found.append(("%s: %d results merged" % (what, len(r["arrivals"])), "results-missing"))
            continue
        if not complete(obs, r):
            seen = sorted(f for a in r["arrivals"] for f in a["files"])
            found.append(("%s: the workers read only %s of the input files %s - every worker found the work queue (still) "
                          "empty and quit; the run ends WITHOUT an error with %d trees (serial mode: %d)"
                          % (what, seen, sorted(obs["files"]), len(r["state"]["splits"]), len(ser["state"]["splits"])),
                          "work-queue-race-files-dropped"))
            continue
        v = c06.compare_pooled(r["state"], c06.pooled(allrecs, r["state"]["flags"][:3]), what)
        if v:
            found.append(v)
            continue
        bad = False
        for fld in ("counts", "sel", "sag", "total", "sumw", "rooting", "rt", "rf"):
            if r["state"][fld] != ser["state"][fld]:
                found.append(("%s: %s differs from serial mode" % (what, fld), "parallel-vs-serial:" + fld))
                bad = True
        if bad:
            continue
        a, b = r["summary"], ser["summary"]
        for fld in ("consensus", "consensus_rooted", "consensus_error", "mcc_error"):
            if a.get(fld) != b.get(fld):
                found.append(("%s: %s differs from serial mode: %s vs %s" % (what, fld, str(a.get(fld))[:200], str(b.get(fld))[:200]),
                              "parallel-vs-serial:" + fld))
        if "mcc_score" in b and "mcc_score" in a:
            if abs(a["mcc_score"] - b["mcc_score"]) > 1e-9 * max(1.0, abs(b["mcc_score"])):
                found.append(("%s: maximum credibility score %r vs serial %r" % (what, a["mcc_score"], b["mcc_score"]), "parallel-vs-serial:mcc-score"))
            elif b["mcc_unique"] and a["mcc_splits"] != b["mcc_splits"]:
                found.append(("%s: maximum credibility topology differs from serial mode" % what, "parallel-vs-serial:mcc-topology"))
    if "cli" in obs:
        ref = obs["cli"]["serial"]
        for tag, r in obs["cli"].items():
            if (r["rc"] == 0) != (ref["rc"] == 0):
                found.append(("sumtrees CLI %s exits %d, serial exits %d: %s" % (tag, r["rc"], ref["rc"], r["log"][-200:]), "cli-exit-differs"))
            elif r["rc"] == 0 and canon_newick(r["tree"]) != canon_newick(ref["tree"]):
                ntips = lambda t: sum(len(x[1]) for x in canon_newick(t))
                key = "work-queue-race-files-dropped" if "support=0" in (r["tree"] or "") or not (r["tree"] or "").strip() else "cli-tree-differs"
                found.append(("sumtrees CLI %s writes a different summary tree than serial mode: %s vs %s"
                              % (tag, (r["tree"] or "")[:120], (ref["tree"] or "")[:120]), key))
        if ref["rc"] != 0 and not expect_fail and allrecs:     # (no tree left after the burn-in: the CLI refuses, in every mode)
            found.append(("sumtrees CLI fails in serial mode: %s" % ref["log"][-200:], "cli-serial-fails"))
    return found


def complete(obs, r):
    return sorted(f for a in r["arrivals"] for f in a["files"]) == sorted(obs["files"])


def oracle(case, obs):
    from dv import c06
    return c06.pick(oracle_all(case, obs))


def canon_newick(txt):
    """summary tree file -> canonical (split, support label, length) list"""
    import dendropy
    tl = dendropy.TreeList.get(data=txt, schema="newick", rooting="default-unrooted")
    out = []
    for t in tl:
        ns = t.taxon_namespace
        labels = sorted(x.label for x in ns)
        idx = {l: i for i, l in enumerate(labels)}
        items = []

        def walk(nd):
            if nd.is_leaf():
                m = 1 << idx[nd.taxon.label]
            else:
                m = 0
                for c in nd.child_node_iter():
                    m |= walk(c)
            items.append([m, nd.label, None if nd.edge.length is None else round(nd.edge.length, 9)])
            return m
        walk(t.seed_node)
        out.append([t.is_rooted, sorted(items, key=lambda x: json.dumps(x))])
    return out


def to_coq(case, run, obs):
    from dv import c06
    s = settings(case)
    cfg = "(mkCfg %s %s %s %s)" % (copt(s["is_source_trees_rooted"], cbool), cbool(False),
                                   cbool(s["ignore_node_ages"]), cbool(s["use_tree_weights"]))
    files = clist([clist([c06.c_trec(r) for r in f]) for f in obs["records"]])
    workers = []
    for a in run["arrivals"]:
        workers.append(a["worker"])
    names = sorted(set(workers))
    widx = {w: i for i, w in enumerate(names)}
    assign = []
    for f in obs["files"]:
        w = [a["worker"] for a in run["arrivals"] if f in a["files"]]
        assign.append(widx[w[0]])
    sched = "(mkSched %s %s %s)" % (cnat(len(names)), clist([cnat(x) for x in assign]),
                                    clist([cnat(widx[w]) for w in workers]))
    return "(mkStCase %s %s %s %s %s)" % (cfg, files, sched, c06.c_est(obs["serial"]["state"]), c06.c_est(run["state"]))


def stage(ctx, tier):
    """generate, observe, oracle, and check the model's collation under every observed schedule"""
    from dv import c06
    os.makedirs(SCRATCH, exist_ok=True)
    rng = random.Random(ctx.rng.getrandbits(48))
    ncases = 10 if tier == "quick" else 60
    cases = []
    for i in range(ncases):
        c = gen_case(rng, i)
        if tier != "quick":
            c["repeats"] = 20 if i % 3 == 0 else 3
        c["cli"] = (i < 1) if tier == "quick" else (i % 6 == 0)
        cases.append(c)
    terms = []
    t0 = time.time()
    nruns = 0
    for c in cases:
        ctx.count("sumtrees:mode:" + c["mode"])
        ctx.count("sumtrees:files:%d" % len(c["files"]))
        ctx.count("sumtrees:schema:%s" % c.get("schema", "newick"))
        ctx.count("sumtrees:burnin:%d" % c["burnin"])
        ctx.count("sumtrees:files-without-trees:%d" % sum(1 for f in c["files"] if not f))
        try:
            obs = observe(c)
        except Exception as e:
            import traceback
            ctx.violation("harness could not run SumTrees on a case: %s: %s" % (type(e).__name__, e),
                          {"case": c, "traceback": traceback.format_exc()[-1500:]}, no_input=True)
            continue
        ctx.evaluations += 1 + len(obs["runs"])
        nruns += len(obs["runs"])
        ctx.distinct.add(hashlib.sha1(core.canon(c).encode()).hexdigest())
        for r in obs["runs"]:
            ctx.count("sumtrees:num_processes-minus-files:%+d" % (r["nproc"] - len(c["files"])))
            sig = [[a["files"]] for a in r["arrivals"]]
            ctx.count("sumtrees:idle-workers:%d" % sum(1 for a in r["arrivals"] if not a["files"]))
            ctx.distinct.add(hashlib.sha1((core.canon(c) + core.canon(sig)).encode()).hexdigest())
        for v in oracle_all(c, obs):
            ctx.violation(v[0], {"case": c, "observed": {k: obs[k] for k in ("files", "runs_summary") if k in obs}}, key=v[1])
        if len(ctx.samples) < 8:
            ctx.samples.append(c06.sample_fn(c, obs))
        if obs["serial"]["error"] is None:
            seen = set()
            for r in obs["runs"]:
                if r["error"] is None and len(r["arrivals"]) == r["nproc"] and complete(obs, r):
                    t = to_coq(c, r, obs)
                    if t not in seen:
                        seen.add(t)
                        terms.append(t)
    ctx.notes.append("sumtrees: %d cases, %d multiprocessing runs, %.1fs; %d distinct (case, schedule) pairs handed to the model"
                     % (len(cases), nruns, time.time() - t0, len(terms)))
    if terms:
        bad, errors = core.run_cases(ctx.pid, c06.HEADER, "(stcase_ok_v %s)" % cbool(getattr(ctx, "variants", (False, False))[0]),
                                    terms, shard=60, tag="_sumt")
        ctx.obligation("sumtrees: model evaluates all %d observed schedules (vm_compute)" % len(terms), not errors)
        for e in errors:
            ctx.notes.append(e[:1500])
        ctx.obligation("sumtrees: model collation under the observed schedule = master array of the real run (%d runs)" % len(terms), not bad and not errors)
        if bad or errors:
            ctx.violation("sumtrees: the model's collation under the observed schedule differs from the real master array "
                          "(or the model could not be evaluated) on %d run(s)" % (len(bad) or len(errors)),
                          {"first_bad_term": terms[bad[0]][:3000] if bad else None, "errors": [e[:800] for e in errors]},
                          no_input=True)
