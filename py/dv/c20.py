"""C20 - readers terminate on every input and report bad data as a parse error.

This is the malformed-input stream of DESIGN.md 6.20:
  * strings over the formats' token alphabets (exhaustive short ones + random up to 40 symbols),
  * single / double edits (delete, insert, replace, drop a span, insert a keyword) of generated valid
    Newick / NEXUS / PHYLIP / FASTA documents,
  * ALL truncation points of valid documents of every supported block structure.
Every read runs under an alarm.  The observation is the outcome class (+ validity when Ok); the
oracle is the property statement on the outcome class; the model comparison (`case_ok`) covers the
PHYLIP and FASTA readers completely (rows, labels, symbols, error class), the Newick reader's
outcome (C02's Model/Newick.v) and the outcome class of the NEXUS control skeleton.
"""
import io
import itertools
import json
import os
import re
import sys
import time
import traceback

from dv import core
from dv.core import cz, cbool, clist
from dv import c20_gen as G

HEADER = ("From DV Require Import Model.PyPrims Model.C20Model Model.C20Nexus2 Model.C20Case2.\n"
          "From Coq Require Import ZArith. Open Scope Z_scope.")

FAST_ALARM = 0.35     # first attempt; a timeout is confirmed under SLOW_ALARM before it counts as Hang
SLOW_ALARM = 5.0
CONFIRMATIONS = 1     # per (reader, innermost function): later timeouts at the same site are trusted

PRIMITIVE_FRAMES = {"is_eof", "next_token", "require_next_token", "next_token_ucase", "require_next_token_ucase",
                    "__next__", "_get_next_char", "_skip_to_significant_char", "_handle_comment",
                    "skip_to_semicolon", "cast_current_token_to_ucase", "read", "_h",
                    "process_and_clear_comments_for_item", "process_comments_for_item", "pull_captured_comments"}

DOCUMENTED_VALUE_ERROR_FRAMES = {"_parse_and_create_from_stream"}


# ---------------------------------------------------------------------------------------------
# running the real readers
# ---------------------------------------------------------------------------------------------

def _lib_frames(tb):
    return [f for f in traceback.extract_tb(tb) if "/dendropy/" in f.filename.replace("\\", "/")]


def _tree_problems(tree, max_nodes=400000):
    """pointer walk from the seed (iterative): the checks of trees.dump_dendropy"""
    problems = []
    seen = set()
    root = tree.seed_node
    if root is None:
        return ["tree has no seed node"]
    if root._parent_node is not None:
        problems.append("seed node has a parent")
    stack = [(root, None)]
    n = 0
    while stack:
        node, parent = stack.pop()
        n += 1
        if n > max_nodes:
            problems.append("walk exceeds %d nodes (cycle?)" % max_nodes)
            break
        if id(node) in seen:
            problems.append("a node is reached twice (shared or cyclic)")
            continue
        seen.add(id(node))
        if parent is not None and node._parent_node is not parent:
            problems.append("parent pointer does not point to the node listing it as child")
        if node.edge.head_node is not node:
            problems.append("edge.head_node is not the node")
        if node.edge.tail_node is not node._parent_node:
            problems.append("edge.tail_node is not the parent")
        if node.taxon is not None and tree.taxon_namespace is not None and node.taxon not in tree.taxon_namespace:
            problems.append("node taxon is not in the tree's namespace")
        el = node.edge.length
        if el is not None and not isinstance(el, (int, float)):
            problems.append("edge length of type %s" % type(el).__name__)
        for c in node._child_nodes:
            stack.append((c, node))
    if len(problems) == 0 and n < 300:
        # the shared dump, when it applies (it is recursive and wants dyadic lengths)
        try:
            from dv import trees as T
            tx = {id(t): i for i, t in enumerate(tree.taxon_namespace)} if tree.taxon_namespace is not None else {}
            _spec, pr = T.dump_dendropy(tree, tx)
            problems.extend(pr)
        except (ValueError, RecursionError, TypeError):
            pass
    return problems[:3]


def _matrix_rows(m):
    out = []
    for t in m:
        seq = m[t]
        out.append([t.label, "".join(str(s) for s in seq.symbols_as_list())])
    return out


def _call(reader, text, opts):
    import dendropy
    if reader == "newick":
        tl = dendropy.TreeList.get(data=text, schema="newick", **opts)
        return {"trees": len(tl), "problems": [p for t in tl for p in _tree_problems(t)][:3],
                "labels": [t.label for t in tl.taxon_namespace]}
    if reader == "newick1":
        t = dendropy.Tree.get(data=text, schema="newick", **opts)
        return {"trees": 1, "problems": _tree_problems(t)}
    if reader == "nexus":
        ds = dendropy.DataSet.get(data=text, schema="nexus", **opts)
        mats = []
        for m in ds.char_matrices:
            mats.append({"rows": len(m), "lens": [len(m[t]) for t in m], "ntaxa_ns": len(m.taxon_namespace)})
        return {"trees": sum(len(tl) for tl in ds.tree_lists),
                "problems": [p for tl in ds.tree_lists for t in tl for p in _tree_problems(t)][:3],
                "matrices": mats, "namespaces": [len(ns) for ns in ds.taxon_namespaces]}
    if reader == "nexus_trees":
        tl = dendropy.TreeList.get(data=text, schema="nexus", **opts)
        return {"trees": len(tl), "problems": [p for t in tl for p in _tree_problems(t)][:3]}
    if reader == "nexus_chars":
        m = dendropy.DnaCharacterMatrix.get(data=text, schema="nexus", **opts)
        return {"matrices": [{"rows": len(m), "lens": [len(m[t]) for t in m]}]}
    if reader in ("nexus_yield", "newick_yield", "nexusnewick_yield"):
        # the tree yielders (nexusyielder.py / newickyielder.py): Tree.yield_from_files
        schema = {"nexus_yield": "nexus", "newick_yield": "newick", "nexusnewick_yield": "nexus/newick"}[reader]
        ts = list(dendropy.Tree.yield_from_files(files=[io.StringIO(text)], schema=schema, **opts))
        return {"trees": len(ts), "problems": [p for t in ts for p in _tree_problems(t)][:3]}
    if reader == "phylip":
        m = dendropy.DnaCharacterMatrix.get(data=text, schema="phylip", **opts)
        return {"rows": _matrix_rows(m)}
    if reader == "fasta":
        m = dendropy.DnaCharacterMatrix.get(data=text, schema="fasta", **opts)
        return {"rows": _matrix_rows(m)}
    raise ValueError("unknown reader " + reader)


def _run_once(reader, text, opts, seconds):
    from dendropy.utility import error as dperr
    try:
        with core.alarm(seconds):
            return {"cls": "Ok", "ok": _call(reader, text, dict(opts))}
    except TimeoutError:
        fr = _lib_frames(sys.exc_info()[2])
        name, line = "?", 0
        for f in reversed(fr):
            if f.name not in PRIMITIVE_FRAMES:
                name, line = f.name, f.lineno
                break
        return {"cls": "Hang", "frame": name, "line": line}
    except RecursionError:
        fr = _lib_frames(sys.exc_info()[2])
        names = [f.name for f in fr[-60:]]
        name = max(set(names), key=names.count) if names else "?"
        return {"cls": "RecursionErr", "frame": name}
    except MemoryError:
        # unbounded allocation under the worker's address-space limit: a loop that does not end
        name = "?"
        try:
            tb = sys.exc_info()[2]
            names = []
            while tb is not None:          # (no source lines: nothing large may be allocated here)
                co = tb.tb_frame.f_code
                if "/dendropy/" in co.co_filename.replace("\\", "/"):
                    names.append(co.co_name)
                tb = tb.tb_next
            for nm in reversed(names):
                if nm not in PRIMITIVE_FRAMES:
                    name = nm
                    break
        except MemoryError:
            pass
        return {"cls": "Hang", "frame": name, "exc": "MemoryError", "how": "MemoryError under the address-space limit"}
    except BaseException as e:     # noqa - the outcome class of anything else the library raises
        if isinstance(e, (KeyboardInterrupt, SystemExit)):
            raise
        fr = _lib_frames(sys.exc_info()[2])
        cls = core.exc_enum(e)
        ob = {"cls": cls, "frame": fr[-1].name if fr else "?", "line": fr[-1].lineno if fr else 0,
              "exc": type(e).__name__}
        if isinstance(e, dperr.DataParseError):
            try:
                msg = str(e)
                ob["has_message"] = bool(getattr(e, "message", None)) and bool(msg)
            except Exception as e2:     # the error cannot even be rendered
                ob["has_message"] = False
                ob["str_error"] = type(e2).__name__
        return ob


_confirmed_hangs = {}


def _observe_inproc(reader, text, opts):
    """(runs inside a worker process) fast alarm, a timeout is confirmed under the slow alarm"""
    ob = _run_once(reader, text, opts, FAST_ALARM)
    if ob["cls"] == "Hang" and ob.get("exc") != "MemoryError":
        site = (reader, ob["frame"])
        if _confirmed_hangs.get(site, 0) < CONFIRMATIONS:
            ob2 = _run_once(reader, text, opts, SLOW_ALARM)
            if ob2["cls"] != "Hang":
                return ob2
            _confirmed_hangs[site] = _confirmed_hangs.get(site, 0) + 1
            ob = ob2
    ob.pop("line", None)
    return ob


def _job(job):
    """worker side: (reader | None, text, opts, want_floats) -> ((observation | None, floats | None), retire)"""
    reader, text, opts, want = job
    ob = _observe_inproc(reader, text, opts) if reader is not None else None
    fl = None
    if want:
        fl = [] if (ob is not None and ob["cls"] == "Hang") else _float_tokens_inproc(text)
    retire = ob is not None and ob.get("exc") == "MemoryError"
    return (ob, fl), retire


def _job_death(job, how):
    """parent side: the worker running `job` died or had to be killed"""
    reader, text, opts, want = job
    ob = None if reader is None else {"cls": "Hang", "frame": "worker-killed", "how": how}
    return (ob, [] if want else None)


_POOL = None
_MEMO = {}       # (reader, text, opts) -> observation
_FLOATS = {}     # text -> float tokens
WORKERS = 4
HARD_S = 25.0    # > FAST_ALARM + SLOW_ALARM + the float-token alarm, with room for a loaded machine


def pool():
    global _POOL
    if _POOL is None:
        from dv import c20_pool
        _POOL = c20_pool.Pool(_job, _job_death, n=WORKERS, hard_s=HARD_S)
    return _POOL


def _key(reader, text, opts):
    return (reader, text, json.dumps(opts, sort_keys=True))


def run_jobs(jobs):
    res = pool().map(jobs)
    for (reader, text, opts, want), (ob, fl) in zip(jobs, res):
        if reader is not None:
            _MEMO[_key(reader, text, opts)] = ob
        if fl is not None:
            _FLOATS[text] = fl


def _wants_floats(case):
    return case["reader"] in ("newick", "nexus", "newick_yield") and modelled(case)


def prefetch(cases):
    """run the reads of `cases` in the worker pool; `observe` / `float_tokens` then answer from the memo"""
    jobs, seen = [], set()
    for case in cases:
        reader, opts = case["reader"], case.get("opts", {})
        want = _wants_floats(case)
        texts = [case["text"][:k] for k in case["cuts"]] if "cuts" in case else [case["text"]]
        if want and "cuts" in case:
            texts.append(case["text"])
        for t in texts:
            k = _key(reader, t, opts)
            if k in seen or (k in _MEMO and (not want or t in _FLOATS)):
                continue
            seen.add(k)
            jobs.append((reader, t, opts, want))
    if jobs:
        run_jobs(jobs)


def observe(case):
    """-> observation of the real reader on case['text'] (or on every prefix listed in case['cuts'])"""
    if "cuts" in case:
        prefetch([case])
        return [observe_text(case["reader"], case["text"][:k], case.get("opts", {})) for k in case["cuts"]]
    return observe_text(case["reader"], case["text"], case.get("opts", {}))


def observe_text(reader, text, opts):
    k = _key(reader, text, opts)
    if k not in _MEMO:
        run_jobs([(reader, text, opts, False)])
    return dict(_MEMO[k])


# ---------------------------------------------------------------------------------------------
# the oracle: the property statement on the outcome class (deliberately naive, independent of the model)
# ---------------------------------------------------------------------------------------------

def declared_phylip(text):
    first = re.split(r"\r\n|\n|\r", text)[0]
    m = re.match(r"\s*(\d+)\s+(\d+)\s*$", first)
    return (int(m.group(1)), int(m.group(2))) if m else None


def declared_nexus(text):
    """(ntax, nchar) when the document declares each exactly one way (else None: no dims oracle)"""
    t = re.sub(r"\[[^\]]*\]", " ", text)
    nt = set(int(x) for x in re.findall(r"(?i)\bNTAX\s*=\s*(\d+)", t))
    nc = set(int(x) for x in re.findall(r"(?i)\bNCHAR\s*=\s*(\d+)", t))
    nmat = len(re.findall(r"(?i)\bMATRIX\b", t))
    if len(nt) == 1 and len(nc) == 1 and nmat == 1:
        return (nt.pop(), nc.pop())
    return None


def oracle_one(reader, text, ob):
    cls = ob["cls"]
    base = reader.split("_")[0]
    if cls == "Ok":
        ok = ob["ok"]
        if ok.get("problems"):
            return ("%s reader returned a structurally invalid tree: %s (input %r)" % (reader, ok["problems"][0], text[:80]),
                    "%s:Ok-InvalidTree" % base)
        if reader == "phylip":
            d = declared_phylip(text)
            rows = ok["rows"]
            if d is None:
                return ("phylip reader accepted a document without a dimensions line (input %r)" % text[:80], "phylip:Ok-NoDims")
            if len(rows) != d[0]:
                return ("phylip: %d rows returned, %d declared (input %r)" % (len(rows), d[0], text[:80]), "phylip:Ok-InvalidMatrix:rows")
            bad = [len(s) for _l, s in rows if len(s) != d[1]]
            if bad:
                kind = "short" if bad[0] < d[1] else "long"
                return ("phylip: a returned row has %d characters, %d declared (input %r)" % (bad[0], d[1], text[:80]),
                        "phylip:Ok-InvalidMatrix:cols-" + kind)
        if reader in ("nexus", "nexus_chars") and ok.get("matrices"):
            d = declared_nexus(text)
            if d is not None and len(ok["matrices"]) == 1:
                m = ok["matrices"][0]
                bad = [n for n in m["lens"] if n != d[1]]
                if bad:
                    kind = "short" if bad[0] < d[1] else "long"
                    return ("nexus: a returned matrix row has %d characters, NCHAR=%d declared (input %r)" % (bad[0], d[1], text[:120]),
                            "nexus:Ok-InvalidMatrix:cols-" + kind)
                if m["rows"] != d[0]:
                    kind = "fewer" if m["rows"] < d[0] else "more"
                    return ("nexus: the returned matrix has %d rows, NTAX=%d declared (input %r)" % (m["rows"], d[0], text[:120]),
                            "nexus:Ok-InvalidMatrix:rows-" + kind)
        return None
    if cls == "ParseErr":
        if ob.get("has_message") is False:
            return ("%s reader raised a %s that carries no message identifying the failure (input %r)" % (reader, ob.get("exc"), text[:80]),
                    "%s:ParseErr-NoMessage:%s" % (base, ob.get("frame")))
        return None
    if cls == "ValueErr" and ob.get("frame") in DOCUMENTED_VALUE_ERROR_FRAMES:
        return None        # the documented ValueError for a source without trees / character data
    name = cls if cls not in ("OtherErr",) else "Other(%s)" % ob.get("exc")
    return ("%s reader: %s%s in %s on input %r" % (reader, name, "" if cls in ("Hang",) else " (%s)" % ob.get("exc", cls),
                                                  ob.get("frame"), text[:120]),
            "%s:%s:%s" % (base, name, ob.get("frame")))


def oracle(case, obs):
    if "cuts" in case:
        first = None
        for k, ob in zip(case["cuts"], obs):
            v = oracle_one(case["reader"], case["text"][:k], ob)
            if v and first is None:
                first = v
            elif v and v[1] != first[1]:
                # several distinct findings in one family: report the first, the rest are found again
                # as single cases by `split_family`
                pass
        return first
    return oracle_one(case["reader"], case["text"], obs) or rejected_valid(case, obs)


def rejected_valid(case, ob):
    """a document the generator built VALID for this entry point must be returned, not rejected"""
    if case.get("expect_ok") and ob["cls"] != "Ok":
        return ("%s reader rejected a valid document (%s) with %s in %s: %r" % (
                    case["reader"], case.get("kind"), ob.get("exc", ob["cls"]), ob.get("frame"), case["text"][:400]),
                "%s:Rejected-ValidDocument" % case["reader"].split("_")[0])
    return None


def all_violations(case, obs):
    """every (what, key) of a case (families report one per cut)"""
    if "cuts" in case:
        out = []
        for k, ob in zip(case["cuts"], obs):
            v = oracle_one(case["reader"], case["text"][:k], ob)
            if v:
                out.append((v[0], v[1], {"reader": case["reader"], "opts": case.get("opts", {}), "text": case["text"][:k]}, ob))
        return out
    v = oracle_one(case["reader"], case["text"], obs) or rejected_valid(case, obs)
    return [(v[0], v[1], case, obs)] if v else []


# ---------------------------------------------------------------------------------------------
# Coq terms
# ---------------------------------------------------------------------------------------------

def cstr(s):
    return clist([cz(ord(c)) for c in s])


_dna_syms = None


def dna_symbol_table():
    """symbol -> canonical symbol of the state, dumped from the library's DNA alphabet"""
    global _dna_syms
    if _dna_syms is None:
        import dendropy
        sa = dendropy.DNA_STATE_ALPHABET
        tab = {}
        for k, st in sa.full_symbol_state_map.items():
            if isinstance(k, str) and len(k) == 1:
                tab[k] = str(st)
        _dna_syms = tab
    return _dna_syms


_alpha_tabs = None


def alphabet_tables():
    """data type code (C20Nexus2.dtype_code) -> the single-character keys of that alphabet's symbol map"""
    global _alpha_tabs
    if _alpha_tabs is None:
        import dendropy
        tabs = []
        for code, sa in ((0, dendropy.DNA_STATE_ALPHABET), (1, dendropy.RNA_STATE_ALPHABET),
                         (2, dendropy.NUCLEOTIDE_STATE_ALPHABET), (3, dendropy.PROTEIN_STATE_ALPHABET)):
            keys = sorted(ord(k) for k in sa.full_symbol_state_map if isinstance(k, str) and len(k) == 1)
            tabs.append("(%s, %s)" % (cz(code), clist([cz(k) for k in keys])))
        _alpha_tabs = clist(tabs)
    return _alpha_tabs


def c_popts(opts, variants):
    return "(mkPopts %s %s %s %s %s false %s %s)" % (
        cbool(opts.get("strict", False)), cbool(opts.get("interleaved", False)),
        cbool(opts.get("multispace_delimiter", False)), cbool(opts.get("underscores_to_spaces", False)),
        cbool(opts.get("ignore_invalid_chars", False)), cbool(variants["phylip_fmt_fixed"]),
        cbool(variants["phylip_dims_fixed"]))


ERR_NAMES = {"ParseErr", "ValueErr", "TypeErr", "AttrErr", "IndexErr", "KeyErr", "AssertErr", "LookupErr",
             "RecursionErr", "Hang", "OtherErr"}


def c_obs(reader, ob):
    cls = ob["cls"]
    if cls == "Ok":
        ok = ob["ok"]
        if reader in ("phylip", "fasta"):
            return "(XRows %s)" % clist(["(%s, %s)" % (cstr(l), cstr(s)) for l, s in ok["rows"]])
        if reader in ("newick", "newick_yield"):
            return "(XTrees %s)" % cz(ok["trees"])
        return "XOk"
    return "(XErr %s)" % (cls if cls in ERR_NAMES else "OtherErr")


def _float_tokens_inproc(text):
    """(worker side; the tokenizer is library code and may not terminate: alarm)"""
    from dendropy.dataio import nexusprocessing
    out = []
    try:
        with core.alarm(2.0):
            tk = nexusprocessing.NexusTokenizer(io.StringIO(text))
            while True:
                t = tk.next_token()
                if t is None:
                    break
                try:
                    float(t)
                    if t not in out:
                        out.append(t)
                except ValueError:
                    pass
    except MemoryError:
        raise
    except Exception:
        pass
    return out


def float_tokens(text):
    """the tokens of `text` (as NexusTokenizer sees them) that Python's float() accepts"""
    if text not in _FLOATS:
        run_jobs([(None, text, {}, True)])
    return list(_FLOATS[text])


def digit_tokens(text):
    return []


VARIANTS = {}


def to_coq(case, obs):
    reader = case["reader"]
    opts = case.get("opts", {})
    if reader == "phylip":
        rd = "(RPhylip %s)" % c_popts(opts, VARIANTS)
    elif reader == "fasta":
        rd = "RFasta"
    elif reader in ("newick", "newick_yield"):
        rd = "RNewick"           # the yielder drives the same NewickReader._parse_tree_statement
    elif reader == "nexus":
        rd = "(RNexus (mkFix %s))" % " ".join(cbool(VARIANTS[n]) for n in NFIX_ORDER)
    else:
        raise ValueError(reader)
    syms = clist(["(%s, %s)" % (cz(ord(k)), cz(ord(v))) for k, v in sorted(dna_symbol_table().items())])
    if reader in ("newick", "nexus", "newick_yield"):
        fl = float_tokens(case["text"])
        for k in case.get("cuts", []):          # a cut can leave a shorter numeral ("0.5" -> "0.")
            for t in float_tokens(case["text"][:k])[-2:]:
                if t not in fl:
                    fl.append(t)
        floats = clist([cstr(t) for t in fl])
    else:
        floats = "[]"
    if "cuts" in case:
        exp = clist(["(%s, %s)" % (cz(k), c_obs(reader, ob)) for k, ob in zip(case["cuts"], obs)])
    else:
        exp = clist(["(%s, %s)" % (cz(len(case["text"])), c_obs(reader, obs))])
    alpha = alphabet_tables() if reader == "nexus" else "[]"
    return "(mkCase %s %s %s %s %s %s %s)" % (rd, cstr(case["text"]), syms, alpha, floats, cbool(case.get("slack", False)), exp)


MODEL_READERS = ("phylip", "fasta", "newick", "nexus", "newick_yield")


def modelled(case):
    if case["reader"] not in MODEL_READERS or case.get("model") is False:
        return False
    if case.get("opts"):
        if case["reader"] != "phylip":
            return False
    t = case["text"]
    if any(ord(c) > 127 and c not in G.SAFE_NON_ASCII for c in t):
        return False
    if case["reader"] == "nexus" and not G.nexus_modelled(t):
        return False
    return True


# ---------------------------------------------------------------------------------------------
# which form of the recorded defect sites does the working tree have? (DESIGN 5.2)
# ---------------------------------------------------------------------------------------------

NFIX_ORDER = ["cblock", "alpha", "ildims"]


def probe_variants():
    """replay the witness of every recorded defect site: True = the site is repaired in the working tree"""
    v = {}
    ob = observe_text("phylip", "2 4\na ACGT\na ACGT\nb ACGT\n", {})
    v["phylip_fmt_fixed"] = ob["cls"] != "TypeErr"
    ob = observe_text("phylip", "2 4\na ACGT\nb ACG\n", {})
    v["phylip_dims_fixed"] = ob["cls"] == "ParseErr"
    for name, (text, broken) in G.NEXUS_SITE_WITNESS.items():
        ob = observe_text("nexus", text, {})
        v[name] = not broken(ob)
    return v


# ---------------------------------------------------------------------------------------------
# search (after a broken proof / disagreement): the malformed stream through the oracle only
# ---------------------------------------------------------------------------------------------

def search(ctx, budget_s):
    t0 = time.time()
    n = 0
    found = 0
    import random
    rng = random.Random(ctx.seed + 4242)
    stream = G.search_stream(rng)
    while time.time() - t0 <= budget_s:
        chunk = list(itertools.islice(stream, 40))
        if not chunk:
            break
        prefetch(chunk)
        for case in chunk:
            obs = observe(case)
            n += len(case["cuts"]) if "cuts" in case else 1
            for what, key, sub, ob in all_violations(case, obs):
                if ctx.violation(what, {"case": sub, "observed": ob}, key=key):
                    found += 1
    ctx.notes.append("search: %d further inputs through the oracle, %d unlisted violation(s)" % (n, found))


# ---------------------------------------------------------------------------------------------

def count_case(ctx, case, obs):
    obl = obs if "cuts" in case else [obs]
    for ob in obl:
        ctx.count("outcome:%s:%s" % (case["reader"], ob["cls"]))
    ctx.count("kind:%s:%s" % (case["reader"], case.get("kind", "?")), len(obl))


def run(tier, seed, replay=None):
    ctx = core.Ctx("C20", tier, seed)
    ctx.assumptions = [
        "models coq/Model/C20Model.v (PHYLIP, FASTA) and C20Nexus2.v (NEXUS skeleton) are hand transcriptions tied by this correspondence run; Gen/ReaderLoops.v is regenerated from the source on every run",
        "Python runtime functions (str.isspace, Unicode digits, str.lower, float(), state-alphabet symbol table) are parameters of the models; the run instantiates them with tables that are exact on the generated characters",
        "wall-clock alarm (0.35 s, confirmed at 5 s), MemoryError under a 2 GB address-space limit, or a worker process that had to be killed after 25 s stand for non-termination",
        "the tokenizer / Newick models are C02's (Model/Tokenizer.v, Model/Newick.v)",
    ]
    global VARIANTS
    if replay:
        r = json.load(open(replay))["replay"]
        case = r["case"]
        obs = observe(case)
        print("observed:", json.dumps(obs)[:600])
        print("oracle:", oracle(case, obs))
        return 0
    global CONFIRMATIONS
    CONFIRMATIONS = 1 if tier == "quick" else 2
    VARIANTS = probe_variants()
    ctx.notes.append("defect-site forms of the working tree: %s" % json.dumps(VARIANTS, sort_keys=True))
    # -k and the model targets first: the models must be rebuilt from the new Gen even when a proof breaks
    ok = core.proof_stage(ctx, ["-k", "Model/C20Case2.vo", "Props/C20.vo"], gen_needed=("ReaderLoops", "CharClasses"))
    # translator tie (Props/C20Gen.v): the FASTA / PHYLIP readers generated from the source (Gen/CharIO.v,
    # py/dv/gen_chario.py) equal the models of C20Model.v, so the totality theorems hold of generated code; and
    # NexusReader._parse_format_statement / _read_character_states (Gen/NexusChars.v, py/dv/gen_nexuschars.py)
    # equal the skeleton's parse_format / read_character_states; _parse_dimensions_statement, _get_taxon,
    # _process_discrete_matrix_data and _parse_matrix_statement equal parse_dimensions / get_taxon / parse_matrix, and
    # nexus_matrix_dims / nexus_matrix_rows are restated for the generated MATRIX statement
    ok_gen = core.proof_stage(ctx, ["-k", "Props/C20Gen.vo"], props_file="Props/C20Gen.v", gen_needed=("CharIO", "NexusChars"))
    if not (ok and ok_gen):
        core.broken_proof(ctx, search)

    cases = G.cases(ctx.rng, tier)
    oracle_only = [c for c in cases if not modelled(c)]
    model_cases = [c for c in cases if modelled(c)]
    prefetch(cases)       # all reads, in the worker pool
    # oracle-only cases (readers / options / characters outside the models)
    for case in oracle_only:
        obs = observe(case)
        ctx.evaluations += len(case["cuts"]) if "cuts" in case else 1
        count_case(ctx, case, obs)
        for what, key, sub, ob in all_violations(case, obs):
            ctx.violation(what, {"case": sub, "observed": ob}, key=key)

    def observe_counted(case):
        obs = observe(case)
        count_case(ctx, case, obs)
        # families: report every distinct finding, not only the first
        vs = all_violations(case, obs)
        for what, key, sub, ob in vs[1:]:
            ctx.violation(what, {"case": sub, "observed": ob}, key=key)
        if "cuts" in case:
            ctx.evaluations += len(case["cuts"]) - 1
        return obs

    def nontrivial(case, obs):
        obl = obs if "cuts" in case else [obs]
        return len(case["text"]) >= 3 and len({o["cls"] for o in obl}) >= 1

    core.corr_stage(ctx, model_cases, observe_counted, to_coq, HEADER, "case_ok", oracle=oracle,
                    show_fn="case_show", nontrivial=nontrivial, search=search, shard=120,
                    sample_fn=lambda c, o: {"reader": c["reader"], "kind": c.get("kind"), "text": c["text"][:120],
                                            "observed": (o if "cuts" not in c else [x["cls"] for x in o][:40])})
    ctx.notes.append("%d cases went through the model comparison, %d through the oracle only" % (len(model_cases), len(oracle_only)))
    return ctx.finish(level="proof",
                      rule="malformed-input stream: exhaustive short + random (<= 40 symbols) strings over each format's token alphabet; single and double edits (delete/insert/replace a character, drop a span, insert a keyword) of generated valid Newick/NEXUS/PHYLIP/FASTA documents; every truncation point of valid documents of each block structure (a prefix family counts one evaluation per cut); deep nesting probes; every read under an alarm; a case is non-trivial when its text has >= 3 characters; distinct by full case content")
