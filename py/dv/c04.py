"""C04 - tree-to-tree distances equal their split-set definitions and are true metrics.

Correspondence: histories of structural edits and distance calls (both values of
is_bipartitions_updated, both argument orders) on pairs/triples of trees over one namespace are run
on the real library and on the Coq model (coq/Model/C04Model.v, `case_ok`, vm_compute).
Oracle: split sets and per-split lengths recomputed from the harness's own spec trees with
frozensets of taxa (no bitmasks, no dictionaries keyed by library objects) + the metric axioms on
the observed numbers.
"""
import copy
import itertools
import json
import re
import random
import time
import warnings

from dv import core, trees
from dv.core import cz, cbool, clist, copt, cpair, cnat
from dv.trees import UNIT

HEADER = ("From DV Require Import Model.PyPrims Model.Tree Model.C04Model.\n"
          "From Coq Require Import ZArith. Open Scope Z_scope.")

KEY_F8 = "wrf-definedness-asymmetric"
KEY_COLL = "weighted-distance-root-adjacent-edge-collision"
KEY_DROP = "basal-collapse-drops-length-onto-missing"
KEY_NSBIT = "namespace-bit-collision"

DIST_KINDS = ("symdiff", "fpfn", "missing", "wrf", "euclid")
VIAS = {"symdiff": ["fn", "fn", "urf", "method"], "fpfn": ["fn", "fn", "method"], "missing": ["fn"],
        "wrf": ["fn", "fn", "legacy", "method"], "euclid": ["fn", "fn", "method"]}
LENGTH_PATTERNS = ["dyadic", "dyadic", "positive", "none", "mixed", "mixed", "int", "unit"]


# ------------------------------------------------------------------------------------------------
# generation (pure data; every choice from the rng handed in)

def relabel_ids(t):
    for i, nd in enumerate(trees.preorder(t)):
        nd["id"] = i
    return t


def redraw(rng, t):
    """same tree, children reordered at every node"""
    t = copy.deepcopy(t)
    for nd in trees.preorder(t):
        rng.shuffle(nd["kids"])
    return relabel_ids(t)


def perturb(rng, t, lengths):
    """a neighbour: some lengths changed and/or one internal edge contracted"""
    t = copy.deepcopy(t)
    nodes = trees.preorder(t)
    for nd in nodes[1:]:
        if rng.random() < 0.3:
            nd["len"] = None if (lengths in ("none",) or (lengths == "mixed" and rng.random() < 0.3)) \
                else rng.choice([0, 256, 512, 1024, 2048, 3072])
    if rng.random() < 0.6:
        cands = [(p, k) for p in nodes for k in p["kids"] if k["kids"]]
        if cands:
            p, k = rng.choice(cands)
            i = p["kids"].index(k)
            p["kids"][i:i + 1] = k["kids"]
    return relabel_ids(t)


# ---- the shared namespace built through a HISTORY (taxa added, some removed - several, at different positions, the
#      newest included -, more added, order changed) before the trees exist.  Taxon keys: 0..n-1 = the taxa the trees
#      use (labels t<k>), 200+j = members no tree uses (labels u<j>), 1000+j = taxa removed again (labels x<j>, or the
#      label of a tree taxon that is accessioned only after the removal: a taxon dropped and sampled again).

ADD_VIAS = ["new_taxon", "new_taxon", "add_taxon", "require_taxon", "append"]
REMOVE_VIAS = ["remove_taxon", "remove_taxon", "remove_taxon_label", "discard_taxon_label", "delitem"]


def gen_nshist(rng, n):
    """list of namespace operations: ["add", key, label, via] | ["remove", key, via] | ["sort", reverse] |
    ["reverse"] | ["bitmask", key] (taxon_bitmask() called early: fills the namespace's bitmask cache)"""
    late = rng.choice([0, 1, 1, 2, 3]) if n > 1 else rng.choice([0, 1])
    late = min(late, n)
    pending = list(range(n - late))          # accessioned while removals still go on
    tail = list(range(n - late, n))          # accessioned after the last removal
    if rng.random() < 0.5:
        rng.shuffle(pending)
    nvict = rng.choice([1, 2, 2, 3, 3, 4, 6])
    nextra = rng.choice([0, 0, 0, 1, 2])
    hist, live_v, live_all = [], [], []      # live_all: keys in accession order
    made_v = made_x = 0
    borrowed = set()

    def add(key, label):
        hist.append(["add", key, label, rng.choice(ADD_VIAS)])
        live_all.append(key)

    def remove(key):
        hist.append(["remove", key, rng.choice(REMOVE_VIAS)])
        live_all.remove(key)
        live_v.remove(key)

    steps = 0
    while (pending or made_v < nvict or made_x < nextra) and steps < 200:
        steps += 1
        k = rng.random()
        if k < 0.40 and pending:
            x = pending.pop(0)
            add(x, "t%d" % x)
        elif k < 0.62 and made_v < nvict:
            key = 1000 + made_v
            made_v += 1
            free = [x for x in tail if x not in borrowed]
            if free and rng.random() < 0.25:
                x = rng.choice(free)
                borrowed.add(x)
                label = "t%d" % x
            else:
                label = "x%d" % (key - 1000)
            add(key, label)
            live_v.append(key)
        elif k < 0.68 and made_x < nextra:
            add(200 + made_x, "u%d" % made_x)
            made_x += 1
        elif k < 0.90 and live_v:
            c = rng.random()
            if c < 0.3 and live_all[-1] in live_v:
                remove(live_all[-1])                     # the newest member
            elif c < 0.55:
                remove(live_v[0])                        # the oldest removable one
            else:
                remove(rng.choice(live_v))
        elif 0.90 <= k < 0.94 and live_all:
            hist.append(["bitmask", rng.choice(live_all)])
        elif 0.94 <= k < 0.97:
            hist.append(["sort", rng.random() < 0.5])
        elif 0.97 <= k and live_all:
            hist.append(["reverse"])
    order = list(live_v)
    rng.shuffle(order)
    if order and rng.random() < 0.5:
        order.sort(reverse=rng.random() < 0.5)           # removals in (reverse) accession order
    for key in order:
        remove(key)
    for x in pending + tail:
        add(x, "t%d" % x)
    if rng.random() < 0.2:
        hist.append(["sort", rng.random() < 0.5])
    elif rng.random() < 0.1:
        hist.append(["reverse"])
    return hist


def nshist_features(hist):
    """classes of histories, for the recorded input distribution"""
    out = []
    live, gap, removed, nrem = [], False, False, 0
    add_after_gap = False
    for op in hist:
        if op[0] == "add":
            if gap:
                add_after_gap = True
            live.append(op[1])
        elif op[0] == "remove":
            nrem += 1
            out.append("remove-newest" if live and live[-1] == op[1] else "remove-inner")
            if live and live[-1] != op[1]:
                gap = True
            live.remove(op[1])
        elif op[0] in ("sort", "reverse"):
            out.append("reorder")
    out.append("removals:%s" % (nrem if nrem < 4 else "4+"))
    if add_after_gap:
        out.append("addition-after-inner-removal")
    return out


def show_nshist(hist):
    def one(op):
        if op[0] == "add":
            return "%s(%r)" % (op[3], op[2])
        if op[0] == "remove":
            return "%s(<taxon #%d>)" % (op[2], op[1])
        if op[0] == "sort":
            return "sort(reverse=%s)" % op[1]
        if op[0] == "bitmask":
            return "taxon_bitmask(<taxon #%d>)" % op[1]
        return "reverse()"
    names = {op[1]: op[2] for op in hist if op[0] == "add"}
    s = ", ".join(one(op) for op in hist)
    return re.sub(r"<taxon #(\d+)>", lambda m: names.get(int(m.group(1)), "?") + ("" if int(m.group(1)) < 1000 else "*"), s)


def replay_nshist(hist):
    """the history on a fresh TaxonNamespace of the real library -> (ns, {key: Taxon} of the members left)"""
    import dendropy
    ns = dendropy.TaxonNamespace()
    objs = {}
    with warnings.catch_warnings():
        warnings.simplefilter("ignore")
        for op in hist:
            if op[0] == "add":
                _, key, label, via = op
                if via == "new_taxon":
                    t = ns.new_taxon(label)
                elif via == "require_taxon":
                    t = ns.require_taxon(label)
                elif via == "append":
                    t = dendropy.Taxon(label=label)
                    ns.append(t)
                else:
                    t = dendropy.Taxon(label=label)
                    ns.add_taxon(t)
                if key in objs or any(t is o for o in objs.values()):
                    raise RuntimeError("C04 harness: namespace history does not create a new taxon at %s" % op)
                objs[key] = t
            elif op[0] == "remove":
                _, key, via = op
                t = objs.pop(key)
                if via == "remove_taxon":
                    ns.remove_taxon(t)
                elif via == "remove_taxon_label":
                    ns.remove_taxon_label(t.label)
                elif via == "discard_taxon_label":
                    ns.discard_taxon_label(t.label)
                else:
                    i = [j for j, o in enumerate(ns) if o is t][0]
                    del ns[i]
                if t in ns:
                    raise RuntimeError("C04 harness: removed taxon still a member")
            elif op[0] == "sort":
                ns.sort(reverse=op[1])
            elif op[0] == "reverse":
                ns.reverse()
            elif op[0] == "bitmask":
                ns.taxon_bitmask(objs[op[1]])
    return ns, objs


def gen_case(rng, max_leaves=12, nops=None, small=False, hist=0.3):
    case = gen_case0(rng, max_leaves, nops, small)
    # (drawn after everything else: the cases without history are those of the earlier generator)
    if rng.random() < hist:
        case["nshist"] = gen_nshist(rng, case["ntaxa"])
        case["holes"] = 0
    return case


def gen_refused_case(rng, max_leaves=10, hist=0.15):
    """wave 8: a history in which calls the API must refuse (REFUSED) are interleaved with the edits and distance
    calls; each refused call is followed by weighted / unweighted distance calls on the tree it was aimed at (both
    argument orders, default arguments and is_bipartitions_updated=True).  Two thirds of the cases start from trees
    that are not rooted (the library then normalises the basal bifurcation while encoding)."""
    case = gen_case(rng, max_leaves, small=rng.random() < 0.6, hist=hist)
    if rng.random() < 0.67:
        for t in case["trees"]:
            if t["ns"] == 0:
                t["rooted"] = rng.choice([None, False])
    main = [i for i, t in enumerate(case["trees"]) if t["ns"] == 0]
    nt = len(case["trees"])
    ops = list(case["ops"])
    for _ in range(rng.choice([1, 1, 2, 3])):
        pos = rng.randint(0, len(ops))
        a = rng.choice(main)
        kind = rng.choice(["rc_sibling"] * 4 + ["rc_other"] * 3 + ["rc_self", "rc_parent", "rc_seed", "rc_foreign", "rc_foreign",
                           "collapse_leaf", "outgroup_seed", "prune_seed", "add_self", "add_parent"])
        b = rng.randrange(nt)
        # arg: (arg % n) picks the argument node, (arg // 7) the receiver; small numbers aim at the seed's children
        arg = rng.choice([0, 1, 1, 1, 2, 7, 8, rng.randrange(1000), rng.randrange(1000)])
        new = [["refused", a, kind, arg, b]]
        others = [x for x in main if x != a] or [a]
        for _ in range(rng.choice([1, 2, 2])):
            k = rng.choice(["wrf", "wrf", "euclid", "symdiff", "fpfn", "missing"])
            o = rng.choice(others)
            upd = rng.random() < 0.2
            new.append([k, a, o, upd, "fn"])
            if rng.random() < 0.7:
                new.append([k, o, a, upd, "fn"])
        if kind == "rc_foreign" and b in main and b != a:
            new.append(["wrf", b, a, False, "fn"])
        ops[pos:pos] = new
    case["ops"] = ops
    return case


def refused_scope_cases():
    """every refused remove_child (receiver, argument) pair on small not-rooted trees with a bifurcating seed, each
    followed by the weighted distances to a re-drawing with the basal bifurcation already collapsed"""
    out = []
    L = 1024
    for shape in ([[[], []], [[], [[], []]]], [[[], []], [[], []]], [[], [[], []]], [[[], []], [[], []], []]):
        spec = trees.shape_to_tree(shape, lengths=lambda r: r.choice([L, 2 * L, 3 * L]), rng=random.Random(len(out)))
        n = len(trees.leaves(spec))
        nn = len(trees.preorder(spec))
        args = []
        for ci in range(nn - 1):
            for ri in range(nn - 2):
                args.append(("rc_other", next(x for x in range(20000) if x % (nn - 1) == ci and (x // 7) % (nn - 2) == ri)))
        args += [("rc_self", x) for x in range(nn)] + [("rc_parent", x) for x in range(nn - 1)]
        for rooted in (False, None, True):
            for kind, arg in args:
                out.append({"ntaxa": n, "holes": 0, "hole_seed": 1,
                            "trees": [{"ns": 0, "spec": copy.deepcopy(spec), "rooted": rooted},
                                      {"ns": 0, "spec": redraw(random.Random(arg), spec), "rooted": rooted}],
                            "ops": [["refused", 0, kind, arg, 1], ["wrf", 0, 1, False, "fn"], ["euclid", 1, 0, False, "fn"],
                                    ["symdiff", 0, 1, False, "fn"]]})
    return out


def gen_case0(rng, max_leaves=12, nops=None, small=False):
    r = rng.random()
    if small or r < 0.55:
        n = rng.randint(1, 6)
    elif r < 0.92:
        n = rng.randint(4, max_leaves)
    else:
        n = rng.randint(max_leaves, 25)
    pattern = rng.choice(LENGTH_PATTERNS)
    unif = rng.choice([0.0, 0.0, 0.0, 0.15, 0.3])
    taxa = list(range(n))
    base = trees.gen_tree(rng, n, lengths=pattern, unifurcations=unif, taxa=rng.sample(taxa, n))
    if rng.random() < 0.12:
        base["len"] = rng.choice([0, 1024, 2560])       # a length on the seed edge
    elif rng.random() < 0.8:
        base["len"] = None
    specs = [base]
    ntrees = rng.choice([2, 3, 3, 3])
    for _ in range(ntrees - 1):
        k = rng.random()
        if k < 0.3:
            specs.append(redraw(rng, rng.choice(specs)))
        elif k < 0.55:
            specs.append(perturb(rng, rng.choice(specs), pattern))
        else:
            pat2 = pattern if rng.random() < 0.6 else rng.choice(LENGTH_PATTERNS)
            t = trees.gen_tree(rng, n, lengths=pat2, unifurcations=rng.choice([0.0, 0.0, unif]),
                               taxa=rng.sample(taxa, n))
            if rng.random() < 0.8:
                t["len"] = None
            specs.append(t)
    rooting = rng.choice([None, False, False, True, True])
    rootings = [rooting if rng.random() < 0.9 else rng.choice([None, False, True]) for _ in specs]
    tl = [{"ns": 0, "spec": s, "rooted": r_} for s, r_ in zip(specs, rootings)]
    if rng.random() < 0.15:
        f = trees.gen_tree(rng, n, lengths="dyadic", taxa=[100 + x for x in rng.sample(taxa, n)])
        tl.append({"ns": 1, "spec": f, "rooted": rooting})
    holes = rng.choice([0, 0, 1, 3])
    ops = []
    m = nops or rng.randint(3, 9)
    nt = len(tl)
    main = [i for i, t in enumerate(tl) if t["ns"] == 0]
    while len(ops) < m:
        k = rng.random()
        if k < 0.22:
            a = rng.choice(main)
            kind = rng.choice(["swap", "swap", "collapse", "reseed", "reseed", "setlen", "setlen",
                               "setroot", "reroot", "shuffle_all", "noop"])
            arg = rng.randrange(1000)
            val = rng.choice([None, 0, 512, 1024, 4096]) if kind == "setlen" else \
                (rng.choice([None, False, True]) if kind == "setroot" else None)
            ops.append(["edit", a, kind, arg, val])
        elif k < 0.27:
            ops.append(["encode", rng.choice(main)])
        else:
            kind = rng.choice(["symdiff", "fpfn", "missing", "wrf", "wrf", "wrf", "euclid", "euclid"])
            if rng.random() < (0.25 if nt > len(main) else 0.05):
                a, b = rng.randrange(nt), rng.randrange(nt)
            elif rng.random() < 0.1:
                a = b = rng.choice(main)
            else:
                a, b = (rng.sample(main, 2) if len(main) >= 2 else (main[0], main[0]))
            upd = rng.random() < 0.25
            via = rng.choice(VIAS[kind])
            ops.append([kind, a, b, upd, via])
            if rng.random() < (0.75 if kind in ("wrf", "euclid") else 0.4):
                ops.append([kind, b, a, upd, rng.choice(VIAS[kind])])
            if len(main) >= 3 and rng.random() < 0.25:
                c = [x for x in main if x not in (a, b)]
                if c and a != b:
                    ops.append([kind, b, c[0], False, "fn"])
                    ops.append([kind, a, c[0], False, "fn"])
                    ops.append([kind, a, b, False, "fn"])
    return {"ntaxa": n, "holes": holes, "hole_seed": rng.randrange(10 ** 6), "trees": tl, "ops": ops}


# ------------------------------------------------------------------------------------------------
# running the real library

class Live:
    pass


def build_world(case):
    import dendropy
    n = case["ntaxa"]
    if case.get("nshist"):
        ns0, members = replay_nshist(case["nshist"])
        objs0 = [members[k] for k in range(n)]
        if len(ns0) != len(members) or any(t not in ns0 for t in members.values()):
            raise RuntimeError("C04 harness: namespace history left other members than it says")
    else:
        ns0, objs0 = trees.make_namespace(n, random.Random(case["hole_seed"]), holes=case["holes"])
    ns1, objs1 = trees.make_namespace(n, None)
    taxon_objs = {}
    acc = []
    bits = []
    for k, t in enumerate(objs0):
        taxon_objs[k] = t
        acc.append([k, ns0.accession_index(t)])
        bits.append([k, ns0.taxon_bitmask(t), t.label])
    for k, t in enumerate(objs1):
        taxon_objs[100 + k] = t
        acc.append([100 + k, ns1.accession_index(t)])
        bits.append([100 + k, ns1.taxon_bitmask(t), t.label])
    tindex = {id(t): k for k, t in taxon_objs.items()}
    lives = []
    for td in case["trees"]:
        lv = Live()
        ns = ns0 if td["ns"] == 0 else ns1
        lv.tree, lv.by_id = trees.build_dendropy(td["spec"], taxon_objs, is_rooted=td["rooted"], namespace=ns)
        lv.alloc = trees.IdAlloc(10000)
        lv.last = (copy.deepcopy(td["spec"]), td["rooted"])
        lv.ns = td["ns"]
        lives.append(lv)
    return lives, acc, bits, tindex


def dump(lv, tindex):
    spec, problems = trees.dump_dendropy(lv.tree, tindex, alloc=lv.alloc)
    if problems and not getattr(lv, "damaged", False):
        # (damaged: a refused call was seen to change the pointers - reported by the oracle at that step; the history
        # goes on with the child-list reading of the tree)
        raise RuntimeError("ill-formed tree in C04 harness: %s" % problems[:3])
    return (spec, lv.tree.is_rooted)


def internal_nodes(tree, with_seed):
    out = []
    for nd in tree.preorder_node_iter():
        if nd._child_nodes and (with_seed or nd._parent_node is not None):
            out.append(nd)
    return out


def apply_edit(lv, kind, arg, val):
    tree = lv.tree
    if kind == "swap":
        c = internal_nodes(tree, True)
        nd = c[arg % len(c)] if c else None
        if nd is not None:
            nd._child_nodes.reverse()
    elif kind == "shuffle_all":
        r = random.Random(arg)
        for nd in list(tree.preorder_node_iter()):
            r.shuffle(nd._child_nodes)
    elif kind == "collapse":
        c = internal_nodes(tree, False)
        if c:
            c[arg % len(c)].edge.collapse()
    elif kind == "reseed":
        # (a unifurcating seed would be left behind as a taxon-less leaf: the leaf set would change)
        c = internal_nodes(tree, True)
        if c and len(tree.seed_node._child_nodes) != 1:
            tree.reseed_at(c[arg % len(c)])
    elif kind == "reroot":
        c = internal_nodes(tree, True)
        if c and len(tree.seed_node._child_nodes) != 1:
            tree.reroot_at_node(c[arg % len(c)])
    elif kind == "setlen":
        c = list(tree.preorder_node_iter())
        c[arg % len(c)].edge.length = None if val is None else val * UNIT
    elif kind == "setroot":
        tree.is_rooted = val
    elif kind == "noop":
        pass
    else:
        raise RuntimeError("unknown edit " + kind)


# wave 8: calls the API must REFUSE with a documented error (kind -> exception class).  rc_* = Node.remove_child with
# a node that is not a child of the receiver: a sibling / any other node / the receiver itself / the receiver's parent /
# the seed / a node of ANOTHER tree; Edge.collapse of a leaf edge; to_outgroup_position / prune_subtree of the seed;
# add_child of the node itself / of its own parent
REFUSED = {"rc_sibling": "ValueErr", "rc_other": "ValueErr", "rc_self": "ValueErr", "rc_parent": "ValueErr",
           "rc_seed": "ValueErr", "rc_foreign": "ValueErr", "collapse_leaf": "ValueErr", "outgroup_seed": "AssertErr",
           "prune_seed": "TypeErr", "add_self": "AssertErr", "add_parent": "AssertErr"}


def refused_call(lives, a, kind, arg, b):
    """(thunk, description) of the refused call that the numbers designate on the trees as they are now, or None when
    the trees offer no such argument"""
    lv = lives[a]
    tree = lv.tree
    nodes = list(tree.preorder_node_iter())
    seed, nonseed = nodes[0], nodes[1:]
    nm = lambda t, nd: "tree%d.node%s" % (t, lives[t].alloc.of(nd))
    rc = lambda p, c, t=a: ((lambda: p.remove_child(c)), "%s.remove_child(%s) [%s]" % (nm(a, p), nm(t, c), kind))
    if kind in ("rc_sibling", "rc_other"):
        if not nonseed:
            return None
        c = nonseed[arg % len(nonseed)]
        cand = [x for x in c._parent_node._child_nodes if x is not c] if kind == "rc_sibling" else []
        cand = cand or [x for x in nodes if x is not c._parent_node and x is not c]
        return rc(cand[(arg // 7) % len(cand)], c) if cand else None
    if kind == "rc_self":
        c = nodes[arg % len(nodes)]
        return rc(c, c)
    if kind == "rc_parent":
        if not nonseed:
            return None
        p = nonseed[arg % len(nonseed)]
        return rc(p, p._parent_node)
    if kind == "rc_seed":
        return rc(nodes[arg % len(nodes)], seed)
    if kind == "rc_foreign":
        if b == a:
            return None
        other = list(lives[b].tree.preorder_node_iter())
        return rc(nodes[(arg // 7) % len(nodes)], other[arg % len(other)], b)
    if kind == "collapse_leaf":
        lvs = [x for x in nonseed if not x._child_nodes]
        if not lvs:
            return None
        x = lvs[arg % len(lvs)]
        return (lambda: x.edge.collapse()), "%s.edge.collapse() [leaf edge]" % nm(a, x)
    if kind == "outgroup_seed":
        return (lambda: tree.to_outgroup_position(seed)), "tree%d.to_outgroup_position(seed)" % a
    if kind == "prune_seed":
        return (lambda: tree.prune_subtree(seed)), "tree%d.prune_subtree(seed)" % a
    if kind == "add_self":
        x = nodes[arg % len(nodes)]
        return (lambda: x.add_child(x)), "%s.add_child(itself)" % nm(a, x)
    if kind == "add_parent":
        if not nonseed:
            return None
        x = nonseed[arg % len(nonseed)]
        return (lambda: x.add_child(x._parent_node)), "%s.add_child(its own parent)" % nm(a, x)
    raise RuntimeError("unknown refused call " + kind)


def world_ptrs(lives, tindex):
    """the whole pointer structure of the world: per tree the seed and rooting flag, per node object the harness knows
    (in or out of a tree) parent pointer, child list, edge head / tail, edge length, taxon"""
    name = {}
    for ti, lv in enumerate(lives):
        for nd in all_nodes(lv):
            name.setdefault(id(nd), "%d.%d" % (ti, lv.alloc.of(nd)))
    nm = lambda x: None if x is None else name.get(id(x), "?")
    out = {}
    for ti, lv in enumerate(lives):
        out["tree%d" % ti] = [nm(lv.tree._seed_node), lv.tree._is_rooted]
        for nd in all_nodes(lv):
            e = nd._edge
            out["node " + name[id(nd)]] = [nm(nd._parent_node), [nm(c) for c in nd._child_nodes[:2000]],
                                           nm(None if e is None else e._head_node), nm(None if e is None else e.tail_node),
                                           None if e is None else repr(e.length),
                                           None if nd.taxon is None else tindex.get(id(nd.taxon), -1)]
    return out


def ptr_diff(p0, p1):
    fields = ("_parent_node", "_child_nodes", "edge.head_node", "edge.tail_node", "edge.length", "taxon")
    out = []
    for k in sorted(set(p0) | set(p1)):
        x, y = p0.get(k), p1.get(k)
        if x == y:
            continue
        if x is None or y is None or k.startswith("tree"):
            out.append("%s: %s -> %s" % (k, x, y))
        else:
            out.extend("%s %s: %s -> %s" % (k, f, u, v) for f, u, v in zip(fields, x, y) if u != v)
    return out


def all_nodes(lv):
    seen = {}
    for nd in list(lv.by_id.values()) + list(lv.alloc.keep):
        seen[id(nd)] = nd
    return list(seen.values())


def call_distance(kind, via, t1, t2, upd):
    from dendropy.calculate import treecompare as tc
    from dendropy.utility import deprecate
    deprecate._initialize_deprecation_warnings()    # installs its own filter once; ours goes in front
    with warnings.catch_warnings():
        warnings.simplefilter("ignore")
        if kind == "symdiff":
            if via == "method" and not upd:
                return t1.symmetric_difference(t2)
            if via == "urf":
                return tc.unweighted_robinson_foulds_distance(t1, t2, upd)
            return tc.symmetric_difference(t1, t2, is_bipartitions_updated=upd)
        if kind == "fpfn":
            if via == "method" and not upd:
                return t1.false_positives_and_negatives(t2)
            return tc.false_positives_and_negatives(t1, t2, is_bipartitions_updated=upd)
        if kind == "missing":
            return tc.find_missing_bipartitions(t1, t2, is_bipartitions_updated=upd)
        if kind == "wrf":
            if via == "method" and not upd:
                return t1.robinson_foulds_distance(t2)
            if via == "legacy" and not upd:
                return tc.robinson_foulds_distance(t1, t2)
            return tc.weighted_robinson_foulds_distance(t1, t2, is_bipartitions_updated=upd)
        if kind == "euclid":
            if via == "method" and not upd:
                return t1.euclidean_distance(t2)
            return tc.euclidean_distance(t1, t2, is_bipartitions_updated=upd)
    raise RuntimeError(kind)


def units_exact(x):
    u = x / UNIT
    if u != int(u):
        return ["OFloat", repr(x)]
    return ["OInt", int(u)]


def sq_units(x):
    """float Euclidean distance -> exact integer radicand in unit^2 (the float squared must agree
    with it within 1e-9 relative, else the raw float is reported and nothing will match it)"""
    v = (x / UNIT) ** 2
    n = int(round(v))
    if abs(v - n) > 1e-9 * max(1.0, abs(n)):
        return ["OFloat", repr(x)]
    return ["OInt", n]


def probe_policy():
    """which treatment of missing lengths does the working tree implement (see C04Model.policy)"""
    import dendropy
    from dendropy.calculate import treecompare as tc
    ns = dendropy.TaxonNamespace()
    res = []
    for s1, s2 in (("(A,B,(C,D));", "(A:1,B:1,(C:1,D:1):1);"), ("(A:1,B:1,(C:1,D:1):1);", "(A,B,(C,D));"),
                   ("(A:1,B:1,(C:1,D:1):1);", "(A:1,C:1,(B,D):1);"), ("(A:1,C:1,(B,D));", "(A:1,B:1,(C:1,D:1):1);")):
        a = dendropy.Tree.get(data=s1, schema="newick", taxon_namespace=ns)
        b = dendropy.Tree.get(data=s2, schema="newick", taxon_namespace=ns)
        try:
            tc.weighted_robinson_foulds_distance(a, b)
            res.append(True)
        except Exception:       # a ValueError is the refusal; anything else is left to the oracle to report
            res.append(False)
    if res[:2] == [True, False]:
        return "Current"
    if res[:2] == [True, True]:
        return "ZeroBoth"
    if res[:2] == [False, False]:
        return "RefuseBoth"
    return "Current"


def probe_basal_drop():
    """does collapse_basal_bifurcation() still drop the removed seed edge's length when the kept edge has none
    (finding basal-collapse-drops-length-onto-missing)?  The model has both forms (C04Model.add_len, flag mg)."""
    import dendropy
    try:
        t = dendropy.Tree.get(data="[&U]((A:1,B:1),(C:1,D:1):1);", schema="newick")
        t.encode_bipartitions()
        lens = [nd.edge.length for nd in t.seed_node.child_nodes() if nd.child_nodes()]
    except Exception:
        return False
    return lens == [None]


_POLICY = [None]
_DROPS = [None]


def library_drops():
    if _DROPS[0] is None:
        _DROPS[0] = probe_basal_drop()
    return _DROPS[0]



def policy():
    if _POLICY[0] is None:
        _POLICY[0] = probe_policy()
    return _POLICY[0]


def observe(case):
    lives, acc, bits, tindex = build_world(case)
    steps = []

    def one_step(op):
        before = [lv.last for lv in lives]
        rec = {}
        if op[0] in ("edit", "refused"):
            _, a, kind, arg, val = op
            lv = lives[a]
            enc0, bm0 = lv.tree.bipartition_encoding, lv.tree._bipartition_edge_map
            if op[0] == "refused":
                # wave 8: a call the API must refuse; the whole world's pointers before and after it
                rec["out"] = ["OUnit"]
                call = refused_call(lives, a, kind, arg, val)
                rec["what"] = None if call is None else call[1]
                rec["raised"] = None
                p0 = world_ptrs(lives, tindex)
                if call is not None:
                    try:
                        call[0]()
                    except Exception as e:
                        rec["raised"] = core.exc_enum(e)
                        rec["msg"] = ("%s: %s" % (type(e).__name__, e))[:160]
                rec["ptr_diff"] = ptr_diff(p0, world_ptrs(lives, tindex))
                if rec["ptr_diff"]:
                    for x in lives:
                        x.damaged = True
            else:
                try:
                    apply_edit(lv, kind, arg, val)
                    rec["out"] = ["OUnit"]
                except Exception as e:      # an edit refused by the library: structure still reported
                    rec["out"] = ["OUnit"]
                    rec["edit_error"] = core.exc_enum(e)
            spec, rooted = dump(lv, tindex)
            inside = {nd["id"] for nd in trees.preorder(spec)}
            det = []
            for nd in all_nodes(lv):
                i = lv.alloc.of(nd)
                if i not in inside:
                    det.append([i, trees.len_units(nd.edge.length), nd.edge.tail_node is None])
            det.sort()
            enc1, bm1 = lv.tree.bipartition_encoding, lv.tree._bipartition_edge_map
            if (enc1 is not enc0 and enc1 is not None) or (bm1 is not bm0 and bm1 is not None):
                raise RuntimeError("edit %s replaced the cached encoding (harness edits must leave caches alone)" % kind)
            rec["edit"] = {"spec": spec, "rooted": rooted, "det": det,
                           "enc_reset": enc0 is not None and enc1 is None,
                           "bmap_reset": bm0 is not None and bm1 is None}
            lv.last = (spec, rooted)
            rec["changed"] = [[a, spec, rooted]]
            if op[0] == "refused":
                # every OTHER tree re-observed as well
                rec["others"] = []
                for i, x in enumerate(lives):
                    if i != a:
                        cur = dump(x, tindex)
                        if cur != x.last:
                            rec["others"].append([i, cur[0], cur[1]])
                            x.last = cur
            return rec
        try:
            if op[0] == "encode":
                enc = lives[op[1]].tree.encode_bipartitions()
                rec["out"] = ["OMasks", [b.split_bitmask for b in enc]]
            else:
                kind, a, b, upd, via = op
                r = call_distance(kind, via, lives[a].tree, lives[b].tree, upd)
                if kind == "symdiff":
                    rec["out"] = ["OInt", int(r)]
                elif kind == "fpfn":
                    rec["out"] = ["OPair", int(r[0]), int(r[1])]
                elif kind == "missing":
                    rec["out"] = ["OMasks", [x.split_bitmask for x in r]]
                elif kind == "wrf":
                    rec["out"] = units_exact(r)
                else:
                    rec["out"] = sq_units(r)
                    rec["float"] = repr(r)
        except Exception as e:
            rec["out"] = ["OErr", core.exc_enum(e)]
            rec["msg"] = ("%s: %s" % (type(e).__name__, e))[:160]
        ch = []
        for i, lv in enumerate(lives):
            cur = dump(lv, tindex)
            if cur != before[i]:
                ch.append([i, cur[0], cur[1]])
                lv.last = cur
        rec["changed"] = ch
        return rec

    for op in case["ops"]:
        try:
            steps.append(one_step(op))
        except Exception:
            # once a refused call was seen to damage the pointers (reported by the oracle at that step) the history
            # ends where the harness itself can no longer read the trees
            if any(getattr(x, "damaged", False) for x in lives):
                break
            raise
    # leaf bitmasks as encode_bipartitions() hands them out (Bipartition.leafset_bitmask of the leaf edges), per tree
    leafbits = []
    for lv in lives:
        row = []
        try:
            ns = lv.tree.taxon_namespace
            for nd in lv.tree.leaf_node_iter():
                if nd.taxon is not None and id(nd.taxon) in tindex:
                    row.append([tindex[id(nd.taxon)], ns.taxon_bitmask(nd.taxon)])
        except Exception:
            row = None
        leafbits.append(row)
    return {"acc": acc, "bits": bits, "leafbits": leafbits, "policy": policy(), "merge": not library_drops(), "steps": steps}


# ------------------------------------------------------------------------------------------------
# oracle: the property stated on frozensets of taxa, from the harness's own spec trees

def _merge(a, b):
    if a is None:
        return b
    if b is None:
        return a
    return a + b


def ideal_splits(spec, rooted):
    """{split: length-or-None}; split = frozenset of leaf taxa below the edge (rooted) or the
    unordered pair {side, other side} (not rooted).  Nodes of outdegree one do not exist in the
    ideal tree (their edges are parts of one edge); neither does the degree-2 seed of a tree that is
    not rooted."""
    edges = []          # (leafset, length, depth)

    def go(n, carry, depth):
        ln = _merge(carry, n["len"])
        if len(n["kids"]) == 1:
            return go(n["kids"][0], ln, depth)
        if not n["kids"]:
            ls = frozenset([n["taxon"]])
        else:
            ls = frozenset()
            for k in n["kids"]:
                ls |= go(k, None, depth + 1)
        edges.append((ls, ln, depth))
        return ls

    allv = go(spec, None, 0)
    out = {}
    for ls, ln, depth in edges:
        key = ls if rooted is True else frozenset([ls, allv - ls])
        out[key] = _merge(out[key], ln) if key in out else ln
    return out


def rooting_class(r):
    return r is True


def ideal_mask(split, acc, allv, rooted):
    def m(s):
        x = 0
        for t in s:
            x |= 1 << acc[t]
        return x
    if rooted is True:
        return m(split)
    low = min(acc[t] for t in allv)
    sides = list(split)
    if len(sides) == 1:     # both sides equal: impossible unless empty
        return m(sides[0])
    a, b = sides
    return m(b) if any(acc[t] == low for t in a) else m(a)


def bit_collision(case, obs):
    """the clause "leaf bitmasks of distinct taxa on the trees are distinct" (and each is the single bit of the
    taxon's accession index), per namespace; None or a description naming the taxa and the namespace's history"""
    acc = {k: v for k, v in obs["acc"]}
    label = {k: l for k, _b, l in obs.get("bits", [])}
    nsbits = {k: b for k, b, _l in obs.get("bits", [])}
    for nsid in sorted(set(t["ns"] for t in case["trees"])):
        seen = {}
        for ti, t in enumerate(case["trees"]):
            if t["ns"] != nsid:
                continue
            onleaves = dict((k, b) for k, b in (obs.get("leafbits", [])[ti] or [])) if obs.get("leafbits") else {}
            for lf in trees.leaves(t["spec"]):
                k = lf["taxon"]
                if k is None or k not in nsbits:
                    continue
                for b in (nsbits[k], onleaves.get(k, nsbits[k])):
                    if b != 1 << acc[k]:
                        return ("taxon %s has accession index %d but leaf bitmask %d" % (label.get(k, k), acc[k], b), "")
                    if b in seen and seen[b] != k:
                        hist = case.get("nshist")
                        return ("distinct taxa %s and %s on the trees (one namespace) have the same leaf bitmask %d "
                                "(accession index %d)" % (label.get(seen[b], seen[b]), label.get(k, k), b, acc[k]),
                                "; namespace history: " + show_nshist(hist) if hist else "")
                    seen[b] = k
    return None


def oracle(case, obs):
    """set-level definitions from leaf LABEL sets (taxon keys; never bitmasks) against the library's values; when a
    value is wrong - or not - and two taxa on the trees share a bit, the report names that cause"""
    coll = bit_collision(case, obs)
    v = oracle_values(case, obs)
    if coll:
        if v:
            return ("%s; hence %s%s" % (coll[0], v[0], coll[1]), KEY_NSBIT)
        return (coll[0] + coll[1], KEY_NSBIT)
    return v


def oracle_values(case, obs):
    """wave 8: a refused call that did not leave the world as it was is reported together with its first consequence
    for a distance (the trees keep the meaning they had: a refused operation changes nothing)"""
    pend = []
    v = oracle_values0(case, obs, pend)
    if pend:
        return (pend[0][0] + ("; hence " + v[0] if v else ""), pend[0][1])
    return v


def oracle_values0(case, obs, pend):
    acc = {k: v for k, v in obs["acc"]}
    # ref: what each tree MEANS (the harness's spec, or the structure an edit left); cur: the latest dump
    # (the library normalises trees in place while encoding; that must not change their meaning)
    ref = [(copy.deepcopy(t["spec"]), t["rooted"]) for t in case["trees"]]
    cur = list(ref)
    dropped = [False] * len(ref)
    nss = [t["ns"] for t in case["trees"]]
    stale = [False] * len(cur)        # edited since the last encode
    encoded = [False] * len(cur)
    epoch = [0] * len(cur)
    seen = {}                         # (kind, a, b, epoch_a, epoch_b) -> out
    for step, (op, rec) in enumerate(zip(case["ops"], obs["steps"])):
        out = rec["out"]
        if op[0] == "refused":
            # the call must raise the documented error and change NOTHING: no pointer of any node of any tree, hence
            # no tree's meaning, no cache validity (ref, cur, stale, epoch stay)
            if rec["what"] is None:
                continue
            where = "step %d %s" % (step, rec["what"])
            want = REFUSED[op[2]]
            if rec["raised"] is None:
                return ("%s returned instead of raising the documented %s" % (where, want), "not-refused:" + op[2])
            if rec["raised"] != want:
                return ("%s raised %s, documented is %s" % (where, rec.get("msg"), want), "refused-with-other-error:" + op[2])
            if (rec["ptr_diff"] or rec["others"] or (rec["edit"]["spec"], rec["edit"]["rooted"]) != cur[op[1]]) and not pend:
                d = rec["ptr_diff"] or ["the pointer dump from the seed changed"]
                pend.append(("%s was refused (%s) but did not leave the trees as they were: %s"
                             % (where, rec.get("msg"), "; ".join(d[:4])), "refused-call-changed-tree:" + op[2]))
            continue
        if op[0] == "edit":
            a = op[1]
            ref[a] = cur[a] = (rec["edit"]["spec"], rec["edit"]["rooted"])
            dropped[a] = False
            stale[a] = True
            epoch[a] += 1
            continue
        if op[0] == "encode":
            a = op[1]
            stale[a] = False
            encoded[a] = True
            v = _apply_changes(cur, dropped, rec, "step %d encode_bipartitions()" % step)
            if v:
                return v
            continue
        kind, a, b, upd, via = op
        where = "step %d %s(%d,%d,is_bipartitions_updated=%s)" % (step, kind, a, b, upd)
        if nss[a] != nss[b]:
            if out != ["OErr", "ValueErr"]:
                return ("%s on trees over different namespaces returned %s instead of refusing" % (where, out),
                        "namespace-mismatch-not-refused")
            continue
        judged = (not upd) or not (stale[a] or stale[b])
        if not upd:
            stale[a] = stale[b] = False
            encoded[a] = encoded[b] = True
        else:
            # encodes only a tree never encoded; a stale cache stays stale
            for x in (a, b):
                if not encoded[x]:
                    encoded[x] = True
                    stale[x] = False
        sa, ra = ref[a]
        sb, rb = ref[b]
        v = _apply_changes(cur, dropped, rec, where)
        if v:
            return v
        if not judged:
            continue
        if out[0] == "OFloat":
            return ("%s returned %s, not an exact value for dyadic edge lengths" % (where, out[1]), "inexact-value")
        la, lb = [x["taxon"] for x in trees.leaves(sa)], [x["taxon"] for x in trees.leaves(sb)]
        if None in la or None in lb or len(set(la)) != len(la) or set(la) != set(lb):
            continue        # not two trees over one leaf set: outside the property's quantifier
        I1, I2 = ideal_splits(sa, ra), ideal_splits(sb, rb)
        same_class = rooting_class(ra) == rooting_class(rb)
        # classes of inputs on which the library is known to deviate (narrow keys):
        #  - after its own normalisation a not-rooted tree still has a two-child seed: both seed edges carry one split
        #  - its basal collapse adds the removed edge's length onto an edge that has none: the length is dropped
        flaw = None
        if dropped[a] or dropped[b]:
            flaw = KEY_DROP
        if any(_root_bifurcation_left(cur[x]) for x in (a, b)):
            flaw = KEY_COLL
        key_ab = (kind, a, b, epoch[a], epoch[b])
        rev = seen.get((kind, b, a, epoch[b], epoch[a]))
        seen[key_ab] = (out, flaw)
        if out[0] == "OErr":
            if kind in ("wrf", "euclid") and out[1] == "ValueErr":
                if rev is not None and rev[0][0] != "OErr":
                    return ("%s refuses (missing edge length) although the same call with the arguments "
                            "exchanged returned %s" % (where, rev[0]), KEY_F8)
                continue
            return ("%s raised %s (%s)" % (where, out[1], rec.get("msg")), "unexpected-exception:" + out[1])
        if kind in ("wrf", "euclid") and rev is not None and rev[0] == ["OErr", "ValueErr"]:
            return ("%s returned %s although the same call with the arguments exchanged refuses "
                    "(missing edge length)" % (where, out), KEY_F8)
        # ---- value against the definition
        if same_class:
            S1, S2 = set(I1), set(I2)
            if kind == "symdiff":
                want = len(S1 ^ S2)
                if out[1] != want:
                    return ("%s = %d, but %d splits are in exactly one tree" % (where, out[1], want), "rf-value")
            elif kind == "fpfn":
                want = [len(S2 - S1), len(S1 - S2)]
                if out[1:] != want:
                    return ("%s = %s, one-sided differences are %s" % (where, out[1:], want), "fpfn-value")
            elif kind == "missing":
                allv = frozenset(x["taxon"] for x in trees.leaves(sa))
                want = sorted(set(ideal_mask(s_, acc, allv, ra) for s_ in S1 - S2))
                if sorted(set(out[1])) != want:
                    return ("%s = %s, splits of the first tree missing in the second are %s" % (where, sorted(out[1]), want),
                            "missing-value")
            else:
                U = S1 | S2
                diffs = [(I1.get(s_) or 0) - (I2.get(s_) or 0) for s_ in U]
                want = sum(abs(d) for d in diffs) if kind == "wrf" else sum(d * d for d in diffs)
                if out[1] != want:
                    return ("%s = %s units%s, the %s norm of the per-split length differences is %s"
                            % (where, out[1], "" if kind == "wrf" else "^2", "L1" if kind == "wrf" else "squared L2", want),
                            flaw or (kind + "-value"))
        # ---- metric axioms on the observed numbers
        if rev is not None and rev[0][0] != "OErr":
            r0 = rev[0]
            sym_ok = (r0[1:] == out[1:][::-1]) if kind == "fpfn" else (r0 == out or kind == "missing")
            if not sym_ok:
                return ("%s = %s but with the arguments exchanged %s" % (where, out[1:], r0[1:]),
                        flaw or rev[1] or (kind + "-asymmetric"))
        if kind in ("symdiff", "wrf", "euclid"):
            for c in range(len(cur)):
                if c in (a, b) or nss[c] != nss[a]:
                    continue
                for x, y in ((a, c), (c, a)):
                    for u, v in ((c, b), (b, c)):
                        d1 = seen.get((kind, x, y, epoch[x], epoch[y]))
                        d2 = seen.get((kind, u, v, epoch[u], epoch[v]))
                        if d1 and d2 and d1[0][0] == "OInt" and d2[0][0] == "OInt":
                            if not _triangle(kind, out[1], d1[0][1], d2[0][1]):
                                return ("triangle inequality fails: %s(%d,%d)=%s > %s(%d,%d)=%s + %s(%d,%d)=%s"
                                        % (kind, a, b, out[1], kind, x, y, d1[0][1], kind, u, v, d2[0][1]),
                                        flaw or d1[1] or d2[1] or (kind + "-triangle"))
    return None


def _triangle(kind, dab, dac, dcb):
    if kind == "euclid":      # values are squares: sqrt(dab) <= sqrt(dac) + sqrt(dcb)
        # <=> dab <= dac + dcb + 2 sqrt(dac dcb) <=> (dab - dac - dcb)^2 <= 4 dac dcb or dab <= dac + dcb
        r = dab - dac - dcb
        return r <= 0 or r * r <= 4 * dac * dcb
    return dab <= dac + dcb


def _apply_changes(cur, dropped, rec, where):
    """a distance call / encode changed some tree in place: fine as long as the tree still means the same"""
    for i, spec, rooted in rec["changed"]:
        before = cur[i]
        cur[i] = (spec, rooted)
        lv = [x["taxon"] for x in trees.leaves(before[0])]
        if None in lv or len(set(lv)) != len(lv):
            continue
        same_class = (before[1] is True) == (rooted is True)
        if same_class and ideal_splits(*before) != ideal_splits(spec, rooted):
            # (one call may normalise twice - same object passed twice - so the collapse that drops the length may
            # start from the tree with its unifurcations already suppressed)
            if _drops_length(before) or _drops_length((_suppressed(before[0]), before[1])):
                dropped[i] = True
            else:
                return ("%s changed the splits / split lengths of tree %d while normalising it: %s -> %s"
                        % (where, i, trees.newick(before[0]), trees.newick(spec)), "encode-changes-tree")
    return None


def _root_bifurcation_left(struct):
    spec, rooted = struct
    return rooted is not True and len(spec["kids"]) == 2


def _suppressed(spec):
    """the spec tree without its nodes of outdegree one (lengths merged downwards)"""
    def go(n, carry):
        ln = _merge(carry, n["len"])
        if len(n["kids"]) == 1:
            return go(n["kids"][0], ln)
        return {"id": n["id"], "taxon": n["taxon"], "label": n["label"], "len": ln, "kids": [go(k, None) for k in n["kids"]]}
    return go(spec, None)


def _drops_length(struct):
    """a not-rooted tree whose basal bifurcation the library will collapse, the kept seed edge having no length
    while the removed one has"""
    spec, rooted = struct
    if rooted is True or len(spec["kids"]) != 2:
        return False
    c0, c1 = spec["kids"]
    if len(c1["kids"]) >= 2:
        keep, gone = c0, c1
    elif len(c0["kids"]) >= 2:
        keep, gone = c1, c0
    else:
        return False
    return keep["len"] is None and gone["len"] is not None


# ------------------------------------------------------------------------------------------------
# Coq terms

def c_struct(spec, rooted):
    return cpair(trees.c_tree(spec), copt(rooted, cbool))


def c_out(o):
    if o[0] == "OUnit":
        return "OUnit"
    if o[0] == "OInt":
        return "(OInt %s)" % cz(o[1])
    if o[0] == "OPair":
        return "(OPair %s %s)" % (cz(o[1]), cz(o[2]))
    if o[0] == "OMasks":
        return "(OMasks %s)" % clist([cz(x) for x in o[1]])
    if o[0] == "OErr":
        return "(OErr %s)" % o[1]
    if o[0] == "OFloat":
        return "OFuel"          # never produced by the model: forces a disagreement
    raise ValueError(o)


def c_op(op, rec):
    if op[0] in ("edit", "refused"):
        e = rec["edit"]
        det = clist([cpair(cz(i), cpair(copt(l, cz), cbool(t))) for i, l, t in e["det"]])
        return "(OpEdit %s %s %s %s %s %s)" % (cnat(op[1]), trees.c_tree(e["spec"]), copt(e["rooted"], cbool), det,
                                            cbool(e["enc_reset"]), cbool(e["bmap_reset"]))
    if op[0] == "encode":
        return "(OpEncode %s)" % cnat(op[1])
    name = {"symdiff": "OpSymDiff", "fpfn": "OpFpFn", "missing": "OpMissing", "wrf": "OpWRF", "euclid": "OpEuclid"}[op[0]]
    return "(%s %s %s %s)" % (name, cnat(op[1]), cnat(op[2]), cbool(op[3]))


def to_coq(case, obs):
    acc = clist([cpair(cz(k), cz(v)) for k, v in obs["acc"]])
    tl = clist([cpair(cz(t["ns"]), c_struct(t["spec"], t["rooted"])) for t in case["trees"]])
    ops = clist([c_op(o, r) for o, r in zip(case["ops"], obs["steps"])])
    ex = clist([cpair(c_out(r["out"]), clist([cpair(cnat(i), c_struct(s, ro)) for i, s, ro in r["changed"]]))
                for r in obs["steps"]])
    return "(mkCase %s %s %s %s %s %s)" % (obs["policy"], cbool(obs["merge"]), acc, tl, ops, ex)


def nontrivial(case, obs):
    nd = sum(1 for o, r in zip(case["ops"], obs["steps"]) if o[0] in DIST_KINDS and r["out"][0] != "OErr")
    return case["ntaxa"] >= 3 and nd >= 2


# ------------------------------------------------------------------------------------------------
# scopes

def exhaustive_cases(rng):
    """every ordered pair of tree shapes with <= 4 leaves (+ unifurcation variants at the seed and
    at the first child) under the three rooting states; random taxa, lengths"""
    shapes = []
    for n in (1, 2, 3, 4):
        for sh in trees.all_shapes(n):
            shapes.append((n, sh))
            shapes.append((n, [sh]))                     # unifurcating seed
            if sh:
                shapes.append((n, [[sh[0]]] + sh[1:]))   # unifurcation above the first child
    for (n1, s1), (n2, s2) in itertools.product(shapes, repeat=2):
        if n1 != n2:
            continue
        for rooted in (None, False, True):
            pat = rng.choice(["dyadic", "mixed", "none", "positive"])

            def lengths(r):
                if pat == "none":
                    return None
                if pat == "mixed" and r.random() < 0.3:
                    return None
                return r.choice([0, 512, 1024, 2048, 3072]) if pat != "positive" else r.choice([512, 1024, 2048])
            t1 = trees.shape_to_tree(s1, lengths, rng)
            t2 = trees.shape_to_tree(s2, lengths, rng)
            perm = list(range(n1))
            rng.shuffle(perm)
            for lf in trees.leaves(t2):
                lf["taxon"] = perm[lf["taxon"]]
            t1["len"] = None
            t2["len"] = None
            ops = [["wrf", 0, 1, False, "fn"], ["wrf", 1, 0, False, "fn"], ["symdiff", 0, 1, False, "fn"],
                   ["euclid", 0, 1, True, "fn"], ["euclid", 1, 0, False, "fn"], ["fpfn", 1, 0, False, "fn"]]
            yield {"ntaxa": n1, "holes": 0, "hole_seed": 0,
                   "trees": [{"ns": 0, "spec": t1, "rooted": rooted}, {"ns": 0, "spec": t2, "rooted": rooted}],
                   "ops": ops}


def history_scope_cases(rng, max_removals):
    """every history "m taxa (m = 4..6), then 1..max_removals of them removed one after the other (all ordered
    choices), then one or two new taxa" as the history of the shared namespace; random trees over the members left"""
    for m in (4, 5, 6):
        for r in range(1, max_removals + 1):
            for seq in itertools.permutations(range(m), r):
                if m - r < 2:
                    continue
                keys, nxt = {}, 0
                for pos in range(m):
                    if pos in seq:
                        keys[pos] = 1000 + seq.index(pos)
                    else:
                        keys[pos] = nxt
                        nxt += 1
                hist = [["add", keys[pos], ("t%d" % keys[pos]) if keys[pos] < 1000 else "x%d" % (keys[pos] - 1000),
                         "new_taxon"] for pos in range(m)]
                hist += [["remove", keys[pos], rng.choice(REMOVE_VIAS)] for pos in seq]
                for _ in range(rng.choice([1, 1, 2])):
                    hist.append(["add", nxt, "t%d" % nxt, rng.choice(ADD_VIAS)])
                    nxt += 1
                n = nxt
                rooted = rng.choice([None, False, True])
                tl = []
                for _ in range(2):
                    t = trees.gen_tree(rng, n, lengths=rng.choice(["dyadic", "positive"]), taxa=rng.sample(range(n), n))
                    t["len"] = None
                    tl.append({"ns": 0, "spec": t, "rooted": rooted})
                ops = [["symdiff", 0, 1, False, "fn"], ["fpfn", 0, 1, False, "fn"], ["wrf", 0, 1, False, "fn"],
                       ["wrf", 1, 0, False, "fn"], ["euclid", 0, 1, True, "fn"], ["missing", 1, 0, False, "fn"]]
                yield {"ntaxa": n, "holes": 0, "hole_seed": 0, "nshist": hist, "trees": tl, "ops": ops}


def f8_witness_case():
    """the witness of Props/C04.v defined_sym_refuted, replayed on the implementation"""
    L = lambda i, x, e: {"id": i, "taxon": x, "label": None, "len": e, "kids": []}
    N = lambda i, e, ks: {"id": i, "taxon": None, "label": None, "len": e, "kids": ks}
    a = N(0, None, [L(1, 0, None), L(2, 1, None), L(3, 2, None)])
    b = N(0, None, [L(1, 0, 1024), L(2, 1, 1024), L(3, 2, 1024)])
    return {"ntaxa": 3, "holes": 0, "hole_seed": 0,
            "trees": [{"ns": 0, "spec": a, "rooted": False}, {"ns": 0, "spec": b, "rooted": False}],
            "ops": [["wrf", 0, 1, False, "fn"], ["wrf", 1, 0, False, "fn"],
                    ["euclid", 0, 1, False, "fn"], ["euclid", 1, 0, False, "fn"]]}


def collision_witness_case():
    """the witness of Props/C04.v wrf_zero_on_redrawing_refuted"""
    L = lambda i, x, e: {"id": i, "taxon": x, "label": None, "len": e, "kids": []}
    N = lambda i, e, ks: {"id": i, "taxon": None, "label": None, "len": e, "kids": ks}
    a = N(0, None, [L(1, 0, 1024), L(2, 1, 2048)])
    b = N(0, None, [L(1, 1, 2048), L(2, 0, 1024)])
    return {"ntaxa": 2, "holes": 0, "hole_seed": 0,
            "trees": [{"ns": 0, "spec": a, "rooted": False}, {"ns": 0, "spec": b, "rooted": False}],
            "ops": [["wrf", 0, 1, False, "fn"], ["wrf", 1, 0, False, "fn"]]}


def uni_witness_case():
    """the witness of Props/C04.v zero_on_redrawing_refuted: (((A:1,B:1):1):1,C:5), seed children exchanged; the same
    call is then repeated on the trees the first call left behind"""
    L = lambda i, x, e: {"id": i, "taxon": x, "label": None, "len": e, "kids": []}
    N = lambda i, e, ks: {"id": i, "taxon": None, "label": None, "len": e, "kids": ks}
    a = N(0, None, [N(1, 1024, [N(2, 1024, [L(3, 0, 1024), L(4, 1, 1024)])]), L(5, 2, 5120)])
    b = N(0, None, [L(5, 2, 5120), N(1, 1024, [N(2, 1024, [L(3, 0, 1024), L(4, 1, 1024)])])])
    return {"ntaxa": 3, "holes": 0, "hole_seed": 0,
            "trees": [{"ns": 0, "spec": a, "rooted": False}, {"ns": 0, "spec": b, "rooted": False}],
            "ops": [["symdiff", 0, 1, False, "fn"], ["wrf", 0, 1, False, "fn"], ["wrf", 0, 1, False, "fn"]]}


def drop_witness_case():
    """the witness of Props/C04.v child_order_invariant_refuted: ((A:1,B:1),(C:1,D:1):1), seed children exchanged"""
    L = lambda i, x, e: {"id": i, "taxon": x, "label": None, "len": e, "kids": []}
    N = lambda i, e, ks: {"id": i, "taxon": None, "label": None, "len": e, "kids": ks}
    a = N(0, None, [N(1, None, [L(2, 0, 1024), L(3, 1, 1024)]), N(4, 1024, [L(5, 2, 1024), L(6, 3, 1024)])])
    b = N(0, None, [N(4, 1024, [L(5, 2, 1024), L(6, 3, 1024)]), N(1, None, [L(2, 0, 1024), L(3, 1, 1024)])])
    return {"ntaxa": 4, "holes": 0, "hole_seed": 0,
            "trees": [{"ns": 0, "spec": a, "rooted": False}, {"ns": 0, "spec": b, "rooted": False}],
            "ops": [["symdiff", 0, 1, False, "fn"], ["wrf", 0, 1, False, "fn"]]}


def witness_cases():
    return [f8_witness_case(), collision_witness_case(), uni_witness_case(), drop_witness_case()]


# ------------------------------------------------------------------------------------------------
# second group: Tree.reseed_at(node) against the spec-level rotation C04Spec.reseed

RHEADER = ("From DV Require Import Model.PyPrims Model.Tree Model.C04Model Model.C04Spec.\n"
           "From Coq Require Import ZArith. Open Scope Z_scope.")


def internal_paths(spec):
    """child-position paths from the seed to every internal node (the seed itself: [])"""
    out = []

    def go(n, path):
        if n["kids"]:
            out.append(path)
            for i, k in enumerate(n["kids"]):
                go(k, path + [i])
    go(spec, [])
    return out


def gen_rcase(rng, max_leaves=10):
    n = rng.randint(2, max_leaves)
    t = trees.gen_tree(rng, n, lengths=rng.choice(LENGTH_PATTERNS), unifurcations=rng.choice([0.0, 0.0, 0.2]),
                       taxa=rng.sample(range(n), n))
    t["len"] = rng.choice([None, None, None, 1024])
    paths = internal_paths(t)
    return {"ntaxa": n, "spec": t, "rooted": rng.choice([None, False, False, True]), "path": rng.choice(paths)}


def observe_r(case):
    import dendropy
    n = case["ntaxa"]
    ns, objs = trees.make_namespace(n, None)
    tindex = {id(t): k for k, t in enumerate(objs)}
    tree, _by_id = trees.build_dendropy(case["spec"], dict(enumerate(objs)), is_rooted=case["rooted"], namespace=ns)
    nd = tree.seed_node
    for p_ in case["path"]:
        nd = nd._child_nodes[p_]
    try:
        tree.reseed_at(nd)
    except Exception as e:
        return {"err": core.exc_enum(e), "merge": not library_drops()}
    spec, problems = trees.dump_dendropy(tree, tindex, alloc=trees.IdAlloc(10000))
    if problems:
        raise RuntimeError("ill-formed tree after reseed_at: %s" % problems[:3])
    return {"spec": spec, "rooted": tree.is_rooted, "merge": not library_drops()}


def to_coq_r(case, obs):
    exp = "None" if "err" in obs else "(Some %s)" % c_struct(obs["spec"], obs["rooted"])
    return "(mkRCase %s %s %s %s)" % (cbool(obs["merge"]), c_struct(case["spec"], case["rooted"]),
                                      clist([cnat(x) for x in case["path"]]), exp)


def oracle_r(case, obs):
    """moving the seed of a tree that is not rooted must not change its splits and split lengths"""
    if "err" in obs:
        return ("reseed_at(internal node) raised %s" % obs["err"], "reseed-raises")
    if case["rooted"] is True:
        return None
    lv = [x["taxon"] for x in trees.leaves(obs["spec"])]
    if None in lv:
        return None     # a unifurcating seed is left behind as a taxon-less leaf (outside C04: see C07)
    if ideal_splits(case["spec"], case["rooted"]) != ideal_splits(obs["spec"], obs["rooted"]):
        if _drops_length((case["spec"], case["rooted"])) or _drops_length((_suppressed(case["spec"]), case["rooted"])):
            return ("reseed_at dropped a basal edge length", KEY_DROP)
        return ("reseed_at changed the splits / split lengths of a not-rooted tree: %s -> %s"
                % (trees.newick(case["spec"]), trees.newick(obs["spec"])), "reseed-changes-tree")
    return None


def gen_overwritten():
    """True when coq/Gen/TreeCompare.v is not what the translator derives from this run's source"""
    import os
    from dv import gen_treecompare
    try:
        want = gen_treecompare.generate(core.REPO)
    except Exception:
        return False          # fail-closed stub: handled by proof_stage
    try:
        with open(os.path.join(core.COQ, "Gen", "TreeCompare.v")) as f:
            return f.read() != want
    except OSError:
        return True


def search(ctx, budget_s):
    t0 = time.time()
    rng = random.Random(ctx.seed + 404)
    n = 0
    while time.time() - t0 < budget_s and n < 20000:
        # half of the histories over a namespace that itself has a history of additions and removals
        case = gen_refused_case(rng) if n % 3 == 2 else gen_case(rng, 10, small=(n % 2 == 0), hist=0.5)
        try:
            obs = observe(case)
        except Exception:
            continue
        v = oracle(case, obs)
        n += 1
        if v:
            ctx.violation(v[0], {"case": case, "observed": obs}, key=v[1])
            if ctx.violations:
                return
    ctx.notes.append("search: %d further histories through the oracle, no unlisted violation" % n)


def show_sample(case, obs):
    d = {"trees": [[trees.newick(t["spec"]), t["rooted"]] for t in case["trees"]],
         "ops": case["ops"][:8], "out": [r["out"] for r in obs["steps"]][:8]}
    if case.get("nshist"):
        d["namespace_history"] = show_nshist(case["nshist"])
        d["accession_indices"] = [[l, b.bit_length() - 1] for k, b, l in obs["bits"] if k < 100]
    return d


def run(tier, seed, replay=None):
    ctx = core.Ctx("C04", tier, seed)
    ctx.assumptions = [
        "treecompare.py is translated from its AST on every run (coq/Gen/TreeCompare.v) and proved equal to the model's "
        "do_* functions; trusted there: the Python semantics stated for the primitives in coq/Model/C04Prims.v, the "
        "parameter types by name, bipartition_length_diff_map = False; the Tree side (encode_bipartitions, "
        "collapse_basal_bifurcation, bipartition_edge_map) is hand-transcribed and tied by this correspondence run",
        "edge lengths are dyadic (multiples of 2^-10), for which the library's float sums are exact; binary64 rounding and "
        "the final sqrt of euclidean_distance are outside the model (the radicand is compared exactly)",
        "structural edits between distance calls (child swaps, Edge.collapse, reseed_at, reroot_at_node, length and rooting "
        "assignment) are performed by the library and enter the model as the structure they leave behind",
        "leaves carry distinct taxa of the tree's namespace; node identities are the harness's ids",
    ]
    if replay:
        r = json.load(open(replay))["replay"]
        case = r["case"]
        obs = observe(case)
        print("observed:", json.dumps([s["out"] for s in obs["steps"]]))
        print("oracle:", oracle(case, obs))
        print("model:", core.show_cases("C04", HEADER, "case_run", [to_coq(case, obs)]))
        return 0
    # euclid_triangle_sqrt is stated over Coq's classical reals: the three standard axioms of Coq.Reals are allowed
    # (every other theorem must be closed under the global context - they are, see evidence.trusted_base)
    real_axioms = ("ClassicalDedekindReals.sig_forall_dec", "ClassicalDedekindReals.sig_not_dec",
                   "FunctionalExtensionality.functional_extensionality_dep")
    # Gen/TreeCompare.v: treecompare.py translated from its AST on this run (py/dv/gen_treecompare.py); Props/C04.v
    # (generated_*) proves it equal to the hand-written model, so an edit of the source breaks a proof here
    ok = core.proof_stage(ctx, ["Props/C04.vo"], gen_needed=("BitFns", "TreeCompare"), allow_axioms=real_axioms)
    if gen_overwritten():
        # another check running concurrently regenerates coq/Gen from its own DV_REPO: build again
        ctx.notes.append("coq/Gen/TreeCompare.v was overwritten by a concurrent run during the build; proof stage repeated")
        ctx.obligations = []
        ctx.trusted = []
        ok = core.proof_stage(ctx, ["Props/C04.vo"], gen_needed=("BitFns", "TreeCompare"), allow_axioms=real_axioms)
        if gen_overwritten():
            ctx.obligation("coq/Gen/TreeCompare.v stable during the build (no concurrent regeneration)", False)
            ok = False
    stray = [t for t in ctx.trusted if t.startswith("axiom ") and not t.endswith("used by euclid_triangle_sqrt")]
    ctx.obligation("only euclid_triangle_sqrt depends on axioms (the three of Coq.Reals)", not stray)
    if stray:
        ctx.notes.append("axioms used outside euclid_triangle_sqrt: %s" % stray)
        ok = False
    if not ok:
        core.broken_proof(ctx, search)
    n = 420 if tier == "quick" else 5000
    cases = witness_cases()
    rnd = [gen_case(ctx.rng, 12 if tier == "quick" else 16) for _ in range(n)]
    # (small namespaces with a history first: a violation is then reported on a short history)
    cases += sorted(rnd, key=lambda c: 0 if c.get("nshist") and c["ntaxa"] <= 6 else 1)
    cases.extend(history_scope_cases(ctx.rng, 2 if tier == "quick" else 3))
    # wave 8: refused calls (documented errors) between the distance calls; own generator stream, so that the histories
    # above are the ones of the earlier waves
    rrng = random.Random(ctx.seed * 31 + 8)
    scope = refused_scope_cases()
    cases.extend(scope if tier == "thorough" else rrng.sample(scope, 60))
    cases.extend(gen_refused_case(rrng, 10 if tier == "quick" else 14) for _ in range(140 if tier == "quick" else 2500))
    if tier == "thorough":
        cases.extend(exhaustive_cases(ctx.rng))
    for c in cases:
        ctx.count("leaves:%s" % ("1-2" if c["ntaxa"] <= 2 else "3-6" if c["ntaxa"] <= 6 else "7-12" if c["ntaxa"] <= 12 else "13-25"))
        ctx.count("trees:%d" % len(c["trees"]))
        ctx.count("namespace:%s" % ("history" if c.get("nshist") else "holes" if c["holes"] else "plain"))
        for f in (nshist_features(c["nshist"]) if c.get("nshist") else []):
            ctx.count("nshist:" + f)
        for t in c["trees"]:
            ctx.count("rooted:%s" % t["rooted"])
        for o in c["ops"]:
            ctx.count("op:" + (o[0] if o[0] not in ("edit", "refused") else o[0] + "-" + o[2]))
            if o[0] in DIST_KINDS:
                ctx.count("upd:%s" % o[3])

    def observe_counting(case):
        obs = observe(case)
        for o, r in zip(case["ops"], obs["steps"]):
            if r["out"][0] == "OErr":
                ctx.count("err:%s:%s" % (o[0], r["out"][1]))
        return obs

    core.corr_stage(ctx, cases, observe_counting, to_coq, HEADER, "case_ok", oracle=oracle,
                    show_fn="case_run", nontrivial=nontrivial, search=search, shard=75 if tier == "quick" else 150,
                    sample_fn=show_sample)
    nr = 150 if tier == "quick" else 2500
    rcases = [gen_rcase(ctx.rng, 10 if tier == "quick" else 14) for _ in range(nr)]
    for c in rcases:
        ctx.count("reseed:path-length:%d" % len(c["path"]))
    core.corr_stage(ctx, rcases, observe_r, to_coq_r, RHEADER, "rcase_ok", oracle=oracle_r, show_fn="rcase_run",
                    nontrivial=lambda c, o: len(c["path"]) >= 1 and c["ntaxa"] >= 3, search=None, shard=75,
                    label="reseed", sample_fn=lambda c, o: {"tree": trees.newick(c["spec"]), "rooted": c["rooted"], "path": c["path"]})
    ctx.notes.append("missing-length policy of the working tree (probed): %s" % policy())
    ctx.notes.append("collapse_basal_bifurcation() of the working tree (probed): %s"
                     % ("drops the removed length onto a missing one (mg = false)" if library_drops()
                        else "takes the removed length over (mg = true)"))
    return ctx.finish(
        level="proof",
        rule="random pairs/triples of trees (1-25 leaves; binary/polytomy/star/caterpillar, unifurcations, seed-edge lengths; "
             "redrawings, neighbours, independent trees) over one namespace (with vacated accession indices; for 30% of the "
             "cases built through a history of 1-6 removals at any position - newest, inner, by object / label / index - "
             "interleaved with the additions, re-used labels, members no tree uses, sort/reverse, early taxon_bitmask calls, "
             "the trees' taxa partly accessioned after the last removal; the observed accession map goes to the model, the "
             "oracle works on labels and checks that distinct leaf taxa have distinct single-bit masks; plus every history of 4-6 "
             "taxa, 1-2 (thorough: 1-3) ordered removals and 1-2 later additions) and rarely a tree "
             "over a second namespace; three rooting states; length patterns all/none/mixed None/zeros/dyadics; histories of "
             "3-12 ops mixing edits (child swap, Edge.collapse, reseed_at, reroot_at_node, set length, set rooting) with "
             "encode_bipartitions and the five distance functions through their public, alias and deprecated entry points; "
             "wave 8: plus histories with 1-3 REFUSED calls (remove_child of a sibling / another node / the receiver itself / "
             "its parent / the seed / a node of another tree, Edge.collapse of a leaf edge, to_outgroup_position / prune_subtree "
             "of the seed, add_child of the node itself / its parent), each followed by distance calls on that tree, the "
             "pointers of every node of every tree compared before/after (clause: a refused operation changes nothing), and "
             "every refused remove_child pair on four small shapes; both "
             "values of is_bipartitions_updated and both argument orders; thorough adds every ordered pair of shapes with <=4 "
             "leaves incl. unifurcation variants under the three rootings; a case is non-trivial when it has >=3 leaves and >=2 "
             "distance calls that returned a value; distinct by full case content")
