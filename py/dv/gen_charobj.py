"""C09 (wave 7) translator, object level: WHICH list object a CharacterDataSequence built from another sequence
holds, and WHICH iteration NexusWriter._write_char_block writes the MATRIX rows in.  AST-driven, fail closed.

  CharacterDataSequence.__init__ / extend / values  (datamodel/charmatrixmodel.py)
      symbolic execution of `CharacterDataSequence(other)` (one argument, a sequence; no types / annotations)
      as to the `_character_values` list only: `[]` = alloc, `x.extend(iterable over other)` = in-place
      extension of the object x, `other.values()` / `other._character_values` = other's list ITSELF.
      -> Definition CharacterDataSequence_init_from_sequence (s : store) (ro : rid) : store * rid
  CharacterMatrix.__iter__                           must be the namespace walk `iter_rows` models
  NexusWriter._write_char_block  (dataio/nexuswriter.py)
      every loop over rows must iterate the matrix (namespace order) - or every one the dictionary
      -> Definition NexusWriter_write_char_block_row_iter : row_iter
Anything else in these functions that touches `_character_values` / iterates rows differently: Unsupported.
"""
import ast
import os

OUTPUT = "CharObj.v"


class Unsupported(Exception):
    pass


def bad(node, why):
    raise Unsupported("line %s: %s" % (getattr(node, "lineno", "?"), why))


def find_method(tree, cls, name):
    for n in tree.body:
        if isinstance(n, ast.ClassDef) and n.name == cls:
            for f in n.body:
                if isinstance(f, ast.FunctionDef) and f.name == name:
                    return f
    raise Unsupported("%s.%s not found" % (cls, name))


def is_self_attr(e, attr=None):
    return isinstance(e, ast.Attribute) and isinstance(e.value, ast.Name) and e.value.id == "self" \
        and (attr is None or e.attr == attr)


def mentions_values(node):
    return any(isinstance(x, ast.Attribute) and x.attr == "_character_values" for x in ast.walk(node)) \
        or any(isinstance(x, ast.Call) and isinstance(x.func, ast.Attribute) and x.func.attr == "values" for x in ast.walk(node))


def is_docstring(s):
    return isinstance(s, ast.Expr) and isinstance(s.value, ast.Constant) and isinstance(s.value.value, str)


class SeqInit:
    """`CharacterDataSequence(other)`: character_values = a sequence object (value list `ro`), the other two None"""

    def __init__(self, tree):
        self.tree = tree
        self.lines = []
        self.own = None       # what self._character_values denotes: None | "r" (allocated here) | "ro" (other's list)
        vals = find_method(tree, "CharacterDataSequence", "values")
        body = [s for s in vals.body if not is_docstring(s)]
        self.values_returns_own_list = (len(body) == 1 and isinstance(body[0], ast.Return)
                                        and is_self_attr(body[0].value, "_character_values"))

    def test(self, e, env):
        if isinstance(e, ast.Name) and env.get(e.id) in ("SEQ", "LISTCOPY"):
            return True           # (an EMPTY sequence is falsy: then nothing is appended to the new [] - the same list as a copy)
        if isinstance(e, ast.Call) and isinstance(e.func, ast.Name) and e.func.id == "isinstance" and len(e.args) == 2 \
                and isinstance(e.args[0], ast.Name) and env.get(e.args[0].id) == "SEQ" \
                and isinstance(e.args[1], ast.Name) and e.args[1].id == "CharacterDataSequence":
            return True
        if isinstance(e, ast.Compare) and len(e.ops) == 1 and isinstance(e.left, ast.Name) \
                and isinstance(e.comparators[0], ast.Constant) and e.comparators[0].value is None and e.left.id in env:
            isnone = env[e.left.id] == "NONE"
            if isinstance(e.ops[0], ast.Is):
                return isnone
            if isinstance(e.ops[0], ast.IsNot):
                return not isnone
        if isinstance(e, ast.BoolOp):
            vs = [self.test(v, env) for v in e.values]
            return all(vs) if isinstance(e.op, ast.And) else any(vs)
        if isinstance(e, ast.UnaryOp) and isinstance(e.op, ast.Not):
            return not self.test(e.operand, env)
        bad(e, "condition not understood: %s" % ast.dump(e)[:120])

    def other_list(self, e, env):
        """does e denote the argument sequence's value list itself?"""
        if isinstance(e, ast.Call) and not e.args and isinstance(e.func, ast.Attribute) and e.func.attr == "values" \
                and isinstance(e.func.value, ast.Name) and env.get(e.func.value.id) == "SEQ":
            if not self.values_returns_own_list:
                bad(e, "CharacterDataSequence.values() is not `return self._character_values`")
            return True
        if isinstance(e, ast.Attribute) and e.attr == "_character_values" and isinstance(e.value, ast.Name) \
                and env.get(e.value.id) == "SEQ":
            return True
        return False

    def block(self, stmts, env, in_extend):
        for s in stmts:
            if is_docstring(s) or isinstance(s, (ast.Assert, ast.Pass)):
                continue
            if isinstance(s, ast.If):
                self.block(s.body if self.test(s.test, env) else s.orelse, env, in_extend)
                continue
            if isinstance(s, ast.Assign) and len(s.targets) == 1:
                t = s.targets[0]
                if is_self_attr(t, "_character_values"):
                    if isinstance(s.value, ast.List) and not s.value.elts:
                        if self.own is not None:
                            bad(s, "_character_values assigned twice")
                        self.lines.append("let '(s, r) := alloc s [] in")
                        self.own = "r"
                    elif self.other_list(s.value, env):
                        self.lines.append("let r := ro in")
                        self.own = "ro"
                    else:
                        bad(s, "assignment to self._character_values not understood")
                    continue
                if is_self_attr(t) and not self.other_list(s.value, env):
                    continue          # _character_types / _character_annotations: parallel lists, not the values
                if in_extend and isinstance(t, ast.Name) and t.id == "character_values" and isinstance(s.value, ast.Call) \
                        and isinstance(s.value.func, ast.Name) and s.value.func.id == "list" and len(s.value.args) == 1 \
                        and isinstance(s.value.args[0], ast.Name) and env.get(s.value.args[0].id) in ("SEQ", "LISTCOPY"):
                    env[t.id] = "LISTCOPY"        # a local list with the values of the argument
                    continue
                bad(s, "assignment not understood")
            if isinstance(s, ast.Expr) and isinstance(s.value, ast.Call) and isinstance(s.value.func, ast.Attribute):
                c = s.value
                f = c.func
                if is_self_attr(f, "extend") and not in_extend:
                    params = {"character_values": None, "character_types": "NONE", "character_annotations": "NONE"}
                    names = ["character_values", "character_types", "character_annotations"]
                    for i, a in enumerate(c.args):
                        params[names[i]] = a
                    for kw in c.keywords:
                        params[kw.arg] = kw.value
                    env2 = {}
                    for k, v in params.items():
                        if v == "NONE":
                            env2[k] = "NONE"
                        elif isinstance(v, ast.Name) and v.id in env:
                            env2[k] = env[v.id]
                        else:
                            bad(s, "argument of self.extend not understood")
                    if env2["character_values"] != "SEQ":
                        bad(s, "self.extend is not given the argument sequence")
                    ext = find_method(self.tree, "CharacterDataSequence", "extend")
                    self.block(ext.body, env2, True)
                    continue
                if f.attr == "extend" and is_self_attr(f.value) and in_extend:
                    if f.value.attr == "_character_values":
                        if len(c.args) != 1 or not isinstance(c.args[0], ast.Name) or env.get(c.args[0].id) not in ("SEQ", "LISTCOPY"):
                            bad(s, "values extended by something else than the argument's values")
                        if self.own is None:
                            bad(s, "extend before the list exists")
                        self.lines.append("let s := mutate s %s (hget s %s ++ hget s ro) in" % (self.own, self.own))
                    elif mentions_values(s):
                        bad(s, "statement touches the value list")
                    continue
            if mentions_values(s):
                bad(s, "statement touching _character_values not understood")
            bad(s, "statement not understood: %s" % type(s).__name__)

    def compile(self):
        init = find_method(self.tree, "CharacterDataSequence", "__init__")
        names = [a.arg for a in init.args.args]
        if names != ["self", "character_values", "character_types", "character_annotations"]:
            bad(init, "signature of CharacterDataSequence.__init__ changed")
        self.block(init.body, {"character_values": "SEQ", "character_types": "NONE", "character_annotations": "NONE"}, False)
        if self.own is None:
            bad(init, "no value list")
        return ("(* CharacterDataSequence.__init__(other_sequence) with extend / values inlined (charmatrixmodel.py, line %d):\n"
                "   the `_character_values` list of the new sequence *)\n"
                "Definition CharacterDataSequence_init_from_sequence (s : store) (ro : rid) : store * rid :=\n%s\n(s, r).\n"
                % (init.lineno, "\n".join(self.lines)))


EXPECTED_ITER = "for t in self.taxon_namespace:\n    if t in self._taxon_sequence_map:\n        yield t"


def check_matrix_iter(tree):
    it = find_method(tree, "CharacterMatrix", "__iter__")
    body = [s for s in it.body if not is_docstring(s)]
    if len(body) != 1 or ast.unparse(body[0]) != EXPECTED_ITER:
        bad(it, "CharacterMatrix.__iter__ is no longer the namespace walk")


def row_iteration(wtree):
    fn = find_method(wtree, "NexusWriter", "_write_char_block")
    aliases = {}        # local name -> "entered" when bound to the dictionary's items

    def kind(e):
        if isinstance(e, ast.Name) and e.id == "char_matrix":
            return "matrix"
        if isinstance(e, ast.Call) and not e.args and isinstance(e.func, ast.Attribute) and e.func.attr in ("values", "items") \
                and isinstance(e.func.value, ast.Name) and e.func.value.id == "char_matrix":
            return "matrix"
        if isinstance(e, ast.Subscript) and isinstance(e.value, ast.Name) and e.value.id == "char_matrix":
            return "cells"
        if isinstance(e, ast.Name) and e.id in ("seq",):
            return "cells"
        if isinstance(e, ast.Call) and isinstance(e.func, ast.Attribute) and e.func.attr in ("values", "keys", "items") \
                and isinstance(e.func.value, ast.Name) and e.func.value.id == "taxon_label_map":
            return "labels"         # only ever under max(): order-insensitive
        if isinstance(e, ast.Call) and isinstance(e.func, ast.Attribute) and e.func.attr in ("items", "keys", "values") \
                and isinstance(e.func.value, ast.Attribute) and e.func.value.attr == "_taxon_sequence_map":
            return "entered"
        if isinstance(e, ast.Attribute) and e.attr == "_taxon_sequence_map":
            return "entered"
        if isinstance(e, ast.Call) and isinstance(e.func, ast.Name) and e.func.id == "list" and len(e.args) == 1:
            return kind(e.args[0])
        if isinstance(e, ast.Name) and e.id in aliases:
            return aliases[e.id]
        bad(e, "_write_char_block iterates something not understood: %s" % ast.unparse(e)[:80])
    for n in ast.walk(fn):
        if isinstance(n, ast.Assign) and len(n.targets) == 1 and isinstance(n.targets[0], ast.Name):
            try:
                k = kind(n.value)
            except Unsupported:
                continue
            if k in ("matrix", "entered"):
                aliases[n.targets[0].id] = k
    kinds = []
    for n in ast.walk(fn):
        if isinstance(n, ast.For):
            kinds.append(kind(n.iter))
        elif isinstance(n, (ast.ListComp, ast.GeneratorExp, ast.SetComp)):
            for g in n.generators:
                kinds.append(kind(g.iter))
    rows = set(k for k in kinds if k in ("matrix", "entered"))
    if rows == {"matrix"}:
        return "IterMatrix", fn.lineno
    if rows == {"entered"}:
        return "IterEntered", fn.lineno
    bad(fn, "_write_char_block iterates the rows in different ways: %s" % kinds)


def generate(repo):
    with open(os.path.join(repo, "src", "dendropy", "datamodel", "charmatrixmodel.py")) as f:
        tree = ast.parse(f.read())
    with open(os.path.join(repo, "src", "dendropy", "dataio", "nexuswriter.py")) as f:
        wtree = ast.parse(f.read())
    out = ["(* GENERATED by py/dv/gen_charobj.py from src/dendropy/datamodel/charmatrixmodel.py and src/dendropy/dataio/nexuswriter.py. DO NOT EDIT. *)",
           "From Coq Require Import ZArith List Bool.",
           "From DV Require Import Model.PyPrims Model.C09AlphaTypes Model.C09Model Model.C09Obj.",
           "Import ListNotations.", "Open Scope Z_scope.", ""]
    out.append(SeqInit(tree).compile())
    check_matrix_iter(tree)
    it, line = row_iteration(wtree)
    out.append("(* NexusWriter._write_char_block (nexuswriter.py, line %d): the iteration its loops over the rows use;\n"
               "   CharacterMatrix.__iter__ checked to be the namespace walk *)\n"
               "Definition NexusWriter_write_char_block_row_iter : row_iter := %s.\n" % (line, it))
    return "\n".join(out)


if __name__ == "__main__":
    import sys
    print(generate(sys.argv[1] if len(sys.argv) > 1 else "/repo"))
