"""C19 - character-matrix row/column operations select exactly what they name; terminate.

Object level: besides the rows as values the harness observes the IDENTITY of every row object (id(), numbered by
first observation within a history) and compares it with the row ids of the object-level model
coq/Model/C19RowHeap.v up to an injective renaming (ocase_ok), so that an operation storing an object it was handed
(instead of a copy) or one object for several taxa is a disagreement even while all values are still equal.

Correspondence: random (and, in the thorough tier, exhaustive small-scope) operation histories
over several CharacterMatrix objects are run through the REAL methods of
dendropy.datamodel.charmatrixmodel and through the Coq model coq/Model/C19Model.v (vm_compute).
After every step the result (value / exception class / Hang) and EVERY matrix that is new or
differs from its state before the step are compared, so an operation that touches an argument
or a bystander matrix cannot go unnoticed.  The oracle states each operation's documented
effect naively and independently of the model.
"""
import io
import os
import random
import time

from dv import core
from dv.core import cz, cbool, clist, copt, cpair

HEADER = ("From DV Require Import Model.PyPrims Model.C19Model Model.C19RowHeap.\n"
          "From Coq Require Import ZArith. Open Scope Z_scope.")

SCRATCH = "/var/tmp/dv-C19"

# "generic": the plain CharacterMatrix base class (cells are arbitrary values; its row type is the base
# CharacterDataSequence, so __setitem__ adopts a given row object instead of converting it)
DTYPES = ["dna", "rna", "nucleotide", "protein", "standard", "restriction", "infinite", "continuous", "generic", "generic"]
VALUED = ("continuous", "generic")
LABELS = ["a", "A", "b", "a_002", "A_002", "a_003", "b_002", "locus000", "locus001", "LOCUS001",
          "locus000_002", "x y"]

_hangs = [0]


def _cls(dtype):
    import dendropy
    return {"dna": dendropy.DnaCharacterMatrix, "rna": dendropy.RnaCharacterMatrix,
            "nucleotide": dendropy.NucleotideCharacterMatrix, "protein": dendropy.ProteinCharacterMatrix,
            "standard": dendropy.StandardCharacterMatrix,
            "restriction": dendropy.RestrictionSitesCharacterMatrix,
            "infinite": dendropy.InfiniteSitesCharacterMatrix,
            "continuous": dendropy.ContinuousCharacterMatrix,
            "generic": dendropy.CharacterMatrix}[dtype]


_syms = {}


def symbols(dtype):
    """symbol table of the data type: cell k <-> k-th state of the alphabet (str)"""
    if dtype in VALUED:
        return None
    if dtype not in _syms:
        import dendropy
        m = _cls(dtype)(taxon_namespace=dendropy.TaxonNamespace())
        _syms[dtype] = [str(s) for s in m.default_state_alphabet]
        assert len(set(_syms[dtype])) == len(_syms[dtype])
    return _syms[dtype]


def ncell(dtype):
    return 9 if dtype in VALUED else min(len(symbols(dtype)), 9)


# ----------------------------------------------------------------------------
# generator
# ----------------------------------------------------------------------------

def gen_matrix(rng, dtype, nss, force_full=False):
    nsi = 0 if (len(nss) == 1 or rng.random() < 0.85) else 1
    T = nss[nsi][1]
    label = rng.choice([None, None, "a", "a", "A", "b", "locus001", "a_002"])
    width = rng.choice([0, 1, 1, 2, 2, 3, 3, 4, 5, 6, 8, 12])
    if force_full or rng.random() < 0.6:
        taxa = list(T)
    else:
        taxa = [t for t in T if rng.random() < 0.6]
    if rng.random() < 0.5:
        rng.shuffle(taxa)
    ragged = rng.random() < 0.2
    k = ncell(dtype)
    rows = []
    for t in taxa:
        w = width if not ragged else max(0, width + rng.choice([-2, -1, 0, 0, 1]))
        rows.append([t, [rng.randrange(k) for _ in range(w)]])
    subs = []
    if rng.random() < 0.25:
        for lab in rng.sample(["a", "A_002", "b", "locus000"], rng.randint(1, 2)):
            if lab.lower() not in [s[0].lower() for s in subs]:
                subs.append([lab, sorted(set(rng.randrange(max(1, width + 2)) for _ in range(rng.randint(0, 4))))])
    return {"ns": nss[nsi][0], "label": label, "rows": rows, "subs": subs}


def gen_case(rng, maxops=8, maxtax=6):
    dtype = rng.choice(DTYPES)
    ntax = rng.choice([0, 1, 2, 2, 3, 3, 3, 4, 4, 5, 6, 6])
    nss = [[0, list(range(ntax))]]
    if rng.random() < 0.35:
        nss.append([1, [100 + i for i in range(rng.randint(1, 3))]])
    ninit = rng.randint(1, 4)
    full = rng.random() < 0.5     # a family of concatenable matrices
    init = [gen_matrix(rng, dtype, nss, force_full=full and rng.random() < 0.8) for _ in range(ninit)]
    alltax = [t for _n, T in nss for t in T]
    est = ninit
    ops = []
    k = ncell(dtype)

    def M():
        return rng.randrange(ninit) if rng.random() < 0.7 else rng.randrange(est)

    def M2(m):
        # second matrix of an extend: the receiver itself only rarely (that call does not return)
        o = M()
        if o == m and rng.random() < 0.85:
            o = (m + 1) % max(1, ninit)
        return o

    concats = []

    matlabels = [im["label"] for im in init if im["label"]] + ["locus000", "locus001"]
    sublabels = matlabels + [l + "_002" for l in matlabels] + [l + "_003" for l in matlabels] + [l.upper() for l in matlabels]

    def TS():
        if not alltax:
            return []
        return [rng.choice(alltax) for _ in range(rng.choice([0, 1, 1, 2, 2, 3, 4]))]

    def CELLS():
        return [rng.randrange(k) for _ in range(rng.choice([0, 1, 2, 3, 5]))]

    def KEY():
        r = rng.random()
        if r < 0.4:
            return ["KIdx", rng.randint(-ntax - 1, ntax + 1)]
        if r < 0.6:
            return ["KLab", rng.choice(alltax + [7, 105])]
        return ["KTax", rng.choice(alltax + [7])] if alltax else ["KIdx", 0]

    def IDX():
        return [rng.randint(-1, 14) for _ in range(rng.choice([0, 1, 2, 3, 4, 6, 9]))]

    def MK():
        # a matrix and a Taxon/index/label key; mostly a taxon of the matrix's own namespace
        return M(), (["KTax", rng.choice(alltax)] if alltax and rng.random() < 0.7 else KEY())

    for _ in range(rng.randint(1, maxops)):
        r = rng.random()
        if r < 0.14:
            # in-place operations on a row object obtained by m[key].  (The two ways a CALLER can put one row
            # object under two slots - m[k] = o[t] with a row object of the matrix's own type, copy.copy(m) - are not
            # operations of the property; the model has them as OSetItemRow / OCopy only to state, in
            # Props/C19.v, that they are the only steps that break the separation of row objects.)
            q = rng.random()
            if q < 0.28:
                m, ky = MK(); ops.append(["RowAppend", m, ky, rng.randrange(k)])
            elif q < 0.52:
                m, ky = MK(); ops.append(["RowExtend", m, ky, CELLS()])
            elif q < 0.78:
                m, ky = MK(); ops.append(["RowSet", m, ky, rng.randint(-4, 5), rng.randrange(k)])
            else:
                m, ky = MK(); ops.append(["RowDel", m, ky, rng.randint(-4, 5)])
            continue
        r = (r - 0.14) / 0.86
        if r < 0.20:
            ids = [M() for _ in range(rng.choice([0, 1, 2, 2, 2, 3, 3, 4]))]
            if ids and rng.random() < 0.3:
                ids.append(ids[0])          # the same object twice
            ops.append(["Concat", ids])
            cl = []
            for pos_, i in enumerate(ids):
                b = (init[i]["label"] if i < ninit else None) or "locus%03d" % pos_
                cl += [b, b, b.upper(), b + "_002", b + "_003"]
            if cl:
                concats.append((est, cl))
            est += 1
        elif r < 0.26:
            ops.append(["ConcatRead", [M() for _ in range(rng.choice([1, 2, 2, 3]))], rng.choice(["streams", "paths"])]); est += 1
        elif r < 0.35:
            ops.append(["ExportIdx", M(), IDX()]); est += 1
        elif r < 0.41:
            if concats and rng.random() < 0.7:
                j, cl = rng.choice(concats)
                ops.append(["ExportSub", j, rng.choice(cl)])
            else:
                ops.append(["ExportSub", M(), rng.choice(["a", "A", "A_002", "a_002", "b", "B", "locus000", "x y"])])
            est += 1
        elif r < 0.47:
            ops.append(["Fill", M(), rng.choice([-1] + list(range(k))), rng.choice([None, None, 0, 2, 5, 9]), rng.random() < 0.6])
        elif r < 0.50:
            ops.append(["FillTaxa", M()])
        elif r < 0.55:
            ops.append(["Pack", M(), rng.choice([-1, -1] + list(range(k))), rng.choice([None, None, 3, 7]), rng.random() < 0.6])
        elif r < 0.60:
            ops.append(["AddSeqs", M(), M()])
        elif r < 0.65:
            ops.append(["ReplaceSeqs", M(), M()])
        elif r < 0.70:
            ops.append(["UpdateSeqs", M(), M()])
        elif r < 0.76:
            m = M()
            o = M2(m)
            ops.append(["ExtendSeqs", m, o, rng.random() < 0.5] if (o != m or rng.random() < 0.3) else ["ReplaceSeqs", m, o])
        elif r < 0.81:
            m = M()
            o = M2(m)
            ops.append(["ExtendMatrix", m, o] if (o != m or rng.random() < 0.3) else ["UpdateSeqs", m, o])
        elif r < 0.85:
            ops.append(["RemoveSeqs", M(), TS()])
        elif r < 0.88:
            ops.append(["DiscardSeqs", M(), TS()])
        elif r < 0.91:
            ops.append(["KeepSeqs", M(), TS()])
        elif r < 0.93:
            m, t = M(), rng.choice(alltax + [7])
            if rng.random() < 0.6 and t != 7:
                ops.append(["DiscardSeqs", m, [t]])
            ops.append(["NewSeq", m, t, CELLS()])
        elif r < 0.955:
            ops.append(["SetItem", M(), KEY(), CELLS()])
        elif r < 0.98:
            ops.append(["GetItem", M(), KEY()])
        else:
            ops.append(["NewSubset", M(), rng.choice(LABELS[:8]), sorted(set(IDX()))])
    return {"dtype": dtype, "nss": nss, "init": init, "ops": ops}


# ----------------------------------------------------------------------------
# running the real library
# ----------------------------------------------------------------------------

class Skip(Exception):
    pass


class Env:
    def __init__(self, case):
        import dendropy
        self.dtype = case["dtype"]
        self.cls = _cls(self.dtype)
        self.syms = symbols(self.dtype)
        self.ns = {}
        self.taxon = {}
        self.tid = {}
        self.nsid = {}
        for n, T in case["nss"]:
            ns = dendropy.TaxonNamespace()
            for t in T:
                tx = ns.new_taxon("t%d" % t)
                self.taxon[t] = tx
                self.tid[id(tx)] = t
            self.ns[n] = ns
            self.nsid[id(ns)] = n
        # a taxon that belongs to no namespace at all
        self.taxon[7] = self.taxon.get(7) or dendropy.Taxon("t7")
        self.tid[id(self.taxon[7])] = 7
        self.rowids = {}     # id(row object) -> small integer, by first observation in this history
        self.keep = []       # observed row objects stay alive, so that no id() is reused within a history
        self.ms = []
        for im in case["init"]:
            m = self.cls(taxon_namespace=self.ns[im["ns"]], label=im["label"])
            for t, cells in im["rows"]:
                m.new_sequence(self.taxon[t], self.cells(m, cells))
            for lab, idx in im["subs"]:
                m.new_character_subset(label=lab, character_indices=idx)
            self.ms.append(m)

    def rid(self, seq):
        k = id(seq)
        if k not in self.rowids:
            self.rowids[k] = len(self.rowids)
            self.keep.append(seq)
        return self.rowids[k]

    def cells(self, m, cs):
        if self.dtype in VALUED:
            return [None if c < 0 else c for c in cs]
        states = list(m.default_state_alphabet)
        return [None if c < 0 else states[c] for c in cs]

    def cell(self, m, c):
        return self.cells(m, [c])[0]

    def cell_obs(self, c):
        if c is None:
            return -1
        if self.dtype in VALUED:
            return int(c)
        return self.syms.index(str(c))

    def view(self, m):
        rows = []
        ids = []
        aligned = True
        for t, seq in m._taxon_sequence_map.items():
            rows.append([self.tid[id(t)], [self.cell_obs(c) for c in seq._character_values]])
            ids.append([self.tid[id(t)], self.rid(seq)])
            aligned = aligned and len(seq._character_values) == len(seq._character_types) == len(seq._character_annotations)
        subs = [[key, sorted(cs.character_indices)] for key, cs in m.character_subsets.items()]
        sublab = all(cs.label == key for key, cs in m.character_subsets.items())
        pub = [[self.tid[id(t)], s.symbols_as_list()] for t, s in m.items()]
        it = [self.tid[id(t)] for t in m]
        return {"ns": self.nsid.get(id(m.taxon_namespace), -1), "label": m.label, "rows": rows, "subs": subs, "ids": ids,
                "pub": pub, "iter": it, "aligned": aligned, "sublab": sublab, "cls": type(m).__name__,
                "nslen": len(m.taxon_namespace)}

    def state(self):
        return [self.view(m) for m in self.ms]

    def get(self, i):
        if i >= len(self.ms):
            raise Skip()
        return self.ms[i]

    def key(self, k):
        if k[0] == "KIdx":
            return k[1]
        if k[0] == "KLab":
            return "t%d" % k[1]
        if k[1] not in self.taxon:
            raise Skip()
        return self.taxon[k[1]]

    def text(self, m):
        """serialisation of a matrix in iteration order (fasta); Skip when it cannot be written"""
        if self.dtype in VALUED or len(m) == 0:
            raise Skip()
        out = []
        for t, s in m.items():
            if len(s) == 0 or any(c is None for c in s):
                raise Skip()
            out.append(">%s\n%s\n" % (t.label, s.symbols_as_string()))
        if len(out) != len(m):
            raise Skip()
        return "".join(out)


class cpu_alarm:
    """with cpu_alarm(s): raises TimeoutError after s seconds of CPU time of this process
    (ITIMER_VIRTUAL).  A spinning loop burns CPU, a descheduled process does not: unlike a
    wall-clock alarm this cannot fire on a loaded machine for a call that needs milliseconds."""
    def __init__(self, seconds):
        self.seconds = seconds

    def _h(self, *a):
        raise TimeoutError("cpu alarm")

    def __enter__(self):
        import signal
        self.old = signal.signal(signal.SIGVTALRM, self._h)
        signal.setitimer(signal.ITIMER_VIRTUAL, self.seconds)

    def __exit__(self, *a):
        import signal
        signal.setitimer(signal.ITIMER_VIRTUAL, 0)
        signal.signal(signal.SIGVTALRM, self.old)
        return False


def alarm_s(op):
    """CPU seconds after which a call counts as not returning (the calls need < 10 ms)"""
    if op[0] in ("ExtendSeqs", "ExtendMatrix") and op[1] == op[2]:
        return 0.3          # list growing while it is iterated: memory grows ~100 MB/s
    return 1.5 if _hangs[0] < 3 else 0.4


def apply_op(env, op):
    """run one real method; returns the `out` observation"""
    n = op[0]
    tx = lambda ts: [env.taxon[t] for t in ts]
    if n == "Concat":
        ms = [env.get(i) for i in op[1]]
        r = env.cls.concatenate(ms)
        env.ms.append(r)
        return ["ONew", len(env.ms) - 1]
    if n == "ConcatRead":
        ms = [env.get(i) for i in op[1]]
        if len(set(id(m.taxon_namespace) for m in ms)) != 1:
            raise Skip()
        texts = [env.text(m) for m in ms]
        ns = ms[0].taxon_namespace
        if op[2] == "streams":
            r = env.cls.concatenate_from_streams([io.StringIO(t) for t in texts], "fasta", taxon_namespace=ns)
        else:
            os.makedirs(SCRATCH, exist_ok=True)
            paths = []
            for k, t in enumerate(texts):
                p = os.path.join(SCRATCH, "cr_%d_%d.fasta" % (os.getpid(), k))
                with open(p, "w") as f:
                    f.write(t)
                paths.append(p)
            try:
                r = env.cls.concatenate_from_paths(paths, "fasta", taxon_namespace=ns)
            finally:
                for p in paths:
                    os.unlink(p)
        env.ms.append(r)
        return ["ONew", len(env.ms) - 1]
    m = env.get(op[1])
    if n == "ExportIdx":
        r = m.export_character_indices(list(op[2]))
        env.ms.append(r)
        return ["ONew", len(env.ms) - 1]
    if n == "ExportSub":
        r = m.export_character_subset(op[2])
        env.ms.append(r)
        return ["ONew", len(env.ms) - 1]
    if n == "Fill":
        return ["OInt", m.fill(env.cell(m, op[2]), size=op[3], append=op[4])]
    if n == "FillTaxa":
        m.fill_taxa(); return ["OUnit"]
    if n == "Pack":
        m.pack(value=env.cell(m, op[2]), size=op[3], append=op[4]); return ["OUnit"]
    if n in ("AddSeqs", "ReplaceSeqs", "UpdateSeqs", "ExtendMatrix", "ExtendSeqs"):
        o = env.get(op[2])
        if n == "AddSeqs":
            m.add_sequences(o)
        elif n == "ReplaceSeqs":
            m.replace_sequences(o)
        elif n == "UpdateSeqs":
            m.update_sequences(o)
        elif n == "ExtendMatrix":
            m.extend_matrix(o)
        else:
            m.extend_sequences(o, is_add_new_sequences=op[3])
        return ["OUnit"]
    if n == "RemoveSeqs":
        m.remove_sequences(tx(op[2])); return ["OUnit"]
    if n == "DiscardSeqs":
        m.discard_sequences(tx(op[2])); return ["OUnit"]
    if n == "KeepSeqs":
        m.keep_sequences(tx(op[2])); return ["OUnit"]
    if n == "NewSeq":
        s = m.new_sequence(env.taxon[op[2]], env.cells(m, op[3]))
        return ["ORow", [env.cell_obs(c) for c in s]]
    if n == "SetItem":
        m[env.key(op[2])] = env.cells(m, op[3]); return ["OUnit"]
    if n == "GetItem":
        s = m[env.key(op[2])]
        return ["ORow", [env.cell_obs(c) for c in s]]
    if n == "NewSubset":
        m.new_character_subset(label=op[2], character_indices=list(op[3])); return ["OUnit"]
    if n == "RowAppend":
        m[env.key(op[2])].append(env.cell(m, op[3])); return ["OUnit"]
    if n == "RowExtend":
        m[env.key(op[2])].extend(env.cells(m, op[3])); return ["OUnit"]
    if n == "RowSet":
        m[env.key(op[2])][op[3]] = env.cell(m, op[4]); return ["OUnit"]
    if n == "RowDel":
        del m[env.key(op[2])][op[3]]; return ["OUnit"]
    if n == "SetItemRow":
        o = env.get(op[3])
        m[env.key(op[2])] = o[env.taxon[op[4]]]; return ["OUnit"]
    if n == "Copy":
        import copy
        env.ms.append(copy.copy(m))
        return ["ONew", len(env.ms) - 1]
    raise RuntimeError("unknown op %s" % n)


def observe(case):
    """Returns {"init": state, "steps": [[out, state] ...]}; `out` = ["SKIP"] for ops that name a
    matrix that does not exist (yet); the history stops after a Hang (the object is unusable)."""
    env = Env(case)
    res = {"init": env.state(), "steps": []}
    for op in case["ops"]:
        n0 = len(env.ms)
        try:
            with core.alarm(30), cpu_alarm(alarm_s(op)):      # wall-clock backstop, CPU-time verdict
                out = apply_op(env, op)
        except Skip:
            out = ["SKIP"]
        except Exception as e:   # noqa: the class is the observation
            del env.ms[n0:]
            out = ["OErr", core.exc_enum(e)]
        if out == ["OErr", "Hang"]:
            _hangs[0] += 1
            res["steps"].append([out, None])
            break
        res["steps"].append([out, env.state()])
    return res


def normalise(case, obs):
    """executed ops with their observations: [(op, out, state_before, state_after)]"""
    res = []
    prev = obs["init"]
    for op, (out, st) in zip(case["ops"], obs["steps"]):
        if out == ["SKIP"]:
            continue
        res.append((op, out, prev, st))
        if st is None:
            break
        prev = st
    return res


# ----------------------------------------------------------------------------
# oracle: the documented effect of every operation, stated naively
# ----------------------------------------------------------------------------

def _rows(v):
    return {t: list(r) for t, r in v["rows"]}


def _low(s):
    return s.lower()


def expected_concat(args, T):
    """(ok, reason) + expected rows / subset index ranges for documented-valid input"""
    for a in args:
        r = _rows(a)
        if sorted(r) != sorted(T):
            return None, "a matrix lacks a sequence for a taxon of the namespace"
        if len(set(len(x) for x in r.values())) > 1:
            return None, "unequal sequence lengths inside one matrix"
    if not T:
        return None, "no taxa"
    rows = {t: [c for a in args for c in _rows(a)[t]] for t in T}
    ranges = []
    pos = 0
    for a in args:
        w = len(next(iter(_rows(a).values())))
        ranges.append(list(range(pos, pos + w)))
        pos += w
    return (rows, ranges), None


def oracle_step(case, op, out, before, after, env_syms):
    n = op[0]
    nss = dict((a, b) for a, b in case["nss"])
    if out == ["OErr", "Hang"]:
        if n in ("ExtendSeqs", "ExtendMatrix") and op[1] == op[2]:
            return ("%s of a matrix with itself does not terminate (a sequence is extended by a generator over itself); "
                    "matrix %d rows %s" % (n, op[1], before[op[1]]["rows"]), "extend-self-hang")
        return ("%s did not terminate: %s on matrices %s" % (n, op, [(i, before[i]["label"]) for i in (op[1] if isinstance(op[1], list) else [op[1]]) if i < len(before)]),
                "hang:" + n)
    recv = None if n in ("Concat", "ConcatRead", "ExportIdx", "ExportSub", "Copy") else op[1]
    core_keys = ("ns", "label", "rows", "subs", "cls")
    for j, b in enumerate(before):
        if j == recv:
            continue
        if n == "SetItemRow" and j == op[3]:
            # the right-hand side o[t] is the caller's own __getitem__, documented to create a missing row
            want = dict(b, rows=b["rows"] + ([[op[4], []]] if op[4] not in _rows(b) and op[4] in nss.get(b["ns"], []) else []))
            if any(after[j][k] != want[k] for k in core_keys):
                return ("m[k] = o[t] (%s) changed the source matrix %d: %s -> %s" % (op, j, b["rows"], after[j]["rows"]), "setitem-row-source")
            continue
        a = after[j]
        if any(a[k] != b[k] for k in core_keys):
            args = op[1] if isinstance(op[1], list) else [op[1]] + ([op[2]] if n in ("AddSeqs", "ReplaceSeqs", "UpdateSeqs", "ExtendSeqs", "ExtendMatrix") else [])
            kind = "argument" if j in args else "bystander"
            return ("%s %s modified %s matrix %d: %s -> %s" % (n, op, kind, j, {k: b[k] for k in core_keys}, {k: a[k] for k in core_keys}),
                    "%s-modified:%s" % (kind, n))
    for j, a in enumerate(after):
        T = nss.get(a["ns"], [])
        rd = _rows(a)
        if not a["aligned"]:
            return ("after %s matrix %d has a sequence whose value/type/annotation lists differ in length" % (op, j), "misaligned:" + n)
        if a["iter"] != [t for t in T if t in rd] or [t for t, _ in a["pub"]] != a["iter"]:
            return ("after %s iteration over matrix %d is not the namespace order of its sequences" % (op, j), "iter-order:" + n)
        if a["nslen"] != len(T):
            return ("%s changed the size of a taxon namespace" % (op,), "namespace-changed:" + n)
    err = out[1] if out[0] == "OErr" else None

    def unchanged(j):
        return all(after[j][k] == before[j][k] for k in core_keys)

    if n in ("Concat", "ConcatRead"):
        args = [before[i] for i in op[1]]
        if not args:
            return None if err else ("concatenate([]) returned a matrix", "concat-empty")
        if any(a["ns"] != args[0]["ns"] for a in args):
            if not err:      # refusal = an exception (ValueError unless an earlier matrix already fails another check)
                return ("concatenate did not refuse matrices over different namespaces (%s): %s" % (out, op), "concat-foreign-ns")
            return None
        T = nss[args[0]["ns"]]
        if n == "ConcatRead":
            args = [dict(a, label=None) for a in args]
        exp, why = expected_concat(args, T)
        if exp is None:
            if not err:
                return ("concatenate accepted input it documents as invalid (%s): %s" % (why, op), "concat-accepted-invalid")
            return None
        if err:
            return ("concatenate raised %s on valid input %s" % (err, op), "concat-refused-valid")
        new = after[out[1]]
        if _rows(new) != exp[0]:
            return ("concatenate %s: rows %s are not the concatenation in argument order %s" % (op, new["rows"], exp[0]), "concat-rows")
        if new["ns"] != args[0]["ns"] or new["cls"] != before[op[1][0]]["cls"]:
            return ("concatenate result has another namespace or class", "concat-ns")
        if [s[1] for s in new["subs"]] != exp[1]:
            return ("concatenate %s: recorded character subsets %s do not cover exactly each source's columns %s" % (op, new["subs"], exp[1]), "concat-subset-ranges")
        labs = [_low(s[0]) for s in new["subs"]]
        if len(set(labs)) != len(labs) or not new["sublab"]:
            return ("concatenate %s: subset labels not distinct: %s" % (op, new["subs"]), "concat-subset-labels")
        seen = set()
        for k, (a, s) in enumerate(zip(args, new["subs"])):
            base = a["label"] if a["label"] is not None else "locus%03d" % k
            if _low(base) not in seen and s[0] != base:
                return ("concatenate %s: subset %d is named %r although %r was free" % (op, k, s[0], base), "concat-subset-name")
            if not s[0].startswith(base):
                return ("concatenate %s: subset %d named %r is not derived from %r" % (op, k, s[0], base), "concat-subset-name")
            seen.add(_low(s[0]))
        return None
    b = before[op[1]]
    T = nss.get(b["ns"], [])
    if n in ("ExportIdx", "ExportSub"):
        if n == "ExportSub":
            hit = [s for s in b["subs"] if _low(s[0]) == _low(op[2])]
            if not hit:
                return None if err == "KeyErr" else ("export_character_subset of an undefined subset gave %s" % out, "export-missing-subset")
            idx = hit[0][1]
        else:
            idx = op[2]
        if err:
            return ("export raised %s: %s" % (err, op), "export-error")
        new = after[out[1]]
        want = [[t, [r[i] for i in sorted(set(idx)) if 0 <= i < len(r)]] for t, r in b["rows"]]
        if new["rows"] != want:
            return ("export %s of rows %s gave %s, selected columns ascending are %s" % (op, b["rows"], new["rows"], want), "export-columns")
        if new["label"] != b["label"] or new["ns"] != b["ns"] or new["cls"] != b["cls"] or new["subs"]:
            return ("export %s changed label/namespace/class or kept subsets" % (op,), "export-meta")
        return None
    if n == "Copy":
        if err:
            return ("copy.copy raised %s" % err, "copy-error")
        new = after[out[1]]
        if new["rows"] != b["rows"] or new["ns"] != b["ns"] or new["label"] != b["label"] or new["cls"] != b["cls"]:
            return ("copy.copy %s: %s is not a copy of %s" % (op, new["rows"], b["rows"]), "copy-rows")
        return None
    a = after[op[1]]
    rb, ra = _rows(b), _rows(a)
    if n == "SetItemRow" and op[3] == op[1] and op[4] not in rb and op[4] in T:
        rb[op[4]] = []          # m[k] = m[t]: the right-hand side created the row first
    if a["ns"] != b["ns"] or a["label"] != b["label"] or a["cls"] != b["cls"]:
        return ("%s changed namespace/label/class of its matrix" % (op,), "meta-changed:" + n)
    if n != "NewSubset" and a["subs"] != b["subs"]:
        return ("%s changed the character subsets" % (op,), "subsets-changed:" + n)
    if n in ("Fill", "Pack"):
        if err:
            return ("%s raised %s" % (op, err), "fill-error")
        v, size, app = op[2], op[3], op[4]
        base = dict(rb)
        if n == "Pack":
            for t in T:
                base.setdefault(t, [])
        S = size if size is not None else max([len(r) for r in base.values()] + [0])
        want = {}
        for t, r in base.items():
            k = max(0, S - len(r))
            want[t] = r + [v] * k if app else [v] * k + r
        if ra != want:
            return ("%s: rows %s -> %s, expected %s (existing cells untouched, padding %s)" % (op, b["rows"], a["rows"], want, "appended" if app else "prepended"), "fill-rows")
        if size is None and len(set(len(r) for r in ra.values())) > 1:
            return ("%s left sequences of different lengths" % (op,), "fill-unequal")
        if n == "Fill" and out != ["OInt", S]:
            return ("fill returned %s, size is %s" % (out, S), "fill-return")
        return None
    if n == "FillTaxa":
        want = dict(rb)
        for t in T:
            want.setdefault(t, [])
        return None if (ra == want and not err) else ("fill_taxa: %s -> %s (%s)" % (b["rows"], a["rows"], out), "fill-taxa")
    if n in ("AddSeqs", "ReplaceSeqs", "UpdateSeqs", "ExtendSeqs", "ExtendMatrix"):
        o = before[op[2]]
        ro = _rows(o)
        if o["ns"] != b["ns"]:
            if err != "ValueErr" or not unchanged(op[1]):
                return ("%s did not refuse a matrix over a different namespace (%s)" % (op, out), "foreign-ns:" + n)
            return None
        if err:
            return ("%s raised %s" % (op, err), "rowop-error:" + n)
        if n == "AddSeqs":
            want = dict(rb); [want.setdefault(t, r) for t, r in ro.items()]
        elif n == "ReplaceSeqs":
            want = {t: ro.get(t, r) for t, r in rb.items()}
        elif n == "UpdateSeqs":
            want = dict(rb); want.update(ro)
        else:
            addnew = True if n == "ExtendMatrix" else op[3]
            want = {t: r + ro.get(t, []) for t, r in rb.items()}
            if addnew:
                for t, r in ro.items():
                    if t not in rb:
                        want[t] = r
        if ra != want:
            return ("%s: self %s, other %s -> %s, documented result %s" % (op, b["rows"], o["rows"], a["rows"], want), "rowop-rows:" + n)
        return None
    if n in ("RemoveSeqs", "DiscardSeqs", "KeepSeqs"):
        ts = op[2]
        if n == "KeepSeqs":
            want = {t: r for t, r in rb.items() if t in ts}
        else:
            want = {t: r for t, r in rb.items() if t not in ts}
        if n == "RemoveSeqs" and (any(t not in rb for t in ts) or len(set(ts)) != len(ts)):
            if err != "KeyErr":
                return ("remove_sequences of a taxon without sequence gave %s, documented KeyError" % (out,), "remove-missing")
            if any(ra.get(t) != r for t, r in want.items()) or any(t not in rb for t in ra):
                return ("remove_sequences %s touched sequences it does not name: %s -> %s" % (op, b["rows"], a["rows"]), "remove-others")
            return None
        if err or ra != want:
            return ("%s: %s -> %s (%s), documented result %s" % (op, b["rows"], a["rows"], out, want), "rowdel:" + n)
        return None
    if n == "NewSeq":
        t = op[2]
        if t in rb or t not in T:
            return None if (err == "ValueErr" and ra == rb) else ("new_sequence %s on %s gave %s" % (op, b["rows"], out), "new-sequence-refusal")
        want = dict(rb); want[t] = op[3]
        return None if (ra == want and out == ["ORow", op[3]]) else ("new_sequence %s: %s -> %s" % (op, b["rows"], a["rows"]), "new-sequence")
    if n in ("RowAppend", "RowExtend", "RowSet", "RowDel", "SetItemRow"):
        # only the named row of the named matrix changes (m[key] creates the row when there is none)
        k = op[2]
        if k[0] == "KIdx":
            t, experr = (T[k[1]] if abs(k[1]) < len(T) else None), "IndexErr"
        elif k[0] == "KLab":
            t, experr = (k[1] if k[1] in T else None), "KeyErr"
        else:
            t, experr = (k[1] if k[1] in T else None), "ValueErr"
        if n == "SetItemRow":
            src = dict(_rows(before[op[3]]))
            if op[3] == op[1]:
                src = dict(rb)
            To = nss.get(before[op[3]]["ns"], [])
            if op[4] not in src:
                if op[4] not in To:
                    return None if (err == "ValueErr" and ra == rb) else ("%s: o[t] for a taxon outside o's namespace gave %s" % (op, out), "setitem-row-bad-source")
                src[op[4]] = []
            if t is None:
                return None if (err == experr and ra == rb) else ("%s with a key outside the namespace gave %s" % (op, out), "item-bad-key")
            want = dict(rb); want[t] = src[op[4]]
            return None if (ra == want and not err) else ("%s: %s -> %s (%s), expected %s" % (op, b["rows"], a["rows"], out, want), "setitem-row")
        if t is None:
            return None if (err == experr and ra == rb) else ("%s with a key outside the namespace gave %s" % (op, out), "item-bad-key")
        want = dict(rb)
        r = list(want.get(t, []))
        experr = None
        if n == "RowAppend":
            r = r + [op[3]]
        elif n == "RowExtend":
            r = r + list(op[3])
        else:
            i = op[3]
            if -len(r) <= i < len(r):
                if n == "RowSet":
                    r[i] = op[4]
                else:
                    del r[i]
            else:
                experr = "IndexErr"
        want[t] = r
        if ra != want or err != experr:
            return ("%s: rows %s -> %s (%s); only row %s was named, expected %s (%s)" % (op, b["rows"], a["rows"], out, t, want, experr), "row-inplace:" + n)
        return None
    if n in ("SetItem", "GetItem"):
        k = op[2]
        if k[0] == "KIdx":
            t = T[k[1]] if abs(k[1]) < len(T) else None
            experr = "IndexErr"
        elif k[0] == "KLab":
            t = k[1] if k[1] in T else None
            experr = "KeyErr"
        else:
            t = k[1] if k[1] in T else None
            experr = "ValueErr"
        if t is None:
            return None if (err == experr and ra == rb) else ("%s with a key outside the namespace gave %s" % (op, out), "item-bad-key")
        if n == "SetItem":
            want = dict(rb); want[t] = op[3]
            return None if (ra == want and not err) else ("%s: %s -> %s" % (op, b["rows"], a["rows"]), "setitem")
        want = dict(rb); want.setdefault(t, [])
        return None if (ra == want and out == ["ORow", want[t]]) else ("%s: %s -> %s, %s" % (op, b["rows"], a["rows"], out), "getitem")
    if n == "NewSubset":
        if ra != rb:
            return ("new_character_subset changed rows", "subset-rows")
        if any(_low(s[0]) == _low(op[2]) for s in b["subs"]):
            return None if (err == "ValueErr" and a["subs"] == b["subs"]) else ("duplicate subset label accepted: %s" % (op,), "subset-duplicate")
        return None if a["subs"] == b["subs"] + [[op[2], sorted(set(op[3]))]] else ("new_character_subset %s: %s -> %s" % (op, b["subs"], a["subs"]), "subset-new")
    return None


def _slots(state):
    """row object id -> [(matrix, taxon)] of a state"""
    res = {}
    for j, v in enumerate(state):
        for t, r in v["ids"]:
            res.setdefault(r, []).append((j, t))
    return res


def shared_blame(op, before, after):
    """the row object whose sharing explains a violation at this step: an object held by >= 2 slots before the
    step whose content changed during the step (an in-place operation reached it through one slot and every
    other slot shows the change), or - for an export - an object under two taxa of the exported matrix (the deep
    copy keeps that sharing and the column deletion visits the row twice)"""
    sl = _slots(before)
    if op[0] in ("ExportIdx", "ExportSub"):
        for r, ss in sorted(sl.items()):
            if len([1 for j, _t in ss if j == op[1]]) >= 2:
                return r
        return None
    cont_b = {(j, t): c for j, v in enumerate(before) for t, c in v["rows"]}
    cont_a = {(j, t): c for j, v in enumerate(after) for t, c in v["rows"]}
    ids_a = {(j, t): r for j, v in enumerate(after) for t, r in v["ids"]}
    for r, ss in sorted(sl.items()):
        if len(ss) >= 2 and len([1 for x in ss if ids_a.get(x) == r and cont_a.get(x) != cont_b[x]]) >= 2:
            return r
    return None


def oracle(case, obs):
    creator = {}        # shared row object -> the operation after which it was first held by two slots
    for v in [obs["init"]]:
        for r, ss in _slots(v).items():
            if len(ss) >= 2:
                creator[r] = ("init", None)
    for op, out, before, after in normalise(case, obs):
        v = oracle_step(case, op, out, before, after, None)
        if v:
            r = shared_blame(op, before, after) if after is not None else None
            if r is not None and r in creator:
                return ("row object %d is held by the slots (matrix, taxon) %s since %s; then: %s"
                        % (r, _slots(before)[r], creator[r], v[0]), "row-object-shared:" + creator[r][0])
            return v
        if after is not None:
            for r, ss in _slots(after).items():
                if len(ss) >= 2 and r not in creator:
                    creator[r] = (op[0], op)
    return None


# ----------------------------------------------------------------------------
# Coq term of a case
# ----------------------------------------------------------------------------

def zs(l):
    return clist([cz(x) for x in l])


def label_pool(case, obs):
    """all label strings of the case, closed under lower / the two format strings as far as the
    concatenations of this case can reach"""
    labs = set()
    maxc = 0
    for st in [obs["init"]] + [s for _o, s in obs["steps"] if s]:
        for v in st:
            if v["label"] is not None:
                labs.add(v["label"])
            for s in v["subs"]:
                labs.add(s[0])
    for op in case["ops"]:
        if op[0] in ("ExportSub", "NewSubset"):
            labs.add(op[2])
        if op[0] in ("Concat", "ConcatRead"):
            maxc = max(maxc, len(op[1]))
    locus = ["locus%03d" % i for i in range(maxc)]
    bases = set(locus)
    for st in [obs["init"]] + [s for _o, s in obs["steps"] if s]:
        for v in st:
            if v["label"] is not None:
                bases.add(v["label"])
    suffix = {}
    for b in sorted(bases):
        suffix[b] = ["%s_%03d" % (b, i) for i in range(2, maxc + 3)]
    labs |= bases
    for b in suffix:
        labs |= set(suffix[b])
    labs |= set(l.lower() for l in list(labs))
    pool = sorted(labs)
    ix = {s: i for i, s in enumerate(pool)}
    return pool, ix, locus, suffix


def c_matrix(v, ix):
    return "(mkM %s %s %s %s)" % (
        cz(v["ns"]), copt(v["label"], lambda s: cz(ix[s])),
        clist([cpair(cz(t), zs(r)) for t, r in v["rows"]]),
        clist([cpair(cz(ix[s[0]]), zs(s[1])) for s in v["subs"]]))


def c_key(k):
    return "(%s %s)" % (k[0], cz(k[1]))


def c_op(op, ix):
    n = op[0]
    if n in ("Concat", "ConcatRead"):
        return "(%s %s)" % (n, zs(op[1]))
    if n == "ExportIdx":
        return "(ExportIdx %s %s)" % (cz(op[1]), zs(op[2]))
    if n == "ExportSub":
        return "(ExportSub %s %s)" % (cz(op[1]), cz(ix[op[2]]))
    if n in ("Fill", "Pack"):
        return "(%s %s %s %s %s)" % (n, cz(op[1]), cz(op[2]), copt(op[3], cz), cbool(op[4]))
    if n == "FillTaxa":
        return "(FillTaxa %s)" % cz(op[1])
    if n in ("AddSeqs", "ReplaceSeqs", "UpdateSeqs", "ExtendMatrix"):
        return "(%s %s %s)" % (n, cz(op[1]), cz(op[2]))
    if n == "ExtendSeqs":
        return "(ExtendSeqs %s %s %s)" % (cz(op[1]), cz(op[2]), cbool(op[3]))
    if n in ("RemoveSeqs", "DiscardSeqs", "KeepSeqs"):
        return "(%s %s %s)" % (n, cz(op[1]), zs(op[2]))
    if n == "NewSeq":
        return "(NewSeq %s %s %s)" % (cz(op[1]), cz(op[2]), zs(op[3]))
    if n == "SetItem":
        return "(SetItem %s %s %s)" % (cz(op[1]), c_key(op[2]), zs(op[3]))
    if n == "GetItem":
        return "(GetItem %s %s)" % (cz(op[1]), c_key(op[2]))
    if n == "NewSubset":
        return "(NewSubset %s %s %s)" % (cz(op[1]), cz(ix[op[2]]), zs(op[3]))
    raise ValueError(op)


BASE_OPS = ("Concat", "ConcatRead", "ExportIdx", "ExportSub", "Fill", "FillTaxa", "Pack", "AddSeqs", "ReplaceSeqs",
            "UpdateSeqs", "ExtendSeqs", "ExtendMatrix", "RemoveSeqs", "DiscardSeqs", "KeepSeqs", "NewSeq", "SetItem",
            "GetItem", "NewSubset")


def c_oop(op, ix):
    n = op[0]
    if n in BASE_OPS:
        return "(OBase %s)" % c_op(op, ix)
    if n == "RowAppend":
        return "(ORowAppend %s %s %s)" % (cz(op[1]), c_key(op[2]), cz(op[3]))
    if n == "RowExtend":
        return "(ORowExtend %s %s %s)" % (cz(op[1]), c_key(op[2]), zs(op[3]))
    if n == "RowSet":
        return "(ORowSet %s %s %s %s)" % (cz(op[1]), c_key(op[2]), cz(op[3]), cz(op[4]))
    if n == "RowDel":
        return "(ORowDel %s %s %s)" % (cz(op[1]), c_key(op[2]), cz(op[3]))
    if n == "SetItemRow":
        return "(OSetItemRow %s %s %s %s)" % (cz(op[1]), c_key(op[2]), cz(op[3]), cz(op[4]))
    if n == "Copy":
        return "(OCopy %s)" % cz(op[1])
    raise ValueError(op)


def c_ids(v):
    return clist([cpair(cz(t), cz(r)) for t, r in v["ids"]])


def c_out(o):
    if o[0] == "OUnit":
        return "OUnit"
    if o[0] == "ORow":
        return "(ORow %s)" % zs(o[1])
    if o[0] == "OErr":
        return "(OErr %s)" % o[1]
    return "(%s %s)" % (o[0], cz(o[1]))


CORE = ("ns", "label", "rows", "subs")


def to_coq(case, obs):
    pool, ix, locus, suffix = label_pool(case, obs)
    lower = clist([cpair(cz(i), cz(ix[s.lower()])) for i, s in enumerate(pool) if s.lower() != s])
    suf = clist([cpair(cz(ix[b]), clist([cpair(cz(i + 2), cz(ix[s])) for i, s in enumerate(l)])) for b, l in sorted(suffix.items())])
    loc = clist([cpair(cz(i), cz(ix[s])) for i, s in enumerate(locus)])
    nss = clist([cpair(cz(n), zs(T)) for n, T in case["nss"]])
    init = clist([cpair(cz(i), c_matrix(v, ix)) for i, v in enumerate(obs["init"])])
    steps = normalise(case, obs)
    allbase = all(op[0] in BASE_OPS for op, _o, _b, _a in steps)
    ops, exp, oops, oexp = [], [], [], []
    for op, out, before, after in steps:
        oops.append(c_oop(op, ix))
        if allbase:
            ops.append(c_op(op, ix))
        if after is None:
            exp.append(cpair(c_out(out), "[]"))
            oexp.append("(%s, [], [])" % c_out(out))
            continue
        changed, idchanged = [], []
        for j, a in enumerate(after):
            if j >= len(before) or any(a[k] != before[j][k] for k in CORE):
                changed.append(cpair(cz(j), c_matrix(a, ix)))
            if j >= len(before) or a["ids"] != before[j]["ids"]:
                idchanged.append(cpair(cz(j), c_ids(a)))
        exp.append(cpair(c_out(out), clist(changed)))
        oexp.append("(%s, %s, %s)" % (c_out(out), clist(changed), clist(idchanged)))
    if not allbase:
        exp = []
    base = "(mkCase %s %s %s %s %s %s %s)" % (lower, suf, loc, nss, init, clist(ops), clist(exp))
    init_ids = clist([cpair(cz(i), c_ids(v)) for i, v in enumerate(obs["init"])])
    return "(mkOCase %s %s %s %s %s)" % (base, cbool(case["dtype"] == "generic"), init_ids, clist(oops), clist(oexp))


def nontrivial(case, obs):
    steps = normalise(case, obs)
    if len(steps) < 2:
        return False
    return any(out[0] != "OErr" and after is not None and any(len(v["rows"]) >= 2 and any(len(r) >= 2 for _t, r in v["rows"]) for v in after)
               for _op, out, _b, after in steps)


def count_case(ctx, case, obs):
    ctx.count("dtype:" + case["dtype"])
    ctx.count("ntax:%d" % len(case["nss"][0][1]))
    for op, out, before, after in normalise(case, obs):
        ctx.count("op:" + op[0])
        ctx.count("out:" + (out[1] if out[0] == "OErr" else out[0]))
        if op[0] == "Concat" and out[0] == "ONew":
            ctx.count("concat-ok:n=%d" % len(op[1]))
            labs = [before[i]["label"] for i in op[1]]
            if len(set(l.lower() if l else None for l in labs)) < len(labs):
                ctx.count("concat-ok:repeated-label")
            if len(set(op[1])) < len(op[1]):
                ctx.count("concat-ok:repeated-object")
        if op[0] in ("AddSeqs", "ReplaceSeqs", "UpdateSeqs", "ExtendSeqs", "ExtendMatrix") and op[1] == op[2]:
            ctx.count("alias:" + op[0])


def exhaustive_cases():
    """all op pairs over a small alphabet on a fixed world with equal labels and partial overlap"""
    import itertools
    init = [
        {"ns": 0, "label": "a", "rows": [[1, [0, 1]], [0, [1, 1]]], "subs": []},
        {"ns": 0, "label": "A", "rows": [[0, [2, 0]], [1, [0, 0]]], "subs": [["a", [0]]]},
        {"ns": 0, "label": None, "rows": [[1, [1]]], "subs": []},
        {"ns": 1, "label": "a", "rows": [[100, [1, 0]]], "subs": []},
    ]
    alpha = [["Concat", [0, 1]], ["Concat", [0, 0, 1]], ["Concat", [1, 2]], ["Concat", [0, 3]], ["Concat", [4, 0]],
             ["Concat", [4, 4]], ["ExportIdx", 0, [1]], ["ExportIdx", 4, [0, 3, 2]], ["ExportSub", 1, "A"],
             ["ExportSub", 4, "a_002"], ["Fill", 2, 0, None, True], ["Fill", 0, 1, 4, False], ["FillTaxa", 2],
             ["Pack", 2, -1, None, True], ["Pack", 2, 1, 3, False], ["AddSeqs", 2, 0], ["AddSeqs", 0, 3],
             ["ReplaceSeqs", 0, 2], ["UpdateSeqs", 2, 1], ["ExtendSeqs", 0, 2, False], ["ExtendSeqs", 2, 0, True],
             ["ExtendMatrix", 2, 0], ["ExtendMatrix", 0, 1], ["ExtendMatrix", 0, 4], ["RemoveSeqs", 0, [1]],
             ["RemoveSeqs", 2, [1, 0]], ["DiscardSeqs", 0, [0, 0, 100]], ["KeepSeqs", 1, [1, 7]],
             ["NewSeq", 2, 0, [1, 1]], ["NewSeq", 2, 1, []], ["SetItem", 2, ["KIdx", -2], [0]], ["GetItem", 2, ["KLab", 0]],
             ["GetItem", 0, ["KIdx", 2]], ["NewSubset", 0, "x y", [0, 1]], ["NewSubset", 1, "A", [1]],
             ["ExtendSeqs", 2, 2, False], ["ReplaceSeqs", 1, 1]]
    for n in (1, 2):
        for seq in itertools.product(alpha, repeat=n):
            for dtype in ("dna", "standard"):
                yield {"dtype": dtype, "nss": [[0, [0, 1]], [1, [100]]], "init": init, "ops": [list(o) for o in seq]}


def probe_cases():
    """always run: a matrix extended by itself (did not return before repair 99e94739; the model and the
    oracle say every sequence is doubled), and concatenation of equal labels / the same object (F12)"""
    m = {"ns": 0, "label": "a", "rows": [[1, [0, 1]], [0, [1]]], "subs": []}
    res = []
    for dtype in ("dna", "standard", "continuous", "generic"):
        for op in (["ExtendMatrix", 0, 0], ["ExtendSeqs", 0, 0, False], ["ExtendSeqs", 0, 0, True]):
            res.append({"dtype": dtype, "nss": [[0, [0, 1]]], "init": [m], "ops": [op, ["Fill", 0, 0, None, True]]})
    # rows created by fill_taxa / pack must be separate objects: fill several missing taxa, then grow them
    # row-wise from another matrix (the plain CharacterMatrix adopts a given row object as it is)
    part = {"ns": 0, "label": "a", "rows": [[0, [1, 2, 3]], [1, [4, 5, 6]]], "subs": []}
    rest = {"ns": 0, "label": "b", "rows": [[2, [7]], [3, [8, 1]]], "subs": []}
    for dtype in DTYPES[:-1]:
        k = ncell(dtype)
        part = dict(part, rows=[[t, [c % k for c in cs]] for t, cs in part["rows"]])
        rest = dict(rest, rows=[[t, [c % k for c in cs]] for t, cs in rest["rows"]])
        for first in (["FillTaxa", 0], ["Pack", 0, 0, None, True], ["Pack", 0, -1, 5, False]):
            for second in (["ExtendSeqs", 0, 1, False], ["ExtendSeqs", 0, 1, True], ["ExtendMatrix", 0, 1],
                           ["UpdateSeqs", 0, 1]):
                res.append({"dtype": dtype, "nss": [[0, [0, 1, 2, 3]]], "init": [part, rest],
                            "ops": [first, second, ["ExportIdx", 0, [0, 3]], ["Fill", 0, 0, None, True]]})
    # in-place row operations after fill_taxa / pack
    for dtype in ("generic", "dna", "continuous", "standard"):
        k = ncell(dtype)
        p0 = dict(part, rows=[[t, [c % k for c in cs]] for t, cs in part["rows"]])
        p1 = dict(rest, rows=[[t, [c % k for c in cs]] for t, cs in rest["rows"]])
        W = {"dtype": dtype, "nss": [[0, [0, 1, 2, 3]]], "init": [p0, p1]}
        for first in (["FillTaxa", 0], ["Pack", 0, 0, None, True]):
            res.append(dict(W, ops=[first, ["RowAppend", 0, ["KTax", 2], 1], ["RowExtend", 0, ["KIdx", 3], [1, 0]],
                                    ["RowSet", 0, ["KTax", 2], -1, 0], ["RowDel", 0, ["KTax", 3], 0], ["RowDel", 0, ["KTax", 3], 7],
                                    ["ExportIdx", 0, [0, 1]]]))
        res.append(dict(W, ops=[["RowAppend", 1, ["KTax", 0], 1], ["RowSet", 1, ["KTax", 1], 0, 1], ["GetItem", 1, ["KTax", 1]]]))
    full = {"ns": 0, "label": "a", "rows": [[1, [0, 1]], [0, [1, 1]]], "subs": []}
    res.append({"dtype": "dna", "nss": [[0, [0, 1]]], "init": [full, dict(full, label="A")],
                "ops": [["Concat", [0, 1, 0, 0]], ["ExportSub", 2, "a_003"]]})
    return res


def search(ctx, budget_s):
    t0 = time.time()
    rng = random.Random(ctx.seed + 1919)
    n = 0
    fixed = probe_cases() + (list(exhaustive_cases()) if budget_s > 100 else [])
    while time.time() - t0 < budget_s and n < 20000:
        case = fixed[n] if n < len(fixed) else gen_case(rng, 8)
        obs = observe(case)
        v = oracle(case, obs)
        n += 1
        if v:
            ctx.violation(v[0], {"case": case, "observed": summary(case, obs)}, key=v[1])
            if ctx.violations:
                return
    ctx.notes.append("search: %d further histories through the oracle, no unlisted violation" % n)


def summary(case, obs):
    """compact form of an observation for replay files / evidence samples"""
    res = []
    for op, out, before, after in normalise(case, obs):
        res.append({"op": op, "out": out,
                    "after": None if after is None else [[j, a["label"], a["rows"], a["subs"]] for j, a in enumerate(after)
                                                         if j >= len(before) or any(a[k] != before[j][k] for k in CORE)]})
    return res


def run(tier, seed, replay=None):
    ctx = core.Ctx("C19", tier, seed)
    ctx.assumptions = [
        "model coq/Model/C19Model.v is a hand transcription of the row/column operations of charmatrixmodel.py; tied by this correspondence run "
        "and, for concatenate / export_* / fill / fill_taxa / pack / the seven row operations / CharacterDataSequence.extend, by the translator: "
        "coq/Gen/CharMatrix.v is recompiled from the current source on every run and proved equal to the model (coq/Props/C19Gen.v); "
        "trusted there: the statement compiler py/dv/gen_charmatrix.py and the Python semantics stated in coq/Model/C19Prims.v",
        "labels are ids into a finite pool; str.lower, '%s_%03d' and 'locus%03d' are uninterpreted functions in the theorems "
        "(only hypothesis, where stated: the suffix is injective in its counter up to case)",
        "row OBJECTS: coq/Model/C19RowHeap.v models the store of CharacterDataSequence objects and which object every operation stores / copies / "
        "mutates in place; it is proved to refine the value-level model under separation + well-formedness (Props/C19.v object_level_refines_value_level) and is "
        "tied to the current source by the object-level translator (py/dv/gen_charmatrix_obj.py -> coq/Gen/CharMatrixObj.v, Props/C19Obj.v; trusted there: the "
        "translator and the Python semantics stated in coq/Model/C19ObjPrims.v, incl. `cls(matrix)` = deep copy with memo); the harness observes id() of every row object after every step (canonicalised per history, observed objects are kept alive) "
        "and the model's row ids must agree with them up to ONE injective renaming threaded through the whole history; "
        "a caller can still put one row object under two slots himself (m[k] = o[t] with a row of the matrix's own sequence type, copy.copy(m)): "
        "these are not operations of the property and not in the op alphabet; the model has them (OSetItemRow / OCopy) to state that they are the only steps breaking the separation",
        "taxon namespaces are not edited during a history; the fasta reader behind concatenate_from_streams/paths is taken to deliver what was written (C09/C13)",
    ]
    if replay:
        import json
        r = json.load(open(replay))["replay"]
        case = r["case"]
        obs = observe(case)
        v = oracle(case, obs)
        print("history:", json.dumps(summary(case, obs))[:3000])
        print("oracle:", v)
        bad, errors = core.run_cases("C19", HEADER, "ocase_ok", [to_coq(case, obs)], tag="_replay")
        print("model agrees with implementation:", not bad and not errors)
        return 1 if (v or bad or errors) else 0
    ok = core.proof_stage(ctx, ["Props/C19.vo"], gen_needed=("__none__",))
    # translator tie: Gen/CharMatrix.v (regenerated from the current charmatrixmodel.py) = the model
    ok_gen = core.proof_stage(ctx, ["Props/C19Gen.vo"], props_file="Props/C19Gen.v", gen_needed=("CharMatrix",))
    # object level: Gen/CharMatrixObj.v (which row object every translated method stores / copies / mutates in place:
    # __setitem__, __getitem__, new_sequence, fill_taxa, fill, pack, add_ / replace_ / update_ / extend_sequences,
    # extend_matrix, remove_ / discard_ / keep_sequences, export_character_indices / _subset, concatenate; where
    # constructor calls are evaluated) = the object-level model Model/C19RowHeap.v
    ok_obj = core.proof_stage(ctx, ["Props/C19Obj.vo"], props_file="Props/C19Obj.v", gen_needed=("CharMatrix", "CharMatrixObj"))
    if not (ok and ok_gen and ok_obj):
        core.broken_proof(ctx, search)
    n = 900 if tier == "quick" else 8000
    cases = probe_cases() + [gen_case(ctx.rng, 8 if tier == "quick" else 12) for _ in range(n)]
    if tier == "thorough":
        cases.extend(exhaustive_cases())
    seen = {}

    def observe_counted(case):
        obs = observe(case)
        count_case(ctx, case, obs)
        return obs

    core.corr_stage(ctx, cases, observe_counted, to_coq, HEADER, "ocase_ok", oracle=oracle,
                    show_fn="ocase_run", nontrivial=nontrivial, search=search, shard=250,
                    sample_fn=lambda c, o: {"dtype": c["dtype"], "nss": c["nss"], "history": summary(c, o)[:4]})
    return ctx.finish(level="proof",
                      rule="random histories (<=8 quick / <=12 thorough ops; 23 op kinds incl. the in-place row operations m[k].append/extend/[i]=v/del [i]) "
                           "over 1-4 initial matrices of one of 8 data types or the plain CharacterMatrix, "
                           "0-6 taxa x 0-12 columns, two namespaces, labels with case variants and pre-taken '<label>_00N'/'locusNNN' names, "
                           "matrix lists with repeated labels/objects, partial taxon overlap, ragged rows; thorough adds every 1- and 2-op history "
                           "over a 37-op alphabet on a fixed 4-matrix world for 2 data types; non-trivial = >=2 executed ops and some successful "
                           "step leaving a matrix with >=2 rows of >=2 cells; distinct by full case content")
