"""Translator: the copy overrides of dendropy's data model -> coq/Gen/CopyGen.v   (property C12).

generate(repo) parses, with `ast`, the CURRENT text of
  src/dendropy/datamodel/basemodel.py            Annotable.__deepcopy__, Annotable.deep_copy_annotations_from,
                                                 AnnotationSet.__deepcopy__, DataObject.clone
  src/dendropy/datamodel/taxonmodel.py           Taxon.__deepcopy__, TaxonNamespace.__deepcopy__,
                                                 TaxonNamespace.populate_memo_for_taxon_namespace_scoped_copy,
                                                 TaxonNamespace.__copy__ / taxon_namespace_scoped_copy
  src/dendropy/datamodel/treemodel/_tree.py      Tree.__copy__, Tree.taxon_namespace_scoped_copy, Tree.__deepcopy__,
                                                 Tree._clone_from
  src/dendropy/datamodel/treecollectionmodel.py  TreeList.__init__ / __copy__ / _clone_from
  src/dendropy/datamodel/charmatrixmodel.py      CharacterMatrix.__init__ / __copy__ / _clone_from
and emits

  PART 1  a statement-by-statement compilation of the four `__deepcopy__` overrides and of
          deep_copy_annotations_from into Gallina over the object heap of coq/Model/C12Model.v and the run-time
          library coq/Model/C12GenPrims.v.  It is a compiler for a whitelisted subset: which attribute is read or
          written, on which object, argument order of copy.deepcopy / memo assignments, comparison operators and
          their operands, loop sources, the order of statements, exception classes - all are read off the AST;
          anything outside the subset raises Unsupported (py2coq then writes a stub and every dependent proof
          breaks).  coq/Proofs/C12GenSim.v proves each generated function equal (up to the ghost record of the
          hand model) to the corresponding branch of Model.C12Model.dc_step.
  PART 2  facts extracted from the AST of the shallow routes and of the route plumbing (attribute templates of
          TreeList / CharacterMatrix construction + __copy__, the memo seeds of the scoped copies and of
          _clone_from, DataObject.clone's dispatch), compared with the hand-written templates and routes of
          Model/C12Shallow.v and Model/C12Model.v in coq/Proofs/C12GenFacts.v.

What stays a hand-modelled primitive: copy.deepcopy itself (memo look-up, dispatch on the type, the reconstruction
of list / dict / set / tuple / plain objects: CPython's copy module; Model.C12Model.dc_step and
Model/C12GenDispatch.v), OrderedSet.add / AnnotationSet.__init__ / the `annotations` property (oset_add, new_annset,
annotations_add of the hand model), the constructors' keyword processing.

Conventions of the translation (they are part of what is trusted, with the primitives of C12GenPrims.v):
  C0  `memo` is the memo field of the threaded state; `if memo is None: memo = {}` is the identity on it (a call
      with memo=None starts from the empty memo: the routes of the model).
  C1  the SOURCE object of a copy method (`self` of __deepcopy__, `other` of deep_copy_annotations_from) is read
      through a snapshot of its attribute dictionary taken on entry (`d_<name>`): `for k in src.__dict__` runs over
      the snapshot, `src.__dict__[k]` in that loop is the paired value, `src.attr` / hasattr(src, ..) look the
      snapshot up.  The translator rejects any function that assigns to an attribute of its source object.
      (That copying never writes a source object is theorem deepcopy_extends_and_fresh of the model.)
  C2  an attribute or dictionary entry of the object under construction that the function assigned
      (`o._taxa = []`, `other.__dict__[k] = ...`) denotes the assigned value where the function reads it back.
  C3  `try: x = memo[id(y)] except KeyError: <handler>` is a look-up with the handler as the absent case;
      `try: <stmt> except KeyError: raise KeyError(..)` is <stmt>.
  C4  `L.append(e)` once per iteration of a `for` loop, L a list the function created with `[]`, is the i-th
      append (index i), i counting the iterations from 0.
  C5  truth of `x.is_attribute` is `x.is_attribute is True`; `_annotations` holds an OrderedSet, `_taxa` a list
      (ITER_KIND); iterating them reads the element list when the loop starts.
"""
import ast
import os


class Unsupported(Exception):
    pass


OUTPUT = "CopyGen.v"

NAMES = {"_annotations": "NM_ANN", "_item_list": "NM_ILIST", "_item_set": "NM_ISET", "target": "NM_TARGET",
         "is_attribute": "NM_ISATTR", "_value": "NM_VALUE", "_taxa": "NM_TAXA"}
ERRS = {"TypeError": "TypeErr", "KeyError": "KeyErr", "AttributeError": "AttrErr", "ValueError": "ValueErr",
        "IndexError": "IndexErr"}
ITER_KIND = {"_annotations": "oset", "_taxa": "list"}

# (file key, class, function, generated name, source parameter, other object parameters, returns a value)
PLAN = [
    ("bm", "Annotable", "deep_copy_annotations_from", "py_Annotable_deep_copy_annotations_from", "other", ["self", "other"], False),
    ("bm", "Annotable", "__deepcopy__", "py_Annotable_deepcopy", "self", ["self"], True),
    ("bm", "AnnotationSet", "__deepcopy__", "py_AnnotationSet_deepcopy", "self", ["self"], True),
    ("tm", "Taxon", "__deepcopy__", "py_Taxon_deepcopy", "self", ["self"], True),
    ("tm", "TaxonNamespace", "__deepcopy__", "py_TaxonNamespace_deepcopy", "self", ["self"], True),
    ("tm", "TaxonNamespace", "populate_memo_for_taxon_namespace_scoped_copy", "py_populate_memo", "self", ["self"], False),
]
DCAF = "py_Annotable_deep_copy_annotations_from"

FILES = {"bm": ("datamodel", "basemodel.py"), "tm": ("datamodel", "taxonmodel.py"),
         "tr": ("datamodel", "treemodel", "_tree.py"), "tl": ("datamodel", "treecollectionmodel.py"),
         "cm": ("datamodel", "charmatrixmodel.py"),
         # wave 7: the remaining files that define classes of copied structures (dispatch facts, part 3)
         "nd": ("datamodel", "treemodel", "_node.py"), "ed": ("datamodel", "treemodel", "_edge.py"),
         "bp": ("datamodel", "treemodel", "_bipartition.py"), "cs": ("datamodel", "charstatemodel.py"),
         "ct": ("utility", "container.py")}


def find_def(tree, name, cls):
    for n in tree.body:
        if isinstance(n, ast.ClassDef) and n.name == cls:
            for m in n.body:
                if isinstance(m, ast.FunctionDef) and m.name == name:
                    return m
            raise Unsupported("%s.%s not found" % (cls, name))
    raise Unsupported("class %s not found" % cls)


def nm(s):
    if s not in NAMES:
        raise Unsupported("attribute name %r has no fixed id in the model" % s)
    return NAMES[s]


def is_name(e, n=None):
    return isinstance(e, ast.Name) and (n is None or e.id == n)


def is_memo_sub(e):
    """memo[id(X)] -> X"""
    if (isinstance(e, ast.Subscript) and is_name(e.value, "memo") and isinstance(e.slice, ast.Call)
            and is_name(e.slice.func, "id") and len(e.slice.args) == 1 and not e.slice.keywords):
        return e.slice.args[0]
    return None


def is_dict_sub(e):
    """X.__dict__[K] -> (X, K)"""
    if (isinstance(e, ast.Subscript) and isinstance(e.value, ast.Attribute) and e.value.attr == "__dict__"
            and isinstance(e.value.value, ast.Name)):
        return e.value.value.id, e.slice
    return None


def is_memo_kw(call, first_n):
    """copy.deepcopy(x, memo) / (x, memo=memo): the memo argument is the variable memo"""
    a, k = call.args, call.keywords
    if len(a) == first_n + 1 and not k:
        return is_name(a[first_n], "memo")
    if len(a) == first_n and len(k) == 1:
        return k[0].arg == "memo" and is_name(k[0].value, "memo")
    return False


class Fn(object):
    """compiler of one function"""

    def __init__(self, fn, cls, gname, src, params, returns):
        self.fn, self.cls, self.gname, self.src, self.params, self.returns = fn, cls, gname, src, params, returns
        self.n = 0
        self.loops = []          # emitted Fixpoints
        self.nloop = 0
        argn = [a.arg for a in fn.args.args]
        if argn != params + ["memo"]:
            raise Unsupported("%s.%s: parameters %s" % (cls, fn.name, argn))
        if fn.args.vararg or fn.args.kwarg or fn.args.kwonlyargs:
            raise Unsupported("%s.%s: parameter kinds" % (cls, fn.name))
        # C1: no assignment to the source object
        for node in ast.walk(fn):
            tgts = []
            if isinstance(node, ast.Assign):
                tgts = node.targets
            elif isinstance(node, (ast.AugAssign, ast.AnnAssign)):
                tgts = [node.target]
            for t in tgts:
                base = t
                while isinstance(base, (ast.Attribute, ast.Subscript)):
                    base = base.value
                if is_name(base, src) and not is_name(t):
                    raise Unsupported("%s.%s assigns to its source object %s" % (cls, fn.name, src))
        # how often each attribute of a local object is assigned (C2)
        self.attr_assigns = {}
        for node in ast.walk(fn):
            if isinstance(node, ast.Assign):
                for t in node.targets:
                    if isinstance(t, ast.Attribute) and is_name(t.value):
                        key = (t.value.id, t.attr)
                        self.attr_assigns[key] = self.attr_assigns.get(key, 0) + 1

    def fresh(self, p):
        self.n += 1
        return "%s%d" % (p, self.n)

    # ------------------------------------------------------------------ expressions (CPS)
    # env: dict name -> (coq term, type) with type in ref | val ; extra keys:
    #   ("fwd", obj, attr) -> (term, type)      C2
    #   ("pair", obj, keyvar) -> coq name       C1: value paired with the loop key
    def as_val(self, t):
        term, ty = t
        return "(R %s)" % term if ty in ("ref", "oset", "list") else term

    def expr(self, e, env, k):
        """k((term, type)) -> str"""
        if isinstance(e, ast.Name):
            if e.id not in env:
                raise Unsupported("%s: unknown variable %s" % (self.gname, e.id))
            return k(env[e.id])
        if isinstance(e, ast.Constant):
            if e.value is None:
                return k(("PNone", "val"))
            if isinstance(e.value, str):
                return k((nm(e.value), "val"))
            raise Unsupported("constant %r" % (e.value,))
        if isinstance(e, ast.Call):
            return self.call(e, env, k)
        sub = is_memo_sub(e)
        if sub is not None:
            return self.expr(sub, env, lambda t: self._bind1("g_memo_get s %s" % self.as_val(t), "m", "val", k))
        ds = is_dict_sub(e)
        if ds is not None:
            obj, key = ds
            if not is_name(key):
                raise Unsupported("dictionary key expression")
            if ("pair", obj, key.id) in env:
                return k((env[("pair", obj, key.id)], "val"))
            if ("fwd", obj, "dict:" + key.id) in env:
                return k(env[("fwd", obj, "dict:" + key.id)])
            raise Unsupported("%s: read of %s.__dict__[%s]" % (self.gname, obj, key.id))
        if isinstance(e, ast.Attribute) and is_name(e.value):
            obj = e.value.id
            if ("fwd", obj, e.attr) in env:
                return k(env[("fwd", obj, e.attr)])
            if obj == self.src:
                return self._bind1("g_snap_get d_%s %s" % (obj, nm(e.attr)), "a", "val", k)
            if obj not in env:
                raise Unsupported("%s: unknown object %s" % (self.gname, obj))
            return self._bind1("g_getattr s %s %s" % (self.as_val(env[obj]), nm(e.attr)), "a", "val", k)
        if isinstance(e, ast.Subscript) and isinstance(e.slice, ast.Constant) and isinstance(e.slice.value, int) \
                and e.slice.value >= 0:
            i = e.slice.value
            return self.expr(e.value, env, lambda t: self._bind1("g_index s %s %d" % (self.as_val(t), i), "e", "val", k))
        if isinstance(e, ast.Tuple) and len(e.elts) == 2:
            def k1(a):
                def k2(b):
                    v = self.fresh("t")
                    return "let '(s, %s) := g_tuple2 s %s %s in\n%s" % (v, self.as_val(a), self.as_val(b), k((v, "ref")))
                return self.expr(e.elts[1], env, k2)
            return self.expr(e.elts[0], env, k1)
        if isinstance(e, ast.List) and not e.elts:
            v = self.fresh("l")
            return "let '(s, %s) := g_new_list s in\n%s" % (v, k((v, "list")))
        raise Unsupported("%s: expression %s" % (self.gname, ast.dump(e)[:80]))

    def _bind1(self, prim, p, ty, k):
        v = self.fresh(p)
        return "do %s <- %s ;;\n%s" % (v, prim, k((v, ty)))

    def call(self, e, env, k):
        f = e.func
        # copy.deepcopy(x, memo)
        if isinstance(f, ast.Attribute) and is_name(f.value, "copy") and f.attr == "deepcopy":
            if not is_memo_kw(e, 1):
                raise Unsupported("copy.deepcopy without the memo")

            def kk(t):
                v = self.fresh("c")
                return "do (s, %s) <- rec s %s ;;\n%s" % (v, self.as_val(t), k((v, "val")))
            return self.expr(e.args[0], env, kk)
        # X.__class__.__new__(X.__class__)
        if (isinstance(f, ast.Attribute) and f.attr == "__new__" and isinstance(f.value, ast.Attribute)
                and f.value.attr == "__class__" and is_name(f.value.value) and len(e.args) == 1 and not e.keywords
                and isinstance(e.args[0], ast.Attribute) and e.args[0].attr == "__class__"
                and is_name(e.args[0].value, f.value.value.id)):
            x = f.value.value.id
            if x != self.src:
                raise Unsupported("__new__ of the class of %s" % x)
            v = self.fresh("n")
            return "do (s, %s) <- g_new_like s %s ;;\n%s" % (v, env[x][0], k((v, "ref")))
        # self.__class__(target=E) in AnnotationSet
        if (isinstance(f, ast.Attribute) and f.attr == "__class__" and is_name(f.value, self.src)
                and self.cls == "AnnotationSet" and not e.args and len(e.keywords) == 1
                and e.keywords[0].arg == "target"):
            def kk(t):
                v = self.fresh("n")
                return "do (s, %s) <- g_new_annset s %s %s ;;\n%s" % (v, env[self.src][0], self.as_val(t), k((v, "oset")))
            return self.expr(e.keywords[0].value, env, kk)
        raise Unsupported("%s: call %s" % (self.gname, ast.dump(f)[:80]))

    # ------------------------------------------------------------------ conditions
    def cond(self, e, env):
        """-> (is_pure, term): a bool term, or a term of type res bool"""
        if isinstance(e, ast.BoolOp):
            parts = [self.cond(v, env) for v in e.values]
            if all(p for p, _ in parts):
                op = " && " if isinstance(e.op, ast.And) else " || "
                return True, "(" + op.join(t for _, t in parts) + ")"
            # short-circuit evaluation, left to right
            def m(p):
                return ("Ok %s" % p[1]) if p[0] else p[1]
            acc = m(parts[-1])
            for p in reversed(parts[:-1]):
                b = self.fresh("b")
                if isinstance(e.op, ast.And):
                    acc = "(do %s <- %s ;; if %s then %s else Ok false)" % (b, m(p), b, acc)
                else:
                    acc = "(do %s <- %s ;; if %s then Ok true else %s)" % (b, m(p), b, acc)
            return False, acc
        if isinstance(e, ast.Compare) and len(e.ops) == 1:
            op, a, b = e.ops[0], e.left, e.comparators[0]
            # type(A) is not type(B)
            if (isinstance(op, (ast.Is, ast.IsNot)) and all(isinstance(x, ast.Call) and is_name(x.func, "type")
                                                           and len(x.args) == 1 and is_name(x.args[0]) for x in (a, b))):
                t = "g_type_differs s %s %s" % (env[a.args[0].id][0], env[b.args[0].id][0])
                if isinstance(op, ast.Is):
                    t = "(do d <- %s ;; Ok (negb d))" % t
                return False, "(%s)" % t
            if isinstance(op, ast.In):
                if (isinstance(b, ast.Attribute) and b.attr == "__dict__" and is_name(b.value) and is_name(a)
                        and b.value.id != self.src and env[b.value.id][1] == "ref"):
                    return True, "(g_dict_has s %s %s)" % (env[b.value.id][0], env[a.id][0])
                raise Unsupported("membership test")
            if isinstance(op, (ast.Is, ast.IsNot, ast.Eq, ast.NotEq)):
                pure = [True]
                terms = []
                binds = []

                def grab(t):
                    terms.append(self.as_val(t))
                    return "@@"
                for x in (a, b):
                    txt = self.expr(x, env, grab)
                    if txt != "@@":
                        pure[0] = False
                        binds.append(txt[:-2])          # everything before the hole
                cmp_ = "val_eqb %s %s" % (terms[0], terms[1])
                if isinstance(op, (ast.IsNot, ast.NotEq)):
                    cmp_ = "negb (%s)" % cmp_
                if pure[0]:
                    return True, "(%s)" % cmp_
                return False, "(%sOk (%s))" % ("".join(binds), cmp_)
            raise Unsupported("comparison")
        if isinstance(e, ast.Call) and is_name(e.func, "hasattr") and len(e.args) == 2 and is_name(e.args[0]) \
                and isinstance(e.args[1], ast.Constant):
            obj = e.args[0].id
            if obj == self.src:
                return True, "(g_snap_has d_%s %s)" % (obj, nm(e.args[1].value))
            if env[obj][1] != "ref":
                raise Unsupported("hasattr on a value")
            return True, "(g_hasattr s %s %s)" % (env[obj][0], nm(e.args[1].value))
        if isinstance(e, ast.Attribute):        # truth of a bool attribute (C5)
            terms = []

            def grab(t):
                terms.append(self.as_val(t))
                return "@@"
            txt = self.expr(e, env, grab)
            if txt == "@@":
                return True, "(g_truthy %s)" % terms[0]
            return False, "(%sOk (g_truthy %s))" % (txt[:-2], terms[0])
        raise Unsupported("%s: condition %s" % (self.gname, ast.dump(e)[:80]))

    # ------------------------------------------------------------------ statements
    def block(self, stmts, env, k, loop_k=None, ctr=None):
        """k(env) -> the term that follows the block; loop_k: the term for `continue`"""
        if not stmts:
            return k(env)
        st, rest = stmts[0], stmts[1:]

        def after(env2):
            return self.block(rest, env2, k, loop_k, ctr)
        # `if memo is None: memo = {}`  (C0)
        if (isinstance(st, ast.If) and not st.orelse and isinstance(st.test, ast.Compare) and is_name(st.test.left, "memo")
                and len(st.test.ops) == 1 and isinstance(st.test.ops[0], ast.Is)
                and isinstance(st.test.comparators[0], ast.Constant) and st.test.comparators[0].value is None
                and len(st.body) == 1 and isinstance(st.body[0], ast.Assign) and is_name(st.body[0].targets[0], "memo")
                and isinstance(st.body[0].value, ast.Dict) and not st.body[0].value.keys):
            return after(env)
        if isinstance(st, ast.Expr) and isinstance(st.value, ast.Constant) and isinstance(st.value.value, str):
            return after(env)          # docstring
        # `if memo is not None: <body>`  (C0: memo is the threaded state)
        if (isinstance(st, ast.If) and not st.orelse and isinstance(st.test, ast.Compare) and is_name(st.test.left, "memo")
                and len(st.test.ops) == 1 and isinstance(st.test.ops[0], ast.IsNot)
                and isinstance(st.test.comparators[0], ast.Constant) and st.test.comparators[0].value is None):
            return self.block(st.body + rest, env, k, loop_k, ctr)
        # `return memo` of a procedure on the memo
        if isinstance(st, ast.Return) and is_name(st.value, "memo") and not rest and loop_k is None and not self.returns:
            return k(env)
        if isinstance(st, ast.Continue):
            if loop_k is None or rest:
                raise Unsupported("continue")
            return loop_k
        if isinstance(st, ast.Return):
            if rest or loop_k is not None or not self.returns or st.value is None:
                raise Unsupported("return")
            return self.expr(st.value, env, lambda t: "Ok (s, %s)" % self.as_val(t))
        if isinstance(st, ast.Raise):
            return self.raise_(st)
        if isinstance(st, ast.Try):
            return self.try_(st, env, after)
        if isinstance(st, ast.If):
            return self.if_(st, env, after, loop_k, rest, k, ctr)
        if isinstance(st, ast.For):
            return self.for_(st, env, after)
        if isinstance(st, ast.Assign) and len(st.targets) == 1:
            return self.assign(st.targets[0], st.value, env, after)
        if isinstance(st, ast.Expr) and isinstance(st.value, ast.Call):
            return self.call_stmt(st.value, env, after, ctr)
        raise Unsupported("%s: statement %s" % (self.gname, ast.dump(st)[:80]))

    def raise_(self, st):
        e = st.exc
        if isinstance(e, ast.Call) and is_name(e.func) and e.func.id in ERRS:
            return "Err %s" % ERRS[e.func.id]
        raise Unsupported("raise")

    def try_(self, st, env, after):
        if st.orelse or st.finalbody or len(st.handlers) != 1 or not is_name(st.handlers[0].type, "KeyError") \
                or len(st.body) != 1 or not isinstance(st.body[0], ast.Assign) or len(st.body[0].targets) != 1 \
                or not is_name(st.body[0].targets[0]):
            raise Unsupported("try statement")
        var = st.body[0].targets[0].id
        h = st.handlers[0].body
        # try: <stmt> except KeyError: raise KeyError(..)      (C3)
        if len(h) == 1 and isinstance(h[0], ast.Raise) and self.raise_(h[0]) == "Err KeyErr":
            return self.assign(st.body[0].targets[0], st.body[0].value, env, after)
        # try: x = memo[id(y)] except KeyError: handler        (C3)
        y = is_memo_sub(st.body[0].value)
        if y is None or not is_name(y) or env[y.id][1] != "ref":
            raise Unsupported("try body")
        m = self.fresh("m")

        def hk(env2):
            if var not in env2 or env2[var][1] != "ref":
                raise Unsupported("handler does not bind %s" % var)
            return "Ok (s, %s)" % env2[var][0]
        handler = self.block(h, dict(env), hk)
        v = "v_" + var
        env2 = dict(env)
        env2[var] = (v, "ref")
        return ("do (s, %s) <- (match g_memo_lookup s %s with\n| Some %s => Ok (s, %s)\n| None =>\n%s\nend) ;;\n%s"
                % (v, env[y.id][0], m, m, handler, after(env2)))

    def assign(self, tgt, value, env, after):
        # memo[id(A)] = B
        a = is_memo_sub(tgt)
        if a is not None:
            def k1(ta):
                def k2(tb):
                    if ta[1] != "val" and tb[1] != "val":
                        return "let s := memo_set s %s %s in\n%s" % (ta[0], tb[0], after(env))
                    return "let s := memo_val s %s %s in\n%s" % (self.as_val(ta), self.as_val(tb), after(env))
                return self.expr(value, env, k2)
            return self.expr(a, env, k1)
        # X.__dict__[k] = E
        ds = is_dict_sub(tgt)
        if ds is not None:
            obj, key = ds
            if not is_name(key) or obj not in env or env[obj][1] != "ref":
                raise Unsupported("dictionary store")

            def k1(t):
                env2 = dict(env)
                env2[("fwd", obj, "dict:" + key.id)] = t
                return "let s := put s %s %s %s in\n%s" % (env[obj][0], env[key.id][0], self.as_val(t), after(env2))
            return self.expr(value, env, k1)
        # X.attr = E
        if isinstance(tgt, ast.Attribute) and is_name(tgt.value):
            obj = tgt.value.id
            if obj not in env:
                raise Unsupported("attribute store on %s" % obj)

            def k1(t):
                env2 = dict(env)
                if env[obj][1] == "ref":
                    if self.attr_assigns.get((obj, tgt.attr)) == 1:
                        env2[("fwd", obj, tgt.attr)] = t
                        if t[1] == "list":
                            env2["$" + t[0]] = t          # a local of the generated code: passed to the loops
                    return "let s := put s %s %s %s in\n%s" % (env[obj][0], nm(tgt.attr), self.as_val(t), after(env2))
                return "do s <- g_setattr s %s %s %s ;;\n%s" % (env[obj][0], nm(tgt.attr), self.as_val(t), after(env2))
            return self.expr(value, env, k1)
        # x = E
        if is_name(tgt):
            def k1(t):
                env2 = dict(env)
                v = "v_" + tgt.id
                env2[tgt.id] = (v, t[1])
                return "let %s := %s in\n%s" % (v, t[0], after(env2))
            return self.expr(value, env, k1)
        raise Unsupported("assignment target")

    def call_stmt(self, c, env, after, ctr):
        f = c.func
        if not isinstance(f, ast.Attribute):
            raise Unsupported("call statement")
        # X.deep_copy_annotations_from(Y, memo)
        if f.attr == "deep_copy_annotations_from" and is_name(f.value) and is_memo_kw(c, 1) and is_name(c.args[0]):
            x, y = env[f.value.id], env[c.args[0].id]
            if x[1] != "ref" or y[1] != "ref":
                raise Unsupported("deep_copy_annotations_from on values")
            return "do s <- %s rec s %s %s ;;\n%s" % (DCAF, x[0], y[0], after(env))
        # X.annotations.add(E)
        if (f.attr == "add" and isinstance(f.value, ast.Attribute) and f.value.attr == "annotations"
                and is_name(f.value.value) and len(c.args) == 1 and not c.keywords):
            x = env[f.value.value.id]
            if x[1] != "ref":
                raise Unsupported("annotations of a value")
            return self.expr(c.args[0], env, lambda t: "do s <- annotations_add s %s %s ;;\n%s"
                             % (x[0], self.as_val(t), after(env)))
        # O.add(E), O a new AnnotationSet
        if f.attr == "add" and is_name(f.value) and len(c.args) == 1 and not c.keywords:
            x = env[f.value.id]
            if x[1] != "oset":
                raise Unsupported("add on %s" % f.value.id)
            return self.expr(c.args[0], env, lambda t: "do s <- oset_add s %s %s ;;\n%s"
                             % (x[0], self.as_val(t), after(env)))
        # L.append(E)   (C4)
        if f.attr == "append" and len(c.args) == 1 and not c.keywords:
            if ctr is None:
                raise Unsupported("append outside a counted loop")

            def kl(tl):
                if tl[1] != "list" or tl[0] != ctr[0]:
                    raise Unsupported("append to a list that the function did not create")
                ctr[2] += 1
                return self.expr(c.args[0], env, lambda t: "let s := g_append_nth s %s %s %s in\n%s"
                                 % (tl[0], ctr[1], self.as_val(t), after(env)))
            return self.expr(f.value, env, kl)
        raise Unsupported("%s: call statement %s" % (self.gname, ast.dump(f)[:80]))

    def if_(self, st, env, after, loop_k, rest, k, ctr):
        if st.orelse:
            raise Unsupported("else branch")
        pure, c = self.cond(st.test, env)

        def wrap(th, el):
            if pure:
                return "if %s then\n%s\nelse\n%s" % (c, th, el)
            b = self.fresh("b")
            return "do %s <- %s ;;\nif %s then\n%s\nelse\n%s" % (b, c, b, th, el)
        last = st.body[-1]
        if isinstance(last, ast.Continue) or isinstance(last, ast.Raise):
            th = self.block(st.body, env, lambda e2: "Ok s", loop_k, ctr)
            return wrap(th, after(env))
        # a conditional update of the state only
        th = self.block(st.body, env, lambda e2: "Ok s", None, ctr)
        if not rest and loop_k is None and not self.returns:
            return wrap(th, "Ok s") if k(env) == "Ok s" else self._seq(wrap(th, "Ok s"), after(env))
        return self._seq(wrap(th, "Ok s"), after(env))

    def _seq(self, a, b):
        return "do s <- (%s) ;;\n%s" % (a, b)

    def for_(self, st, env, after):
        if st.orelse or not is_name(st.target):
            raise Unsupported("for statement")
        var = st.target.id
        it = st.iter
        self.nloop += 1
        lname = "%s_loop%d" % (self.gname, self.nloop)
        env_b = dict(env)
        pre = ""
        if isinstance(it, ast.Attribute) and it.attr == "__dict__" and is_name(it.value, self.src):
            lst, pat, elty = "d_%s" % self.src, "(v_%s, d_%s)" % (var, var), "(val * val)"
            env_b[var] = ("v_" + var, "val")
            env_b[("pair", self.src, var)] = "d_" + var
        else:
            env_b[var] = ("v_" + var, "val")
            pat, elty = "v_" + var, "val"
            lst = self.fresh("xs")
            if isinstance(it, ast.Attribute) and is_name(it.value, self.src) and it.attr in ITER_KIND:
                prim = {"oset": "g_iter_oset", "list": "g_iter_list"}[ITER_KIND[it.attr]]
                pre = "do %s <- (do a <- g_snap_get d_%s %s ;; %s s a) ;;\n" % (lst, self.src, nm(it.attr), prim)
            elif is_name(it, self.src) and self.cls == "AnnotationSet":
                pre = "do %s <- g_iter_self_oset s d_%s ;;\n" % (lst, self.src)
            else:
                raise Unsupported("%s: loop source %s" % (self.gname, ast.dump(it)[:80]))
        # a counted list (C4): a list variable of the environment appended to in the body
        ctr = None
        for node in ast.walk(st):
            if isinstance(node, ast.Call) and isinstance(node.func, ast.Attribute) and node.func.attr == "append":
                tl = []
                self.expr(node.func.value, env, lambda t: tl.append(t) or "")
                if not tl or tl[0][1] != "list":
                    raise Unsupported("append to a list that the function did not create")
                ctr = [tl[0][0], "i", 0]
        # parameters: the variables of the environment, in order of binding
        pnames = [(v[0], v[1]) for kx, v in env.items() if isinstance(kx, str)]
        pdecl = " ".join("(%s : %s)" % (n, "Z" if t in ("ref", "oset", "list") else "val") for n, t in pnames)
        if self.src in env and not any(n == "d_" + self.src for n, _ in pnames):
            pdecl += " (d_%s : list (val * val))" % self.src
            pargs = " ".join(n for n, _ in pnames) + " d_%s" % self.src
        else:
            pargs = " ".join(n for n, _ in pnames)
        if ctr:
            pdecl += " (i : Z)"
        rec_call = "%s rec s %s%s xs'" % (lname, pargs, " (i + 1)" if ctr else "")
        body = self.block(st.body, env_b, lambda e2: rec_call, rec_call, ctr)
        if ctr and ctr[2] != 1:
            raise Unsupported("%s: %d appends per iteration" % (self.gname, ctr[2]))
        self.loops.append("Fixpoint %s (rec : rec_t) (s : st) %s (xs : list %s) {struct xs} : res st :=\n"
                          "match xs with\n| [] => Ok s\n| %s :: xs' =>\n%s\nend."
                          % (lname, pdecl, elty, pat, body))
        call = "%s rec s %s%s %s" % (lname, pargs, " 0" if ctr else "", lst)
        return "%sdo s <- %s ;;\n%s" % (pre, call, after(env))

    # ------------------------------------------------------------------ the function
    def translate(self):
        env = {}
        for p in self.params:
            env[p] = ("v_" + p, "ref")
        k_end = (lambda e: "Ok s") if not self.returns else None
        if self.returns:
            def k_end(e):
                raise Unsupported("%s: falls off the end" % self.gname)
        body = self.block(self.fn.body, env, k_end)
        pdecl = " ".join("(v_%s : Z)" % p for p in self.params)
        rty = "res (st * val)" if self.returns else "res st"
        head = ("Definition %s (rec : rec_t) (s : st) %s : %s :=\nlet d_%s := g_dict_items s v_%s in\n%s."
                % (self.gname, pdecl, rty, self.src, self.src, body))
        return self.loops + [head]


def indent(txt):
    """cosmetic: indentation by nesting of match/end, if/else and the monadic lets"""
    out, depth = [], 0
    for line in txt.split("\n"):
        l = line.strip()
        if l.startswith("end") or l.startswith("| "):
            depth = max(depth - 1, 0) if l.startswith("end") else depth
        out.append("  " * (depth + 1) + l if not (l.startswith("Fixpoint") or l.startswith("Definition")) else l)
        if l.startswith("match ") or l.endswith("(match g_memo_lookup s v_self with"):
            depth += 1
    return "\n".join(out)


def parse(repo):
    src = os.path.join(repo, "src", "dendropy")
    trees = {}
    for key, parts in FILES.items():
        with open(os.path.join(src, *parts)) as f:
            trees[key] = ast.parse(f.read())
    return trees


def generate(repo):
    trees = parse(repo)
    out = ["(* GENERATED by py/dv/gen_copy.py from datamodel/basemodel.py, taxonmodel.py, treemodel/_tree.py,",
           "   treecollectionmodel.py, charmatrixmodel.py -- do not edit *)",
           "From Coq Require Import ZArith List Bool.",
           "From DV Require Import Model.PyPrims Model.C12Model Model.C12GenPrims.",
           "Import ListNotations.",
           "Open Scope Z_scope.", ""]
    for key, cls, name, gname, src, params, returns in PLAN:
        fn = find_def(trees[key], name, cls)
        out.append("(* %s.%s, line %d *)" % (cls, name, fn.lineno))
        for d in Fn(fn, cls, gname, src, params, returns).translate():
            out.append(indent(d))
            out.append("")
    from dv import c12_copyfacts
    out.append(c12_copyfacts.facts(trees))
    out.append(c12_copyfacts.dispatch_facts(trees))
    return "\n".join(out)


def class_kinds(repo):
    """{class name: (model kind as the dumper names it, class whose __deepcopy__ it resolves to | None)} from the
    source (the harness compares it with what the running library dispatches to)"""
    from dv import c12_copyfacts
    table, _definers = c12_copyfacts.dispatch_table(parse(repo))
    names = {"KAnnotable": "annotable", "KAnnSet": "annset", "KTaxon": "taxon", "KNamespace": "namespace",
             "KAtomic": "atomic", "KCDict": "cdict", "KPlain": "plain"}
    return {c: (names[k], d) for c, k, d in table}
