"""Translator (object level): class NexusTaxonSymbolMapper -> coq/Gen/RoutesMapperObj.v  (property C13, wave 7).

gen_routes_mapper.py compiles the class over VALUES (one record of table contents per mapper).  That cannot say
whether two mapper objects hold the same table.  This translator compiles the same methods, statement by statement, over
the CONTAINER STORE of coq/Model/C13MapObjPrims.v: a mapper object holds container identities, and for every
statement the translator decides from the AST which container object it allocates, rebinds, mutates in place or reads:

  self.a = {} / container.CaseInsensitiveDict(..)    a NEW container (wn_alloc / ws_alloc), the instance attribute rebound
  self.a[k] = v,  self.a.clear(),  self.a[k]          in place on / read of the container that `self.a` RESOLVES to:
      INSTANCE   when __init__ assigns self.a (at its top level, folded branches followed) before its first use and
                 before its first call of another method: (mr_a o)
      CLASS      when the name is bound to a container in the CLASS BODY and __init__ does not bind it first: the one
                 container of the class, shared by every instance: (cl_a cls)
      otherwise  AttributeError: Unsupported (fail closed)
  a class-body binding that __init__ shadows before any use is harmless and reported in a comment.

`gmo_class_level` lists the names that resolve to class-level containers; Proofs/C13MapObj.v proves it empty, proves
every compiled method a refinement of its value-level twin (Gen/RoutesMapper.v) on well-formed stores, and the frame:
a method of one object changes no container that the object does not hold.
"""
import ast
import os

from dv.gen_routes import Unsupported
from dv import gen_routes_mapper as V
from dv.gen_routes_mapper import ATTRS, FOLDED_ATTRS, PLAN, COQ_TYPES, CLASS, FILE

OUTPUT = "RoutesMapperObj.v"

DICT_TYPES = ("dict", "sdict")


def goname(m):
    return "gmo_" + m.strip("_")


def is_container_expr(n):
    """an expression that evaluates to a new mutable container"""
    if isinstance(n, (ast.Dict, ast.List, ast.Set, ast.ListComp, ast.DictComp, ast.SetComp)):
        return True
    if isinstance(n, ast.Call):
        f = n.func
        name = f.id if isinstance(f, ast.Name) else (f.attr if isinstance(f, ast.Attribute) else None)
        return name in ("dict", "list", "set", "OrderedDict", "defaultdict", "CaseInsensitiveDict", "OrderedCaselessDict",
                        "OrderedSet", "bytearray", "deque", "Counter")
    return False


def class_level_containers(cls):
    """names bound to a mutable container in the class body -> line"""
    out = {}
    for st in cls.body:
        targets, value = [], None
        if isinstance(st, ast.Assign):
            targets, value = st.targets, st.value
        elif isinstance(st, ast.AnnAssign) and st.value is not None:
            targets, value = [st.target], st.value
        if value is None or not is_container_expr(value):
            continue
        for t in targets:
            for e in (t.elts if isinstance(t, ast.Tuple) else [t]):
                if isinstance(e, ast.Name):
                    out[e.id] = st.lineno
    return out


def init_bound(fn):
    """dict attributes that __init__ assigns (self.a = ..) at its top level - following the folded branch of
    `if not self.case_sensitive` - before the first statement that is not such an assignment of / to a scalar"""
    bound = []

    def walk(stmts):
        for st in stmts:
            if isinstance(st, ast.Expr) and isinstance(st.value, ast.Constant):
                continue
            if isinstance(st, ast.Assign) and len(st.targets) == 1 and V.M.self_attr(st.targets[0]) is not None:
                a = V.M.self_attr(st.targets[0])
                if a in ATTRS and ATTRS[a][1] in DICT_TYPES:
                    if not is_container_expr(st.value):
                        return False
                    bound.append(a)
                elif any(isinstance(x, ast.Call) for x in ast.walk(st.value)):
                    return False
                continue
            if isinstance(st, ast.If):
                # the folded test on case_sensitive: both branches must bind the same attributes
                before = list(bound)
                ok1 = walk([s for s in st.body if not isinstance(s, ast.Raise) and not isinstance(s, ast.If)])
                b1 = bound[len(before):]
                del bound[len(before):]
                ok2 = walk([s for s in st.orelse if not isinstance(s, ast.Raise) and not isinstance(s, ast.If)])
                b2 = bound[len(before):]
                del bound[len(before):]
                bound.extend(a for a in b1 if a in b2)
                if not (ok1 and ok2):
                    return False
                continue
            return False
        return True
    walk(fn.body)
    return bound


class MO(V.M):
    """the compiler of gen_routes_mapper.M with object-level emission"""

    def __init__(self, name, node, spec, done, kinds, resolve):
        V.M.__init__(self, name, node, spec, done, kinds)
        self.resolve = resolve            # attr -> "instance" | "class"
        self.bound_here = set()           # inside __init__: attributes already bound

    # --- which container object self.<attr> denotes
    def ref(self, attr):
        f = ATTRS[attr][0]
        r = self.resolve.get(attr)
        if self.name == "__init__" and r == "instance" and attr not in self.bound_here:
            raise Unsupported("%s: self.%s used before __init__ binds it" % (self.name, attr))
        if r == "instance":
            return "(mr_%s o)" % f
        if r == "class":
            return "(cl_%s cls)" % f
        raise Unsupported("%s: self.%s is bound neither by __init__ nor in the class body (AttributeError)" % (self.name, attr))

    def heap(self, attr):
        return "ws" if ATTRS[attr][1] == "sdict" else "wn"

    def expr(self, n, want=None):
        a = self.self_attr(n)
        if a is not None and a in ATTRS and a not in FOLDED_ATTRS:
            f, ty = ATTRS[a]
            if ty in DICT_TYPES:
                return "(%s_get w %s)" % (self.heap(a), self.ref(a)), ty
            return "(mr_%s o)" % f, ty
        t, ty = V.M.expr(self, n, want)
        return t.replace("(mo_nso o)", "(mr_nso o)"), ty

    def ret(self, val):
        return "Ok (%s, o, w)" % val

    def method_call(self, call):
        op, rty = V.M.method_call(self, call)
        # "gm_x o args" -> "gmo_x cls o w args"
        head, _, rest = op.partition(" o")
        return ("gmo_" + head[len("gm_"):] + " cls o w" + rest), rty

    def set_attr(self, attr, value):
        raise Unsupported("internal: set_attr is not used at object level")

    def assign_attr(self, attr, value):
        """text prefix for self.<attr> = value"""
        if attr in FOLDED_ATTRS:
            t, ty = self.expr(value)
            if t != ("true" if FOLDED_ATTRS[attr] else "false"):
                raise Unsupported("%s: self.%s := %s (folded attribute)" % (self.name, attr, t))
            return "let o := o in\n"
        if attr not in ATTRS:
            raise Unsupported("%s: assignment to self.%s" % (self.name, attr))
        f, ty = ATTRS[attr]
        t, vty = self.expr(value, want=ty)
        if ty in DICT_TYPES:
            if vty not in ("cidict", "pydict"):
                raise Unsupported("%s: self.%s := %s" % (self.name, attr, vty))
            if self.resolve.get(attr) != "instance":
                # an instance binding made outside the __init__ prefix would change what later reads resolve to
                raise Unsupported("%s: self.%s rebound although it is not an instance attribute from __init__ on" % (self.name, attr))
            old = self.kinds.get(attr)
            if old is not None and old != vty:
                raise Unsupported("%s: self.%s changes from %s to %s" % (self.name, attr, old, vty))
            self.kinds[attr] = vty
            self.bound_here.add(attr)
            # the value is evaluated in the store before the allocation; a NEW container object; the attribute rebound
            return "let '(w, c__) := %s_alloc w %s in\nlet o := (set_mr_%s o c__) in\n" % (self.heap(attr), t, f)
        if ty == "onsobj" and vty == "nsobj":
            t = "(Some %s)" % t
        elif ty == "obool" and vty == "bool":
            t = "(Some %s)" % t
        elif vty != ty:
            raise Unsupported("%s: self.%s := %s" % (self.name, attr, vty))
        return "let o := (set_mr_%s o %s) in\n" % (f, t)

    def simple(self, st):
        if isinstance(st, ast.Expr) and isinstance(st.value, ast.Constant) and isinstance(st.value.value, str):
            return ""
        if isinstance(st, ast.Pass):
            return ""
        if isinstance(st, ast.Assign) and len(st.targets) == 1:
            tg, value = st.targets[0], st.value
            a = self.self_attr(tg)
            if a is not None:
                return self.assign_attr(a, value)
            if self.ns_attr(tg) == "is_mutable":
                t, ty = self.expr(value)
                if ty == "bool":
                    t = "(Some %s)" % t
                elif ty != "obool":
                    raise Unsupported("%s: is_mutable := %s" % (self.name, ty))
                return "let o := mr_set_mutable o %s in\n" % t
            # self.<dict>[k] = v : in place on the container the attribute resolves to
            if isinstance(tg, ast.Subscript) and self.self_attr(tg.value) is not None:
                attr = self.self_attr(tg.value)
                kind = self.dict_kind(attr)
                k, kty = self.expr(tg.slice)
                v, vty = self.expr(value)
                want = "str" if ATTRS[attr][1] == "sdict" else "taxon"
                if vty == "looptaxon":
                    vty = "taxon"
                if kty != "str" or vty != want:
                    raise Unsupported("%s: self.%s[%s] = %s" % (self.name, attr, kty, vty))
                setter = "cid_set lower" if kind == "cidict" else "d_set"
                h, r = self.heap(attr), self.ref(attr)
                return "let w := %s_put w %s (%s (%s_get w %s) %s %s) in\n" % (h, r, setter, h, r, k, v)
            if isinstance(tg, ast.Name) and not (isinstance(value, ast.Call) and self.is_effect(value)):
                t, ty = self.expr(value)
                if tg.id in self.types and self.types[tg.id] != ty:
                    raise Unsupported("%s: %s changes type" % (self.name, tg.id))
                self.types[tg.id] = ty
                return "let v_%s := %s in\n" % (tg.id, t)
        # self.<dict>.clear() : in place
        if isinstance(st, ast.Expr) and isinstance(st.value, ast.Call) and isinstance(st.value.func, ast.Attribute) \
                and st.value.func.attr == "clear" and self.self_attr(st.value.func.value) is not None \
                and not st.value.args and not st.value.keywords:
            attr = self.self_attr(st.value.func.value)
            self.dict_kind(attr)
            h, r = self.heap(attr), self.ref(attr)
            return "let w := %s_put w %s (d_clear (%s_get w %s)) in\n" % (h, r, h, r)
        return None

    def dict_kind(self, attr):
        if attr not in ATTRS or ATTRS[attr][1] not in DICT_TYPES:
            raise Unsupported("%s: subscript of self.%s" % (self.name, attr))
        k = self.kinds.get(attr)
        if k is None:
            if self.resolve.get(attr) == "class":
                return self.resolve_kind[attr]
            raise Unsupported("%s: kind of self.%s unknown" % (self.name, attr))
        return k

    def block(self, stmts, k):
        if not stmts:
            return k()
        st, rest = stmts[0], stmts[1:]

        def after():
            return self.block(rest, k)
        pre = self.simple(st)
        if pre is not None:
            return pre + after()
        call, target = None, None
        if isinstance(st, ast.Expr) and isinstance(st.value, ast.Call):
            call = st.value
        elif isinstance(st, ast.Assign) and len(st.targets) == 1 and isinstance(st.targets[0], ast.Name) \
                and isinstance(st.value, ast.Call):
            call, target = st.value, st.targets[0].id
        if call is not None:
            r = self.fresh()
            if isinstance(call.func, ast.Attribute) and self.ns_attr(call.func) == "new_taxon":
                if len(call.args) != 1 or call.keywords or target is None:
                    raise Unsupported("%s: namespace.new_taxon shape" % self.name)
                t, ty = self.expr(call.args[0])
                if ty != "str":
                    raise Unsupported("%s: new_taxon(%s)" % (self.name, ty))
                self.types[target] = "taxon"
                return ("do %s <- nso_new_taxon (mr_nso o) %s ;; let '(v_%s, n__) := %s in\nlet o := set_mr_ns o (Some n__) in\n%s"
                        % (r, t, target, r, after()))
            op, rty = self.method_call(call)
            if target is not None:
                self.types[target] = rty
            return "do %s <- %s ;; let '(%s, o, w) := %s in\n%s" % (r, op, "v_" + target if target else "_", r, after())
        if isinstance(st, ast.If):
            t, c = self.cond(st.test)

            def then_rest(branch):
                if branch and isinstance(branch[-1], (ast.Return, ast.Raise)):
                    return list(branch)
                return list(branch) + list(rest)
            if c is True:
                return self.block(then_rest(st.body), k)
            if c is False:
                return self.block(then_rest(st.orelse), k)
            saved, sb = dict(self.types), set(self.bound_here)
            b1 = self.block(then_rest(st.body), k)
            self.types, self.bound_here = dict(saved), set(sb)
            b2 = self.block(then_rest(st.orelse), k)
            self.types = saved
            return "if %s then\n%s\nelse\n%s" % (t, b1, b2)
        if isinstance(st, ast.Try):
            ok = len(st.body) == 1 and isinstance(st.body[0], ast.Return) and isinstance(st.body[0].value, ast.Subscript) \
                and len(st.handlers) == 1 and isinstance(st.handlers[0].type, ast.Name) and st.handlers[0].type.id == "KeyError" \
                and st.handlers[0].name is None and len(st.handlers[0].body) == 1 and isinstance(st.handlers[0].body[0], ast.Pass) \
                and not st.orelse and not st.finalbody
            if not ok:
                raise Unsupported("%s: try statement shape" % self.name)
            sub = st.body[0].value
            attr = self.self_attr(sub.value)
            if attr is None:
                raise Unsupported("%s: try: return <subscript>" % self.name)
            kind = self.dict_kind(attr)
            kt, kty = self.expr(sub.slice)
            if kty != "str" or ATTRS[attr][1] != "dict":
                raise Unsupported("%s: self.%s[%s]" % (self.name, attr, kty))
            getter = "cid_get lower" if kind == "cidict" else "d_get"
            x = self.fresh()
            return "match %s (%s_get w %s) %s with\n| Some %s => %s\n| None =>\n%s\nend" % (
                getter, self.heap(attr), self.ref(attr), kt, x, self.ret(self.coerce_ret(x, "taxon")), after())
        if isinstance(st, ast.For):
            it = st.iter
            ok = isinstance(it, ast.Call) and isinstance(it.func, ast.Name) and it.func.id == "enumerate" and len(it.args) == 1 \
                and not it.keywords and self.self_attr(it.args[0]) == "_taxon_namespace" and not st.orelse \
                and isinstance(st.target, ast.Tuple) and len(st.target.elts) == 2 and all(isinstance(e, ast.Name) for e in st.target.elts)
            if not ok:
                raise Unsupported("%s: for loop shape" % self.name)
            i, x = st.target.elts[0].id, st.target.elts[1].id
            saved = dict(self.types)
            self.types[i] = "nat"
            self.types[x] = "looptaxon"
            body = ""
            for b in st.body:
                if isinstance(b, ast.Assign) and len(b.targets) == 1 and self.self_attr(b.targets[0]) is not None:
                    raise Unsupported("%s: attribute rebound inside a loop" % self.name)
                pre = self.simple(b)
                if pre is None:
                    raise Unsupported("%s: statement in for body: %s" % (self.name, type(b).__name__))
                body += pre
            self.types = saved
            # the loop body only works in place on the store: the object is not rebound
            return ("let w := fold_left (fun (w : world) (p__ : nat * str) =>\nlet v_%s := fst p__ in let v_%s := fst p__ in "
                    "let v_%s__label := snd p__ in\n%sw) (nso_enumerate (mr_nso o)) w in\n%s" % (i, x, x, body, after()))
        if isinstance(st, ast.Return):
            if rest:
                raise Unsupported("%s: statements after return" % self.name)
            if st.value is None:
                if self.spec["ret"] != "unit":
                    raise Unsupported("%s: bare return" % self.name)
                return self.ret("tt")
            if isinstance(st.value, ast.Call) and self.is_effect(st.value):
                op, rty = self.method_call(st.value)
                r = self.fresh()
                return "do %s <- %s ;; let '(v__, o, w) := %s in\n%s" % (r, op, r, self.ret(self.coerce_ret("v__", rty)))
            t, ty = self.expr(st.value, want=self.spec["ret"])
            return self.ret(self.coerce_ret(t, ty))
        if isinstance(st, ast.Raise):
            e = st.exc
            if isinstance(e, ast.Call) and isinstance(e.func, ast.Name) and e.func.id == "ValueError":
                return "Err ValueErr"
            raise Unsupported("%s: raise" % self.name)
        raise Unsupported("%s: statement %s" % (self.name, type(st).__name__))

    def compile(self):
        a = self.node.args
        names = [x.arg for x in a.args[1:]]
        want = [p for p, _ in self.spec["params"]] + list(self.spec.get("folded", []))
        if names != want or a.vararg or a.kwarg or a.kwonlyargs:
            raise Unsupported("%s: parameters are %s" % (self.name, names))
        defaults = [None] * (len(names) - len(a.defaults)) + list(a.defaults)
        self.spec["defaults"] = {}
        for nme, d in zip(names, defaults):
            if d is None:
                continue
            if not (isinstance(d, ast.Constant) and d.value in (True, False)):
                raise Unsupported("%s: default of %s" % (self.name, nme))
            if nme in self.spec.get("folded", []):
                continue
            self.spec["defaults"][nme] = "true" if d.value else "false"

        def fall():
            if self.spec["ret"] != "unit":
                raise Unsupported("%s: falls off the end but returns %s" % (self.name, self.spec["ret"]))
            return self.ret("tt")
        text = self.block(list(self.node.body), fall)
        params = "".join(" (v_%s : %s)" % (p, COQ_TYPES[t]) for p, t in self.spec["params"])
        return "Definition %s (cls : mcls) (o : mref) (w : world)%s : res (%s * mref * world) :=\n%s." % (
            goname(self.name), params, COQ_TYPES[self.spec["ret"]], text)


HEADER = """(* GENERATED by py/dv/gen_routes_mapper_obj.py from the current DendroPy source - do not edit.
   OBJECT-LEVEL statement-by-statement translation of class NexusTaxonSymbolMapper over the container store of
   Model/C13MapObjPrims.v: which container object every statement allocates, rebinds, mutates in place or reads. *)
From Coq Require Import ZArith List Bool.
From Coq Require String. Import String.StringSyntax.
From DV Require Import Model.PyPrims Model.C13Model Model.C13MapPrims Model.C13MapObjPrims.
Import ListNotations.
"""


def classify(cls, fns):
    """attribute -> "instance" | "class"; and the class-level container names with their lines"""
    level = class_level_containers(cls)
    bound = init_bound(fns["__init__"])
    resolve = {}
    for a, (_f, ty) in ATTRS.items():
        if ty not in DICT_TYPES:
            continue
        if a in bound:
            resolve[a] = "instance"
        elif a in level:
            resolve[a] = "class"
    return resolve, level, bound


def generate(repo):
    with open(os.path.join(repo, FILE)) as f:
        tree = ast.parse(f.read())
    cls = next((n for n in tree.body if isinstance(n, ast.ClassDef) and n.name == CLASS), None)
    if cls is None:
        raise Unsupported("class %s not found" % CLASS)
    fns = {f.name: f for f in cls.body if isinstance(f, ast.FunctionDef)}
    if "__init__" not in fns:
        raise Unsupported("__init__ not found")
    resolve, level, bound = classify(cls, fns)
    other = sorted(n for n in level if n not in ATTRS)
    if other:
        raise Unsupported("class-level container(s) %s are not attributes this translator knows" % other)
    shared = sorted(a for a, r in resolve.items() if r == "class")
    shadowed = sorted(a for a in level if resolve.get(a) == "instance")
    kinds = {}
    # the kind (plain dict / CaseInsensitiveDict) of a class-level container is read off its class-body expression
    resolve_kind = {}
    for st in cls.body:
        if isinstance(st, ast.Assign) and is_container_expr(st.value):
            for t in st.targets:
                if isinstance(t, ast.Name) and t.id in shared:
                    if isinstance(st.value, ast.Dict) and not st.value.keys:
                        resolve_kind[t.id] = "pydict"
                    elif isinstance(st.value, ast.Call) and getattr(st.value.func, "attr", None) == "CaseInsensitiveDict" \
                            and not st.value.args and not st.value.keywords:
                        resolve_kind[t.id] = "cidict"
                    else:
                        raise Unsupported("class-level container %s: unsupported initial value" % t.id)
    specs = {name: dict(spec) for name, spec in PLAN}
    scan = MO("__init__", fns["__init__"], dict(specs["__init__"]),
              {n: dict(specs[n], defaults={}) for n in ("restore_taxon_namespace_mutability", "reset_supplemental_mappings",
                                                        "_set_taxon_namespace")}, kinds, resolve)
    scan.resolve_kind = resolve_kind
    scan.compile()
    out = [HEADER]
    out.append("(* attributes resolving to a container bound in the CLASS BODY: one object shared by every instance *)\n"
               "Local Open Scope string_scope.\nDefinition gmo_class_level : list String.string := [%s].\nLocal Close Scope string_scope."
               % "; ".join('"%s"' % a for a in shared))
    if shadowed:
        out.append("(* bound in the class body but rebound by __init__ before any use (harmless): %s *)" % ", ".join(shadowed))
    out.append("(* bound by __init__ before any use (instance level): %s *)" % ", ".join(bound))
    out.append("Section RoutesMapperObj.\nVariable lower : str -> str.")
    done = {}
    for name, _ in PLAN:
        if name not in fns:
            raise Unsupported("method %s not found" % name)
        m = MO(name, fns[name], specs[name], dict(done), kinds, resolve)
        m.resolve_kind = resolve_kind
        out.append("(* %s.%s  (%s) *)\n%s" % (CLASS, name, FILE, m.compile()))
        done[name] = specs[name]
    out.append("End RoutesMapperObj.\n")
    return "\n\n".join(out)


if __name__ == "__main__":
    import sys
    print(generate(sys.argv[1] if len(sys.argv) > 1 else "/repo"))
