"""C12 helper: canonical dump of the reachable Python object graph of datamodel objects.

The dump is the model's heap (coq/Model/C12Model.v): every reachable object with identity becomes
an entry  oid -> {"cls": class name, "kind": K, "body": [[key, val], ...]}  where key/val are
["P", prim_id] (immutable value, interned per Dumper) or ["R", oid].  Addresses never appear:
oids are assigned in order of first visit of a deterministic traversal.

Kinds (which copy algorithm `copy.deepcopy` dispatches to for the object; decided from the class,
fail closed on anything unknown):
  atomic     __deepcopy__ returns self (StateAlphabet, StateIdentity): opaque, body not followed
  list dict set tuple     builtin containers (a tuple that copy.deepcopy hands back unchanged is shown as
                          the copy's own object: one entry per tuple and side)
  plain      object with __dict__ and the default __reduce_ex__ copy (Bipartition)
  annotable  basemodel.Annotable.__deepcopy__ (Tree, Node, Edge, TreeList, CharacterMatrix, ...)
  annset     basemodel.AnnotationSet.__deepcopy__
  taxon      taxonmodel.Taxon.__deepcopy__
  namespace  taxonmodel.TaxonNamespace.__deepcopy__
  cdict      container.OrderedCaselessDict.__deepcopy__ (body = items(), original-case keys)
"""
import types

KINDS = ["atomic", "list", "dict", "set", "tuple", "plain", "annotable", "annset", "taxon",
         "namespace", "cdict"]

PRIM_NONE, PRIM_FALSE, PRIM_TRUE = 0, 1, 2


class Unsupported(Exception):
    """object shape outside the model (reported, never silently dropped)"""


def _known_deepcopy_kinds():
    from dendropy.datamodel import basemodel, taxonmodel, charmatrixmodel, charstatemodel
    from dendropy.datamodel import treecollectionmodel
    from dendropy.datamodel.treemodel import _tree, _node, _edge
    from dendropy.utility import container
    A = "annotable"
    table = {
        basemodel.Annotable.__deepcopy__: A,
        _tree.Tree.__deepcopy__: A,
        _node.Node.__deepcopy__: A,
        _edge.Edge.__deepcopy__: A,
        treecollectionmodel.TreeList.__deepcopy__: A,
        charmatrixmodel.CharacterMatrix.__deepcopy__: A,
        charmatrixmodel.CharacterType.__deepcopy__: A,
        charmatrixmodel.CharacterSubset.__deepcopy__: A,
        basemodel.AnnotationSet.__deepcopy__: "annset",
        taxonmodel.Taxon.__deepcopy__: "taxon",
        taxonmodel.TaxonNamespace.__deepcopy__: "namespace",
        container.OrderedCaselessDict.__deepcopy__: "cdict",
        charstatemodel.StateAlphabet.__deepcopy__: "atomic",
        charstatemodel.StateIdentity.__deepcopy__: "atomic",
    }
    return table


_TABLE = None

# the wrappers `def __deepcopy__(self, memo=None): return basemodel.Annotable.__deepcopy__(self, memo=memo)`
# are accepted as `annotable` only while their source still is exactly that one statement
_WRAPPER_OK = {}


def _is_plain_wrapper(fn):
    import ast
    import inspect
    import textwrap
    if fn in _WRAPPER_OK:
        return _WRAPPER_OK[fn]
    ok = False
    try:
        tree = ast.parse(textwrap.dedent(inspect.getsource(fn)))
        body = [s for s in tree.body[0].body
                if not (isinstance(s, ast.Expr) and isinstance(getattr(s, "value", None), ast.Constant))]
        if len(body) == 1 and isinstance(body[0], ast.Return):
            ok = ast.unparse(body[0].value).replace(" ", "") in (
                "basemodel.Annotable.__deepcopy__(self,memo=memo)",)
    except Exception:
        ok = False
    _WRAPPER_OK[fn] = ok
    return ok


def kind_of(x):
    global _TABLE
    if _TABLE is None:
        _TABLE = _known_deepcopy_kinds()
    from dendropy.datamodel import basemodel
    t = type(x)
    if t is list:
        return "list"
    if t is dict:
        return "dict"
    if t in (set, frozenset):
        return "set"
    if t is tuple:
        return "tuple"
    dc = getattr(t, "__deepcopy__", None)
    if dc is not None:
        k = _TABLE.get(dc)
        if k is None:
            raise Unsupported("class %s has a __deepcopy__ the model does not know: %r" % (t.__name__, dc))
        if k == "annotable" and dc is not basemodel.Annotable.__deepcopy__ and not _is_plain_wrapper(dc):
            raise Unsupported("%s.__deepcopy__ no longer just delegates to Annotable.__deepcopy__" % t.__name__)
        return k
    if isinstance(x, (list, dict, set, frozenset, tuple)):
        raise Unsupported("container subclass %s without a known __deepcopy__" % t.__name__)
    if hasattr(t, "__slots__") or not hasattr(x, "__dict__"):
        raise Unsupported("object of class %s has no __dict__" % t.__name__)
    for nm in ("__reduce__", "__reduce_ex__", "__getstate__", "__setstate__", "__getnewargs__", "__getnewargs_ex__", "__copy__"):
        if nm in ("__copy__",):
            continue
        if getattr(t, nm, None) is not getattr(object, nm, None):
            raise Unsupported("class %s customises %s" % (t.__name__, nm))
    return "plain"


def is_prim(x):
    return x is None or isinstance(x, (bool, int, float, complex, str, bytes, type, types.FunctionType,
                                       types.BuiltinFunctionType, types.MethodType, range))


FIXED_NAMES = ["_annotations", "_item_list", "_item_set", "target", "is_attribute", "_value", "_taxa",
               # second wave (Model/C12Shallow.v): attribute names of the shallow-copy templates, prim ids 10..20
               "_label", "_taxon_namespace", "automigrate_taxon_namespace_on_assignment", "tree_type", "_trees",
               "comments", "_taxon_sequence_map", "character_types", "character_subsets", "state_alphabets",
               "_default_state_alphabet"]
INT_BASE = 1000          # prim id of the int n (0 <= n < INT_LIMIT) is INT_BASE + n
INT_LIMIT = 1 << 20
OTHER_BASE = INT_BASE + INT_LIMIT


class Dumper:
    """Assigns oids/prim ids over several dumps so identity classes are comparable between them.

    prim ids: 0 None, 1 False, 2 True, 3.. the field names the model knows (FIXED_NAMES),
    INT_BASE+n for small non-negative ints (list indices), everything else interned from OTHER_BASE."""

    def __init__(self):
        self.oid = {}        # id(obj) -> oid
        self.keep = []       # keeps every numbered object alive (ids stay unique)
        self.prims = {}      # (type name, repr) -> prim id
        self.prim_vals = {}
        self.prims[("NoneType", "None")] = PRIM_NONE
        self.prims[("bool", "False")] = PRIM_FALSE
        self.prims[("bool", "True")] = PRIM_TRUE
        for n, name in enumerate(FIXED_NAMES):
            self.prims[("str", repr(name))] = 3 + n
        self.next_other = OTHER_BASE
        self.tuple_holders = {}
        self.n0 = None       # number of source objects (set after the first dump)

    def prim(self, v):
        if isinstance(v, (types.FunctionType, types.BuiltinFunctionType, types.MethodType)):
            key = ("function", getattr(v, "__qualname__", repr(type(v))))
        elif isinstance(v, type):
            key = ("type", v.__module__ + "." + v.__qualname__)
        elif isinstance(v, float):
            key = ("float", v.hex() if v == v else "nan")
        elif type(v) is int and 0 <= v < INT_LIMIT:
            return INT_BASE + v
        else:
            key = (type(v).__name__, repr(v))
        if key not in self.prims:
            self.prims[key] = self.next_other
            self.prim_vals[self.next_other] = key
            self.next_other += 1
        return self.prims[key]

    def number(self, x):
        i = self.oid.get(id(x))
        if i is None:
            i = len(self.keep)
            self.oid[id(x)] = i
            self.keep.append(x)
        return i

    def known(self, x):
        return self.oid.get(id(x))

    def dump(self, roots, skip_attrs=()):
        """Returns (heap, root_vals). heap: {oid: {"cls","kind","body"}} for every object reachable
        from `roots` (tuples are given a fresh oid per occurrence).  `skip_attrs`: attribute names
        not followed (documented back references such as `extraction_source`)."""
        heap = {}
        queued = set()
        stack = []
        new = []

        def v(y):
            if is_prim(y):
                return ["P", self.prim(y)]
            if type(y) is tuple:
                # A tuple is an object with identity (copy.deepcopy memoises it), except that deepcopy
                # hands back the very same tuple when none of its elements changed (all atomic, or
                # memo-seeded): such a tuple reached from the copy is shown as the copy's own object.
                # Holder key: (the tuple, side of the referring object: 0 source / 1 copy).
                side = 0 if (self.n0 is None or cur[0] < self.n0) else 1
                key = (id(y), side)
                holder = self.tuple_holders.get(key)
                if holder is None:
                    holder = self.tuple_holders[key] = ["tuple-occurrence", y]
                j = self.number(holder)
                if j not in heap and j not in queued:
                    queued.add(j)
                    new.append((j, y))
                return ["R", j]
            j = self.number(y)
            if j not in heap and j not in queued:
                queued.add(j)
                new.append((j, y))
            return ["R", j]

        cur = [-1, 0]
        root_vals = [v(r) for r in roots]
        stack.extend(reversed(new))
        del new[:]
        while stack:
            i, x = stack.pop()
            if i in heap:
                continue
            k = kind_of(x)
            body = []
            cur[0], cur[1] = i, 0
            cls = type(x).__name__
            if k == "atomic":
                pass
            elif k in ("list", "tuple"):
                for n, y in enumerate(x):
                    body.append([["P", self.prim(n)], v(y)])
            elif k == "dict":
                for kk, vv in x.items():
                    a = v(kk)
                    body.append([a, v(vv)])
            elif k == "cdict":
                if sorted(x.__dict__) != ["_ordered_keys"] or len(x._ordered_keys) != dict.__len__(x):
                    raise Unsupported("OrderedCaselessDict with unexpected state")
                for kk, vv in x.items():
                    if not isinstance(kk, str):
                        raise Unsupported("OrderedCaselessDict key is not a str")
                    body.append([v(kk), v(vv)])
            elif k == "set":
                elems = list(x)
                if not all(is_prim(e) for e in elems):
                    raise Unsupported("raw set holding objects")
                elems.sort(key=lambda e: (type(e).__name__, repr(e)))
                for e in elems:
                    body.append([v(e), ["P", PRIM_NONE]])
            else:
                d = x.__dict__
                if isinstance(x, (list, dict, set, frozenset, tuple)):
                    raise Unsupported("container subclass %s" % cls)
                for name, y in d.items():
                    if name in skip_attrs:
                        continue
                    if k == "annset" and name == "_item_set" and type(y) is set and type(d.get("_item_list")) is list:
                        # the set of an AnnotationSet is listed in list order (only membership
                        # matters; iteration order of id-hashed members is not observable here)
                        lst = d["_item_list"]
                        if len(lst) != len(y) or any(e not in y for e in lst):
                            raise Unsupported("AnnotationSet list/set out of sync")
                        j = self.number(y)
                        if j not in heap:
                            queued.add(j)
                            heap[j] = {"cls": "set", "kind": "set",
                                       "body": [[v(e), ["P", PRIM_NONE]] for e in lst]}
                        body.append([["P", self.prim(name)], ["R", j]])
                        continue
                    body.append([["P", self.prim(name)], v(y)])
            heap[i] = {"cls": cls, "kind": k, "body": body}
            stack.extend(reversed(new))
            del new[:]
        return heap, root_vals


def reach_ids(heap, start_vals, skip=()):
    """naive reachability over a dumped heap (used by the oracle): set of oids"""
    seen = set()
    todo = [v[1] for v in start_vals if v[0] == "R"]
    while todo:
        i = todo.pop()
        if i in seen or i in skip:
            continue
        seen.add(i)
        for a, b in heap[i]["body"]:
            if a[0] == "R":
                todo.append(a[1])
            if b[0] == "R":
                todo.append(b[1])
    return seen


def canonical(heap, root_val, stop=()):
    """Renumber the part of `heap` reachable from root_val by order of first visit (depth first, body
    order) -> JSON-able value that is equal for two dumps iff the reachable graphs are isomorphic with
    equal prims (identity classes, never addresses).  Objects in `stop` are opaque leaves named by
    their (dump-stable) oid: what lies behind them is not part of the value."""
    ren = {}
    out = []
    if root_val[0] != "R":
        return [root_val, []]
    stack = [root_val[1]]
    while stack:
        j = stack.pop()
        if j in ren or j in stop:
            continue
        ren[j] = len(ren)
        refs = []
        for a, b in heap[j]["body"]:
            if a[0] == "R":
                refs.append(a[1])
            if b[0] == "R":
                refs.append(b[1])
        for r in reversed(refs):
            if r not in ren:
                stack.append(r)
    inv = sorted(ren, key=lambda j: ren[j])

    def rv(v):
        if v[0] != "R":
            return v
        return ["S", v[1]] if v[1] in stop else ["R", ren[v[1]]]
    for j in inv:
        o = heap[j]
        out.append([o["cls"], o["kind"], [[rv(a), rv(b)] for a, b in o["body"]]])
    return [rv(root_val), out]
