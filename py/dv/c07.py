"""C07 - re-rooting and re-orienting never change the underlying unrooted tree.

Correspondence: every operation is run on the real dendropy Tree; the result tree is dumped
(node identities, child order, edge lengths in dyadic units, rooting flag, exception class) and
compared inside Coq with the specification function of coq/Model/C07Model.v.
Oracle: naive, independent statement of the property on the implementation's result."""
import itertools
import json
import random
import time

from dv import core, trees
from dv.core import cz, cbool, clist, copt, cpair

HEADER = ("From DV Require Import Model.PyPrims Model.Tree Model.C07Model.\n"
          "From Coq Require Import ZArith. Open Scope Z_scope.")

FRESH = 10 ** 6
PATTERNS = ["unit", "equal", "zeros", "int", "dyadic", "none", "mixed"]
UNIFORM = ["unit", "equal", "zeros", "int", "dyadic", "none"]
# wave 8: zero-length TERMINAL edges (identical sequences: zero-length cherries / polytomies, so that the most
# distant pair is tied and its deeper end sits on a zero-length edge) over positive or zero internal edges
ZLEAF = ["zleaf", "zleafint"]


# ---------------------------------------------------------------------------------------
# case generation
# ---------------------------------------------------------------------------------------

def apply_pattern(rng, t, pattern, root_len=None):
    """overwrite the edge lengths (even numbers of units, so that halves stay representable)"""
    const = rng.choice([256, 512, 1024, 3072])

    def one():
        if pattern == "none":
            return None
        if pattern == "unit":
            return 1024
        if pattern == "equal":
            return const
        if pattern == "zeros":
            return 0
        if pattern == "int":
            return 1024 * rng.randint(0, 4)
        if pattern == "mixed":
            return None if rng.random() < 0.35 else rng.choice([0, 512, 1024, 1536, 2048])
        return rng.choice([0, 256, 512, 1024, 1024, 1536, 2048, 3072, 5120])

    for nd in trees.preorder(t):
        nd["len"] = one()
    if pattern in ZLEAF:
        for nd in trees.preorder(t):
            if not nd["kids"]:
                nd["len"] = 0 if rng.random() < 0.75 else rng.choice([512, 1024, 2048])
            elif pattern == "zleafint":
                nd["len"] = 1024 * rng.choice([0, 1, 1, 2, 2, 3])
            else:
                nd["len"] = rng.choice([0, 256, 512, 1024, 1024, 1536, 2048, 3072])
    t["len"] = root_len
    return t


def renumber(t):
    for i, nd in enumerate(trees.preorder(t)):
        nd["id"] = i
    return t


def strip_root_unifurcation(t):
    while len(t["kids"]) == 1:
        t = t["kids"][0]
    return t


def random_tree(rng, nleaves, pattern, unif=0.0):
    t = trees.gen_tree(rng, nleaves, lengths="none", unifurcations=unif)
    t = strip_root_unifurcation(t)
    renumber(t)
    root_len = None
    if rng.random() < 0.25 and pattern != "none":
        root_len = rng.choice([512, 1024, 2048])
    elif rng.random() < 0.1:
        root_len = 1024
    return apply_pattern(rng, t, pattern, root_len)


def pick_lengths(rng, e):
    """(l1, l2) for reroot_at_edge on an edge of length e (units, may be None)"""
    k = rng.random()
    if e is None:
        return rng.choice([(None, None), (None, None), (0, 0), (1024, 512), (None, 0)])
    if k < 0.15:
        return (None, None)
    if k < 0.25:
        return (rng.choice([0, 512, 1024]), rng.choice([0, 256, 2048]))
    a = rng.choice([0, e, e // 2 - (e // 2) % 2, 2 * rng.randint(0, max(0, e // 2))])
    a = max(0, min(e, a))
    return (a, e - a)


def gen_op(rng, t, kind=None, node=None):
    nodes = trees.preorder(t)
    nd = node if node is not None else rng.choice(nodes)
    kind = kind or rng.choice(["Reseed", "Reseed", "ToOutgroup", "RerootNode", "RerootEdge", "RerootEdge",
                               "Midpoint", "Midpoint", "Ladderize", "Reorder", "Rotate", "Reorient",
                               "Suppress", "CollapseBasal"])
    b = lambda: rng.random() < 0.5
    if kind == "Reseed":
        return ["Reseed", nd["id"], b(), b(), b()]
    if kind == "ToOutgroup":
        return ["ToOutgroup", nd["id"], b(), b()]
    if kind == "RerootNode":
        return ["RerootNode", nd["id"], b(), b(), b()]
    if kind == "RerootEdge":
        l1, l2 = pick_lengths(rng, nd["len"])
        return ["RerootEdge", nd["id"], l1, l2, b(), b()]
    if kind == "Midpoint":
        return ["Midpoint", b(), b(), b()]
    if kind == "Ladderize":
        return ["Ladderize", b()]
    if kind == "Reorder":
        return ["Reorder", b()]
    if kind == "Rotate":
        return ["Rotate", rng.randrange(10 ** 6)]
    if kind == "Reorient":
        return ["Reorient", rng.randrange(10 ** 6), b()]
    if kind == "Suppress":
        return ["Suppress", b()]
    if kind == "CollapseBasal":
        return ["CollapseBasal", b()]
    raise ValueError(kind)


REFUSED_KINDS = ["EdgeSeed", "EdgeSeed", "OutgroupSeed", "ReseedForeignRoot", "RerootForeignRoot", "NoneArg",
                 "ReseedSelf", "RerootSelf"]


def gen_refused(rng, t):
    """a call the method refuses (documented / obvious argument error) or documents as changing nothing:
    reroot_at_edge on the SEED edge (no tail node: AttributeError), to_outgroup_position(seed) (AssertionError),
    reseed_at / reroot_at_node with the seed node of ANOTHER tree (returns at once), a None argument
    (AttributeError), reseed_at(seed) / reroot_at_node(seed) with every clean-up switched off"""
    b = lambda: rng.random() < 0.5
    k = rng.choice(REFUSED_KINDS)
    if k == "EdgeSeed":
        l1, l2 = rng.choice([(None, None), (512, 512), (0, 1024), (1024, 0), (256, 3072), (2048, None)])
        return ["EdgeSeed", l1, l2, b(), b()]
    if k == "OutgroupSeed":
        return ["OutgroupSeed", b(), b()]
    if k == "ReseedForeignRoot":
        return ["ReseedForeignRoot", b(), b(), b()]
    if k == "RerootForeignRoot":
        return ["RerootForeignRoot", b(), b()]
    if k == "NoneArg":
        return ["NoneArg", rng.choice(["reseed_at", "reroot_at_node", "reroot_at_edge", "to_outgroup_position"])]
    return [k]


def gen_zleaf_midpoint(rng, maxleaves=12):
    """midpoint rooting of a tree with zero-length terminal edges: ties in the maximal pair, and the deeper of
    the two most distant leaves on a zero-length edge"""
    n = min(rng.choice([3, 4, 4, 5, 5, 6, 7, 8, 10, maxleaves]), maxleaves)
    pattern = rng.choice(ZLEAF)
    t = random_tree(rng, n, pattern, rng.choice([0.0, 0.0, 0.0, 0.15]))
    return {"tree": t, "rooted": rng.choice([None, True, False]), "pattern": pattern,
            "op": gen_op(rng, t, "Midpoint"), "fresh": FRESH}


def gen_refused_case(rng, maxleaves=12):
    """history: a refused call, then (the tree must be exactly as it was) a further re-rooting"""
    n = min(rng.choice([2, 3, 3, 4, 4, 5, 6, 7, 8, 10, maxleaves]), maxleaves)
    pattern = rng.choice(PATTERNS + ZLEAF + ["unit", "int", "dyadic"])
    t = random_tree(rng, n, pattern, rng.choice([0.0, 0.0, 0.0, 0.15]))
    if t["len"] is None and pattern != "none" and rng.random() < 0.5:
        t["len"] = rng.choice([512, 1024, 2048])      # a seed edge length that the refused call must not overwrite
    kind = rng.choice(["Reseed", "Reseed", "RerootNode", "RerootEdge", "RerootEdge", "Midpoint", "ToOutgroup",
                       "Reorient", "Ladderize"])
    return {"tree": t, "rooted": rng.choice([None, True, False]), "pattern": pattern,
            "op": gen_op(rng, t, kind), "fresh": FRESH, "refused": gen_refused(rng, t)}


def gen_case(rng, maxleaves=12):
    k = rng.random()
    if k < 0.08:
        return gen_zleaf_midpoint(rng, maxleaves)
    if k < 0.18:
        return gen_refused_case(rng, maxleaves)
    n = rng.choice([2, 3, 3, 4, 4, 5, 5, 6, 6, 7, 8, 9, 10, 12, maxleaves])
    n = min(n, maxleaves)
    pattern = rng.choice(PATTERNS + ["unit", "equal", "int", "dyadic"])
    unif = rng.choice([0.0, 0.0, 0.0, 0.15])
    t = random_tree(rng, n, pattern, unif)
    kind = None
    if rng.random() < 0.05:
        # a seed with a single child (outside the theorems' domain: re-seeding turns the old seed into
        # a taxon-less leaf); correspondence only.  to_outgroup_position / randomly_reorient are ordinary
        # cases here since repair 1c81f78b (before it they could leave the new seed below the detached old seed)
        t = renumber({"id": 0, "taxon": None, "label": None, "len": t["len"], "kids": [t]})
        t["kids"][0]["len"] = rng.choice([None, 512, 1024]) if pattern not in ("none",) else None
        kind = rng.choice(["Reseed", "RerootNode", "RerootEdge", "Midpoint", "Ladderize", "Rotate", "Suppress",
                           "CollapseBasal", "Reorder", "ToOutgroup", "ToOutgroup", "Reorient"])
    return {"tree": t, "rooted": rng.choice([None, True, False]), "pattern": pattern,
            "op": gen_op(rng, t, kind), "fresh": FRESH}


def exhaustive_cases(rng, maxleaves=6):
    """every node / edge / outgroup of every shape with <= maxleaves leaves; flags, rooting and the
    length pattern are drawn per case"""
    for n in range(2, maxleaves + 1):
        for shape in trees.all_shapes(n):
            base = trees.shape_to_tree(shape)
            nn = len(trees.preorder(base))
            for kind in ("Reseed", "ToOutgroup", "RerootNode", "RerootEdge"):
                for i in range(nn):
                    pattern = rng.choice(PATTERNS)
                    t = apply_pattern(rng, trees.shape_to_tree(shape), pattern,
                                      rng.choice([None, None, None, 1024]))
                    nd = trees.preorder(t)[i]
                    yield {"tree": t, "rooted": rng.choice([None, True, False]), "pattern": pattern,
                           "op": gen_op(rng, t, kind, nd), "fresh": FRESH}
            for pattern in UNIFORM[:-1]:
                t = apply_pattern(rng, trees.shape_to_tree(shape), pattern, rng.choice([None, None, 2048]))
                yield {"tree": t, "rooted": rng.choice([None, True, False]), "pattern": pattern,
                       "op": gen_op(rng, t, "Midpoint"), "fresh": FRESH}
            for kind in ("Ladderize", "Reorder", "Rotate", "Reorient", "Reorient", "CollapseBasal", "Midpoint"):
                pattern = rng.choice(PATTERNS)
                t = apply_pattern(rng, trees.shape_to_tree(shape), pattern, rng.choice([None, None, 2048]))
                yield {"tree": t, "rooted": rng.choice([None, True, False]), "pattern": pattern,
                       "op": gen_op(rng, t, kind), "fresh": FRESH}


def fixed_cases():
    """the inputs named in the property text and the findings (always run first)"""
    def nw(shape, lens, root_len=None):
        t = trees.shape_to_tree(shape)
        for nd, e in zip(trees.preorder(t), lens):
            nd["len"] = e
        t["len"] = root_len
        return t
    u = 1024
    out = []
    bal = [[[], []], [[], []]]          # ((A,B),(C,D))
    star3 = [[], [], []]
    for rooted in (None, True, False):
        for flags in itertools.product([False, True], repeat=3):
            out.append({"tree": nw(bal, [None, u, u, u, u, u, u]), "rooted": rooted, "pattern": "unit",
                        "op": ["Midpoint"] + list(flags), "fresh": FRESH})
            out.append({"tree": nw(star3, [None, u, u, u]), "rooted": rooted, "pattern": "unit",
                        "op": ["Midpoint"] + list(flags), "fresh": FRESH})
            out.append({"tree": nw(bal, [None, u, u, u, u, u, u]), "rooted": rooted, "pattern": "unit",
                        "op": ["Reseed", 0] + list(flags), "fresh": FRESH})
        # mixed None lengths: the basal collapse used to swallow None + x (repaired by 1fc3f136)
        out.append({"tree": nw(bal, [None, None, u, u, 2 * u, u, u]), "rooted": rooted, "pattern": "mixed",
                    "op": ["Reseed", 0, False, True, True], "fresh": FRESH})
        out.append({"tree": nw(bal, [None, None, u, u, 2 * u, u, u]), "rooted": rooted, "pattern": "mixed",
                    "op": ["CollapseBasal", True], "fresh": FRESH})
        out.append({"tree": nw([[], [[], []]], [None, u, u, u, u]), "rooted": rooted, "pattern": "unit",
                    "op": ["ToOutgroup", 1, False, True], "fresh": FRESH})
        # wave 8: zero-length cherry on the deeper end of the longest path, (((A:0,B:0):2,E:1):1,(C:2,D:2):x)
        zc = [[[[], []], []], [[], []]]
        for x in (u // 2, u):
            out.append({"tree": nw(zc, [None, u, 2 * u, 0, 0, u, x, 2 * u, 2 * u]), "rooted": rooted,
                        "pattern": "zleaf", "op": ["Midpoint", rooted is True, rooted is not False, True],
                        "fresh": FRESH})
        # a refused call (seed edge / seed as outgroup), then a proper re-rooting of the same tree
        for ref in (["EdgeSeed", u // 2, u // 2, False, True], ["OutgroupSeed", False, True]):
            out.append({"tree": nw(bal, [None, u, u, 2 * u, 3 * u, u, u], root_len=u if rooted else None),
                        "rooted": rooted, "pattern": "int", "op": ["RerootEdge", 4, u, 2 * u, False, True],
                        "fresh": FRESH, "refused": ref})
    return out


# ---------------------------------------------------------------------------------------
# running the implementation
# ---------------------------------------------------------------------------------------

class ScriptRng(object):
    """random source handed to randomly_reorient / randomly_rotate: draws come from a seeded
    generator and every draw is recorded at the level the library asks for it"""

    def __init__(self, seed):
        self.r = random.Random(seed)
        self.sampled = None
        self.perms = []          # (parent node id, [old index of the child now at position i])

    def sample(self, population, k):
        assert k == 1
        nd = self.r.choice(list(population))
        self.sampled = nd._dv_id
        return [nd]

    def shuffle(self, c):
        old = list(c)
        self.r.shuffle(c)
        pid = old[0]._parent_node._dv_id if old else None
        self.perms.append([pid, [old.index(x) for x in c]])

    def __getattr__(self, name):
        raise AssertionError("unexpected use of rng.%s" % name)


def label_ranks(ntaxa):
    """reorder() sorts by taxon label with '' for nodes without taxon: rank of '' is 0"""
    labels = sorted("t%d" % k for k in range(ntaxa))
    return {k: 1 + labels.index("t%d" % k) for k in range(ntaxa)}


def run_refused(case, tree, by_id, taxon_objs, ns, taxon_index):
    """the refused call of a history case: what it raised / returned and a full re-observation of the tree
    (pointer dump from the seed incl. the seed's own parent pointer and edge, every edge length, identity of
    every node's edge object, rooting flag)"""
    rop = case["refused"]
    k = rop[0]
    f = lambda x: None if x is None else x * trees.UNIT
    edges_before = {i: id(nd._edge) for i, nd in by_id.items()}
    keep = []
    r = {"exc": None, "msg": None, "returned": None}
    try:
        with core.alarm(20):
            if k == "EdgeSeed":
                ret = tree.reroot_at_edge(tree.seed_node.edge, length1=f(rop[1]), length2=f(rop[2]),
                                          update_bipartitions=rop[3], suppress_unifurcations=rop[4])
            elif k == "OutgroupSeed":
                ret = tree.to_outgroup_position(tree.seed_node, update_bipartitions=rop[1],
                                                suppress_unifurcations=rop[2])
            elif k in ("ReseedForeignRoot", "RerootForeignRoot"):
                other, _ = trees.build_dendropy(case["tree"], taxon_objs, is_rooted=case["rooted"], namespace=ns)
                keep.append(other)
                if k == "ReseedForeignRoot":
                    ret = tree.reseed_at(other.seed_node, update_bipartitions=rop[1],
                                         collapse_unrooted_basal_bifurcation=rop[2], suppress_unifurcations=rop[3])
                else:
                    ret = tree.reroot_at_node(other.seed_node, update_bipartitions=False,
                                              suppress_unifurcations=rop[1],
                                              collapse_unrooted_basal_bifurcation=rop[2])
            elif k == "NoneArg":
                ret = getattr(tree, rop[1])(None)
            elif k == "ReseedSelf":
                ret = tree.reseed_at(tree.seed_node, update_bipartitions=False,
                                     collapse_unrooted_basal_bifurcation=False, suppress_unifurcations=False)
            elif k == "RerootSelf":
                ret = tree.reroot_at_node(tree.seed_node, update_bipartitions=False, suppress_unifurcations=False,
                                          collapse_unrooted_basal_bifurcation=False)
            else:
                raise RuntimeError("unknown refused op %r" % (rop,))
            r["returned"] = "seed" if ret is tree.seed_node else ("None" if ret is None else "other")
    except Exception as e:
        r["exc"] = core.exc_enum(e)
        r["msg"] = "%s: %s" % (type(e).__name__, str(e)[:100])
    dump, problems = trees.dump_dendropy(tree, taxon_index, trees.IdAlloc(case["fresh"] + 500000))
    seed = tree.seed_node
    if seed._parent_node is not None and "seed node has a parent" not in problems:
        problems.append("seed node has a parent")
    if seed._edge is not None and seed._edge.tail_node is not None:
        problems.append("seed edge has a tail node")
    for i, nd in by_id.items():
        if id(nd._edge) != edges_before[i]:
            problems.append("node %d has another edge object" % i)
    r["dump"], r["problems"], r["rooted"] = dump, problems, tree.is_rooted
    return r


def observe(case):
    import dendropy
    from dendropy.calculate.phylogeneticdistance import PhylogeneticDistanceMatrix as PDM
    spec = case["tree"]
    ntaxa = len(trees.leaves(spec))
    ns, taxon_objs = trees.make_namespace(ntaxa)
    tree, by_id = trees.build_dendropy(spec, taxon_objs, is_rooted=case["rooted"], namespace=ns)
    taxon_index = {id(t): k for k, t in enumerate(taxon_objs)}
    op = case["op"]
    kind = op[0]
    obs = {"script": None, "pair": None, "bip": None}
    upd = False
    enc_flags = None
    spy = []
    orig = PDM.max_pairwise_distance_taxa

    def spy_fn(self, *a, **k):
        r = orig(self, *a, **k)
        spy.append(r)
        return r

    if case.get("refused"):
        obs["refused"] = run_refused(case, tree, by_id, taxon_objs, ns, taxon_index)
    try:
        with core.alarm(20):
            if kind == "Reseed":
                _, n, upd, coll, supp = op
                tree.reseed_at(by_id[n], update_bipartitions=upd, collapse_unrooted_basal_bifurcation=coll,
                               suppress_unifurcations=supp)
                enc_flags = (supp, coll)
            elif kind == "ToOutgroup":
                _, n, upd, supp = op
                tree.to_outgroup_position(by_id[n], update_bipartitions=upd, suppress_unifurcations=supp)
                enc_flags = (supp, False)
            elif kind == "RerootNode":
                _, n, upd, supp, coll = op
                tree.reroot_at_node(by_id[n], update_bipartitions=upd, suppress_unifurcations=supp,
                                    collapse_unrooted_basal_bifurcation=coll)
                enc_flags = (supp, coll)
            elif kind == "RerootEdge":
                _, h, l1, l2, upd, supp = op
                f = lambda x: None if x is None else x * trees.UNIT
                tree.reroot_at_edge(by_id[h].edge, length1=f(l1), length2=f(l2), update_bipartitions=upd,
                                    suppress_unifurcations=supp)
                enc_flags = (supp, True)
            elif kind == "Midpoint":
                _, upd, supp, coll = op
                PDM.max_pairwise_distance_taxa = spy_fn
                try:
                    tree.reroot_at_midpoint(update_bipartitions=upd, suppress_unifurcations=supp,
                                            collapse_unrooted_basal_bifurcation=coll)
                finally:
                    PDM.max_pairwise_distance_taxa = orig
                    if spy and spy[0] is not None:
                        obs["pair"] = [taxon_index[id(x)] for x in spy[0]]
                enc_flags = (False, coll)
            elif kind == "Ladderize":
                tree.ladderize(ascending=op[1])
            elif kind == "Reorder":
                tree.reorder(ascending=op[1])
            elif kind == "Rotate":
                rng = ScriptRng(op[1])
                try:
                    tree.randomly_rotate(rng=rng)
                finally:
                    obs["script"] = [None, rng.perms]
            elif kind == "Reorient":
                rng = ScriptRng(op[1])
                upd = op[2]
                try:
                    tree.randomly_reorient(rng=rng, update_bipartitions=upd)
                finally:
                    obs["script"] = [rng.sampled, rng.perms]
                enc_flags = None   # encoding is computed before the final rotation; still valid as a set
                upd = False
            elif kind == "Suppress":
                tree.suppress_unifurcations(update_bipartitions=False)
            elif kind == "CollapseBasal":
                tree.collapse_basal_bifurcation(set_as_unrooted_tree=op[1])
            else:
                raise RuntimeError("unknown op %r" % (op,))
    except Exception as e:
        PDM.max_pairwise_distance_taxa = orig
        obs["res"] = ["Err", core.exc_enum(e)]
        obs["msg"] = "%s: %s" % (type(e).__name__, str(e)[:120])
        return obs
    alloc = trees.IdAlloc(case["fresh"])
    dump, problems = trees.dump_dendropy(tree, taxon_index, alloc)
    obs["res"] = ["Ok", dump, tree.is_rooted]
    obs["problems"] = problems
    if upd and enc_flags is not None:
        # the cached encoding must be the encoding of the tree as it is now
        try:
            have = sorted(set(b.split_bitmask for b in tree.bipartition_encoding))
            cl = tree.clone(depth=1)
            cl.encode_bipartitions(suppress_unifurcations=enc_flags[0],
                                   collapse_unrooted_basal_bifurcation=enc_flags[1])
            want = sorted(set(b.split_bitmask for b in cl.bipartition_encoding))
            obs["bip"] = [have, want]
        except Exception as e:
            obs["bip"] = ["Err", "%s: %s" % (type(e).__name__, str(e)[:100])]
    return obs


# ---------------------------------------------------------------------------------------
# oracle: the property, stated naively on the input tree and the implementation's result
# ---------------------------------------------------------------------------------------

def o_leafsets(t):
    """returns (leaf taxa list, list of leaf sets below every non-root node)"""
    sets = []

    def go(n, top):
        if not n["kids"]:
            s = frozenset([n["taxon"]])
            lv = [n["taxon"]]
        else:
            lv = []
            for k in n["kids"]:
                lv.extend(go(k, False))
            s = frozenset(lv)
        if not top:
            sets.append(s)
        return lv
    lv = go(t, True)
    return lv, sets


def o_usplits(t):
    lv, sets = o_leafsets(t)
    full = frozenset(lv)
    out = set()
    for s in sets:
        c = full - s
        if s and c:
            out.add(frozenset([s, c]))
    return out


def o_total(t):
    return sum(n["len"] for n in trees.preorder(t) if n["len"] is not None)


def o_paths(t):
    """taxon -> list of (node id, len) from the leaf up to (excluding) the root"""
    res = {}

    def go(n, above):
        here = above if n is t else [(n["id"], n["len"] or 0)] + above
        if not n["kids"]:
            res[n["taxon"]] = here
        for k in n["kids"]:
            go(k, here)
    go(t, [])
    return res


def o_dists(t):
    p = o_paths(t)
    out = {}
    for a, b in itertools.combinations(sorted(p, key=lambda x: (x is None, x)), 2):
        ia = {i for i, _ in p[a]}
        ib = {i for i, _ in p[b]}
        out[(a, b)] = sum(l for i, l in p[a] if i not in ib) + sum(l for i, l in p[b] if i not in ia)
    return out


def o_depths(t):
    return {a: sum(l for _i, l in path) for a, path in o_paths(t).items()}


def lengths_class(t):
    ls = [n["len"] for n in trees.preorder(t)[1:]]
    if all(l is None for l in ls):
        return "none"
    if all(l is not None for l in ls):
        return "all"
    return "mixed"


def same_tree(a, b):
    """None when the two dumps agree node by node (identity, taxon, length, child order), else where they differ"""
    for f in ("id", "taxon", "len"):
        if a[f] != b[f]:
            return "node %s: %s %r -> %r" % (b["id"], f, b[f], a[f])
    if len(a["kids"]) != len(b["kids"]):
        return "node %s: %d -> %d children" % (b["id"], len(b["kids"]), len(a["kids"]))
    for x, y in zip(a["kids"], b["kids"]):
        d = same_tree(x, y)
        if d:
            return d
    return None


SOFT = ("Reseed", "ToOutgroup", "Ladderize", "Reorder", "Rotate", "Reorient", "Suppress")
HARD = ("RerootNode", "RerootEdge", "Midpoint")


def parent_of_id(t, nid):
    for n in trees.preorder(t):
        for k in n["kids"]:
            if k["id"] == nid:
                return n["id"]
    return None


def oracle(case, obs):
    t = case["tree"]
    op = case["op"]
    kind = op[0]
    res = obs["res"]
    cls = lengths_class(t)
    nodes = {n["id"]: n for n in trees.preorder(t)}
    ref = obs.get("refused")
    if ref is not None:
        # a refused operation changes nothing: pointer structure from the seed (incl. the seed's own parent
        # pointer and edge), every edge length, every node's edge object, the rooting flag - except what the
        # method documents: the hard re-rooting sets is_rooted
        rk = case["refused"][0]
        want_exc = {"EdgeSeed": "AttrErr", "OutgroupSeed": "AssertErr", "NoneArg": "AttrErr"}.get(rk)
        if ref["exc"] != want_exc:
            return ("refused call %s: raised %s (%s), expected %s" % (case["refused"], ref["exc"], ref["msg"], want_exc),
                    "refused-op-other-error:" + rk)
        if ref["problems"]:
            return ("after the refused call %s [%s] the node structure is ill-formed: %s"
                    % (case["refused"], ref["msg"], ref["problems"][:3]), "refused-op-changed-pointers:" + rk)
        if same_tree(ref["dump"], t) is not None:
            return ("the refused call %s [%s] changed the tree: %s" % (case["refused"], ref["msg"], same_tree(ref["dump"], t)),
                    "refused-op-changed-tree:" + rk)
        want_flag = True if rk in ("RerootForeignRoot", "RerootSelf") else case["rooted"]
        if ref["rooted"] != want_flag:
            return ("the refused call %s [%s] changed is_rooted %r -> %r" % (case["refused"], ref["msg"], case["rooted"], ref["rooted"]),
                    "refused-op-changed-flag:" + rk)
        if want_flag != case["rooted"]:
            case = dict(case, rooted=want_flag)      # the rest of the history starts from the documented flag
    if res[0] == "Err":
        # exceptions are part of the behaviour compared with the model; the property itself speaks
        # about results.  Documented/obvious argument errors only.
        # Midpoint rooting of a tree with >= 2 leaves, every leaf with a taxon and every edge with a length is
        # inside the property ("after midpoint rooting the root lies half-way along a longest path ... also
        # when zero lengths create ties"): it has to root the tree, not to fail
        if (kind == "Midpoint" and cls == "all" and len(t["kids"]) >= 2
                and all(n["taxon"] is not None for n in trees.leaves(t))):
            return ("reroot_at_midpoint raised %s instead of rooting the tree (all edge lengths defined, >= 2 leaves)"
                    % obs.get("msg"), "midpoint-raised")
        return None
    out, rooted_after = res[1], res[2]
    if obs.get("problems"):
        return ("%s left an ill-formed node structure: %s" % (kind, obs["problems"][:2]), "ill-formed-pointers:" + kind)
    in_domain = len(t["kids"]) >= 2     # a seed with one child turns into a leaf when the tree is re-seeded
    if kind in ("Reseed", "RerootNode") and not nodes[op[1]]["kids"]:
        in_domain = False      # F19: reseed_at / reroot_at_node are documented to take an internal node
    if kind == "Reorient" and obs["script"] and obs["script"][0] is not None:
        pass
    edge_hyp = True
    if kind == "RerootEdge":
        e = nodes[op[1]]["len"]
        edge_hyp = ((op[2] or 0) + (op[3] or 0) == (e or 0))
    # ---- invariants ----
    if in_domain:
        lv0, _ = o_leafsets(t)
        lv1, _ = o_leafsets(out)
        if sorted(lv0, key=str) != sorted(lv1, key=str):
            return ("%s changed the leaf taxa: %s -> %s" % (kind, lv0, lv1), "leaf-set:" + kind)
        if o_usplits(t) != o_usplits(out):
            return ("%s changed the set of unrooted splits" % kind, "usplits:" + kind)
        scale = 1
        if edge_hyp:
            tl0, tl1 = o_total(t), o_total(out)
            d0, d1 = o_dists(t), o_dists(out)
            if tl0 != tl1 or d0 != d1:
                what = "total length %s -> %s" % (tl0 * trees.UNIT, tl1 * trees.UNIT) if tl0 != tl1 else \
                    "leaf-to-leaf distances changed, e.g. %s" % ([(k, d0[k] * trees.UNIT, d1.get(k, 0) * trees.UNIT) for k in d0 if d0[k] != d1.get(k)][:2],)
                # (mixed None / defined lengths are no exception since fix 1fc3f136)
                return ("%s (edge lengths: %s): %s" % (kind, cls, what), "lengths:" + kind)
    # ---- rooting flag ----
    r0 = case["rooted"]
    if kind in HARD and rooted_after is not True:
        return ("%s left is_rooted = %r" % (kind, rooted_after), "hard-not-rooted:" + kind)
    if kind in SOFT and rooted_after != r0:
        if r0 is None and rooted_after is False:
            return ("%s (documented as not changing the rooting state) turned an undefined rooting (None) "
                    "into is_rooted=False" % kind, "soft-op-none-rooting-becomes-false")
        return ("%s changed is_rooted %r -> %r" % (kind, r0, rooted_after), "soft-flag:" + kind)
    if kind == "CollapseBasal" and not op[1] and rooted_after != r0:
        return ("collapse_basal_bifurcation(set_as_unrooted_tree=False) changed is_rooted", "collapse-flag")
    # ---- specific claims ----
    if kind == "ToOutgroup":
        # the outgroup is the first child of the new root; with suppress_unifurcations an outgroup that is itself
        # a unifurcation is merged into the end of its one-child chain, which then stands in its place; when the
        # outgroup's parent is a unifurcating seed that is suppressed too, the outgroup clade IS the new root
        first = nodes[op[1]]
        if op[3]:
            while len(first["kids"]) == 1:
                first = first["kids"][0]
        par = parent_of_id(t, op[1])
        root_gone = op[3] and par is not None and par == t["id"] and len(t["kids"]) == 1
        if root_gone:
            if out["id"] != first["id"]:
                return ("to_outgroup_position: the seed was a unifurcation above outgroup node %d and was suppressed, "
                        "but the outgroup clade is not the new root" % op[1], "outgroup-not-first")
        elif not out["kids"] or out["kids"][0]["id"] != first["id"]:
            return ("to_outgroup_position: outgroup node %d is not the first child of the root" % op[1],
                    "outgroup-not-first")
    if len(t["kids"]) < 2:
        return None
    if kind == "RerootEdge":
        l1, l2 = op[2], op[3]
        head = nodes[op[1]]
        hl, _ = o_leafsets(head)
        dep_new = o_depths(out)
        dep_head = o_depths(head)
        if out["id"] != case["fresh"] or len(out["kids"]) != 2:
            return ("reroot_at_edge: the root is not a new node of out-degree two", "edge-root-shape")
        # towards the old head: length2 ; towards the old tail: length1 (child order is not prescribed)
        sides = [sorted(o_leafsets(k)[0], key=str) for k in out["kids"]]
        if sorted(hl, key=str) not in sides:
            return ("reroot_at_edge: no child of the new root carries exactly the leaves below the old head", "edge-position-sides")
        for a in hl:
            if dep_new[a] != (l2 or 0) + dep_head[a]:
                return ("reroot_at_edge: leaf t%s below the old head is at %s from the new root, expected length2 + %s"
                        % (a, dep_new[a] * trees.UNIT, dep_head[a] * trees.UNIT), "edge-position-head")
        # every leaf on the tail side: distance to the root = length1 + (distance to the old tail node)
        if edge_hyp:
            d0 = o_dists(t)
            a = hl[0]
            for b in dep_new:
                if b in hl:
                    continue
                key = (a, b) if (a, b) in d0 else (b, a)
                want = d0[key] - dep_head[a] - (head["len"] or 0) + (l1 or 0)
                if dep_new[b] != want:
                    return ("reroot_at_edge: leaf t%s on the tail side is at %s from the new root, expected %s"
                            % (b, dep_new[b] * trees.UNIT, want * trees.UNIT), "edge-position-tail")
    if kind == "Midpoint":
        d1 = o_dists(out)
        dep = o_depths(out)
        if d1:
            mx = max(d1.values())
            ok = any(d == mx and 2 * dep[a] == mx and 2 * dep[b] == mx for (a, b), d in d1.items())
            if not ok:
                return ("reroot_at_midpoint: no pair of most distant leaves (distance %s) is equidistant from the root"
                        % (mx * trees.UNIT,), "midpoint-not-equidistant")
            if obs["pair"]:
                a, b = obs["pair"]
                key = (a, b) if (a, b) in d1 else (b, a)
                if d1[key] != mx or 2 * dep[a] != mx or 2 * dep[b] != mx:
                    return ("reroot_at_midpoint: the pair the method chose is not equidistant from the root",
                            "midpoint-chosen-pair")
    if obs.get("bip") is not None:
        if obs["bip"][0] == "Err" or obs["bip"][0] != obs["bip"][1]:
            return ("%s(update_bipartitions=True): cached split bitmasks differ from a fresh encoding: %s"
                    % (kind, obs["bip"]), "stale-bipartitions:" + kind)
    return None


# ---------------------------------------------------------------------------------------
# Coq terms
# ---------------------------------------------------------------------------------------

def c_ob(x):
    return copt(x, cbool)


def c_perm(p):
    return clist([core.cnat(j) for j in p])


def c_script(perms):
    return clist([cpair(cz(pid), c_perm(p)) for pid, p in perms if pid is not None])


def c_op(case, obs):
    op = case["op"]
    k = op[0]
    fr = cz(case["fresh"])
    if k == "Reseed":
        return "(OReseed %s %s %s %s)" % (cz(op[1]), cbool(op[2]), cbool(op[3]), cbool(op[4]))
    if k == "ToOutgroup":
        return "(OToOutgroup %s %s %s)" % (cz(op[1]), cbool(op[2]), cbool(op[3]))
    if k == "RerootNode":
        return "(ORerootNode %s %s %s %s)" % (cz(op[1]), cbool(op[2]), cbool(op[3]), cbool(op[4]))
    if k == "RerootEdge":
        return "(ORerootEdge %s %s %s %s %s %s)" % (cz(op[1]), copt(op[2], cz), copt(op[3], cz), cbool(op[4]), cbool(op[5]), fr)
    if k == "Midpoint":
        pair = obs.get("pair")
        cp = "None" if not pair else "(Some (%s, %s))" % (copt(pair[0], cz), copt(pair[1], cz))
        return "(OMidpoint %s %s %s %s %s)" % (cp, cbool(op[1]), cbool(op[2]), cbool(op[3]), fr)
    if k == "Ladderize":
        return "(OLadderize %s)" % cbool(op[1])
    if k == "Reorder":
        ranks = label_ranks(len(trees.leaves(case["tree"])))
        return "(OReorder %s %s)" % (cbool(op[1]), clist([cpair(cz(a), cz(b)) for a, b in sorted(ranks.items())]))
    if k == "Rotate":
        return "(ORotate %s)" % c_script(obs["script"][1])
    if k == "Reorient":
        sc = obs["script"]
        return "(OReorient %s %s %s)" % (copt(sc[0], cz), cbool(op[2]), c_script(sc[1]))
    if k == "Suppress":
        return "OSuppress"
    if k == "CollapseBasal":
        return "(OCollapseBasal %s)" % cbool(op[1])
    raise ValueError(op)


def to_coq(case, obs):
    res = obs["res"]
    if res[0] == "Err":
        exp = "(Err %s)" % res[1]
    else:
        exp = "(Ok (%s, %s))" % (trees.c_tree(res[1]), c_ob(res[2]))
    # history cases: the refused call leaves the tree as it was (oracle clause), so the model is run on the input
    # tree; a refused HARD re-rooting has set the flag
    r0 = True if (case.get("refused") or [None])[0] in ("RerootForeignRoot", "RerootSelf") else case["rooted"]
    return "(mkCase %s %s %s %s)" % (trees.c_tree(case["tree"]), c_ob(r0), c_op(case, obs), exp)


def nontrivial(case, obs):
    return obs["res"][0] == "Ok" and obs["res"][1] != case["tree"]


# ---------------------------------------------------------------------------------------

def search(ctx, budget_s):
    t0 = time.time()
    rng = random.Random(ctx.seed + 707)
    n = 0
    for case in itertools.chain(fixed_cases(), exhaustive_cases(rng, 5), (gen_case(rng, 20) for _ in range(10 ** 6))):
        if time.time() - t0 > budget_s:
            break
        obs = observe(case)
        v = oracle(case, obs)
        n += 1
        if v:
            ctx.violation(v[0], {"case": case, "observed": obs}, key=v[1])
            if ctx.violations:
                return
    ctx.notes.append("search: %d further cases through the oracle, no unlisted violation" % n)


def run(tier, seed, replay=None):
    ctx = core.Ctx("C07", tier, seed)
    ctx.assumptions = [
        "coq/Model/C07Model.v is a specification-level model (pure functions on id-carrying rose trees) of the "
        "re-rooting methods; it is tied to the source by comparing, for every case, the dump of the real tree "
        "after the real call (node identities, child order, every edge length, rooting flag, exception class) "
        "with the model's result inside Coq",
        "edge lengths are exact dyadics (even multiples of 2^-10); binary64 rounding is outside the model",
        "the most distant taxon pair used by reroot_at_midpoint (iteration order of a set hashed by id()) and the "
        "draws of the random source are inputs of the model, recorded from the implementation",
        "statement-level pointer manipulation (parent pointers, edge objects) is the subject of C03, not modelled here",
        "translator tie for reroot_at_midpoint: coq/Gen/Midpoint.v is compiled from the method's AST by "
        "py/dv/gen_midpoint.py and proved equal to the model (Props/C07Gen.v); trusted there: the Python semantics "
        "stated in coq/Model/C07GenMidPrims.v (node references as parent-pointer paths, identity = id, the "
        "distance-matrix queries / reseed_at / update_bipartitions as interface operations "
        "given by C07Model's functions; Node.distance_from_root is compiled too since wave 8 - "
        "gen_distance_from_root, proved equal to C07Model.dfr for every mixture of None / zero / non-zero "
        "lengths, Props/C07Gen.v section 3); the pointer block of the method (edge split) is one operation there, but "
        "its statements are compiled one by one over the heap (Gen/Mutators.v Tree_reroot_at_midpoint__edge_split) "
        "and proved equal to that operation (Props/C07Gen.v section 2); trusted: both translators cut out the same "
        "statements (one locator, dv.gen_mutators.pointer_block)",
    ]
    if replay:
        r = json.load(open(replay))["replay"]
        case = r["case"]
        obs = observe(case)
        print("observed:", json.dumps(obs)[:2000])
        print("oracle:", oracle(case, obs))
        return 0
    ok = core.proof_stage(ctx, ["Props/C07.vo"])
    # translator tie: Gen/Midpoint.v (py/dv/gen_midpoint.py, regenerated from Tree.reroot_at_midpoint on every run)
    # is proved equal to C07Model.midpoint_core; the property theorems are restated for the generated code
    ok = core.proof_stage(ctx, ["Props/C07Gen.vo"], props_file="Props/C07Gen.v", gen_needed=("Midpoint", "Mutators")) and ok
    if not ok:
        core.broken_proof(ctx, search)
    cases = fixed_cases()
    if tier == "quick":
        cases += [gen_case(ctx.rng, 14) for _ in range(700)]
        cases += [gen_case(ctx.rng, 40) for _ in range(40)]
        ex = list(exhaustive_cases(ctx.rng, 4))
        cases += ex
    else:
        cases += list(exhaustive_cases(ctx.rng, 6))
        cases += list(exhaustive_cases(ctx.rng, 6))      # second draw of flags / rooting / lengths
        cases += [gen_case(ctx.rng, 16) for _ in range(15000)]
        cases += [gen_case(ctx.rng, 40) for _ in range(1500)]
    for c in cases:
        ctx.count("op:" + c["op"][0])
        ctx.count("lengths:" + c["pattern"])
        ctx.count("rooted:%s" % c["rooted"])
        if c.get("refused"):
            ctx.count("refused-then:" + c["refused"][0])
        ctx.count("leaves:%d" % min(len(trees.leaves(c["tree"])), 13))
    core.corr_stage(ctx, cases, observe, to_coq, HEADER, "case_ok", oracle=oracle, show_fn="case_run",
                    nontrivial=nontrivial, search=search, shard=250,
                    sample_fn=lambda c, o: {"tree": trees.newick(c["tree"]), "rooted": c["rooted"], "op": c["op"],
                                            "result": (trees.newick(o["res"][1]) if o["res"][0] == "Ok" else o["res"]),
                                            "rooted_after": (o["res"][2] if o["res"][0] == "Ok" else None)})
    return ctx.finish(level="proof",
                      rule="fixed cases from the property text; every node/edge/outgroup of every rose-tree shape with "
                           "<= 4 (quick) / <= 6 (thorough) leaves with drawn flags, rooting state and length pattern "
                           "(unit, equal, zeros, integers, dyadics, all-None, mixed); random trees up to 40 leaves "
                           "(some with unifurcations) x all operations; wave 8: midpoint rooting of trees with "
                           "zero-length TERMINAL edges over zero / positive internal edges (ties in the maximal pair, "
                           "its deeper end on a zero-length edge; a midpoint rooting that raises on a tree with all "
                           "lengths defined is a violation), and histories `refused call, then a re-rooting`: "
                           "reroot_at_edge on the seed edge, to_outgroup_position(seed), reseed_at / reroot_at_node with "
                           "the seed of another tree, a None argument, reseed_at / reroot_at_node at the seed with all "
                           "clean-up off - after the refused call the pointer dump (incl. the seed's parent pointer and "
                           "edge), every length, every node's edge object and the flag are as before (a hard "
                           "re-rooting sets the flag), and the following operation is judged against the ORIGINAL "
                           "tree; a case is non-trivial when the call succeeds "
                           "and the result tree differs from the input; distinct by full case content")
