"""C20 - worker processes for the implementation reads.

A reader that does not terminate may also allocate without bound (a loop that keeps appending to a
token).  An in-process alarm is then not enough: the harness itself would be killed by the kernel
and no evidence would be written.  Every call into the library therefore runs in a forked worker
with an address-space limit (RLIMIT_AS) and a hard wall-clock limit enforced by the parent:

  * inside the worker the read still runs under `core.alarm` (so that a hang is reported with the
    library frame it spins in) and MemoryError is caught and reported;
  * a worker that does not answer within `hard_s` seconds, or that dies, is killed and replaced; the
    job's result is `on_death(job, how)`.

Results come back in job order, whatever the scheduling.
"""
import multiprocessing as mp
import multiprocessing.connection as mpc
import os
import resource
import signal
import time

MEM_LIMIT = 2 << 30     # bytes of address space per worker


def _main(conn, fn, mem):
    try:
        signal.signal(signal.SIGINT, signal.SIG_IGN)
        resource.setrlimit(resource.RLIMIT_AS, (mem, mem))
    except (ValueError, OSError):
        pass
    while True:
        try:
            msg = conn.recv()
        except (EOFError, OSError):
            break
        if msg is None:
            break
        i, job = msg
        try:
            res, retire = fn(job)
        except MemoryError:
            res, retire = None, True
        try:
            conn.send((i, res, retire))
        except (OSError, MemoryError):
            break
        if retire:
            break
    os._exit(0)


class _Worker(object):
    def __init__(self, fn, mem):
        ctx = mp.get_context("fork")
        self.conn, child = ctx.Pipe()
        self.proc = ctx.Process(target=_main, args=(child, fn, mem), daemon=True)
        self.proc.start()
        child.close()
        self.job = None      # (index, job) in flight
        self.t0 = 0.0

    def kill(self):
        try:
            self.proc.kill()
        except Exception:
            pass
        try:
            self.proc.join(2)
        except Exception:
            pass
        try:
            self.conn.close()
        except Exception:
            pass


class Pool(object):
    def __init__(self, fn, on_death, n=4, hard_s=15.0, mem=MEM_LIMIT):
        self.fn, self.on_death, self.n, self.hard_s, self.mem = fn, on_death, n, hard_s, mem
        self.workers = []
        self.killed = 0

    def _spawn(self):
        return _Worker(self.fn, self.mem)

    def close(self):
        for w in self.workers:
            try:
                w.conn.send(None)
            except Exception:
                pass
            w.kill()
        self.workers = []

    def map(self, jobs):
        jobs = list(jobs)
        results = [None] * len(jobs)
        nxt = 0
        done = 0
        want = min(self.n, max(1, len(jobs)))
        while len(self.workers) < want:
            self.workers.append(self._spawn())
        while done < len(jobs):
            for k, w in enumerate(self.workers):
                if w.job is None and nxt < len(jobs):
                    try:
                        w.conn.send((nxt, jobs[nxt]))
                    except (OSError, ValueError):
                        w.kill()
                        w = self.workers[k] = self._spawn()
                        w.conn.send((nxt, jobs[nxt]))
                    w.job = (nxt, jobs[nxt])
                    w.t0 = time.time()
                    nxt += 1
            busy = [w for w in self.workers if w.job is not None]
            mpc.wait([w.conn for w in busy] + [w.proc.sentinel for w in busy], timeout=0.5)
            now = time.time()
            for k, w in enumerate(self.workers):
                if w.job is None:
                    continue
                i, job = w.job
                how = None
                got = False
                try:
                    if w.conn.poll():
                        j, res, retire = w.conn.recv()
                        got = True
                        if res is None:
                            res = self.on_death(job, "MemoryError")
                        results[i] = res
                        if retire:
                            w.kill()
                            self.workers[k] = self._spawn()
                        else:
                            w.job = None
                except (EOFError, OSError):
                    how = "died"
                if not got and how is None:
                    if not w.proc.is_alive():
                        how = "died (exit code %s)" % w.proc.exitcode
                    elif now - w.t0 > self.hard_s:
                        how = "killed after %.0f s" % self.hard_s
                if got:
                    done += 1
                elif how is not None:
                    self.killed += 1
                    w.kill()
                    self.workers[k] = self._spawn()
                    results[i] = self.on_death(job, how)
                    done += 1
        return results
