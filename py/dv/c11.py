"""C11 - collections keep every member inside their own taxon namespace.

Histories of container operations (TreeList / TreeArray / CharacterMatrix / DataSet / Tree taxon
management, reads of small Newick / NEXUS / FASTA strings) over 2-3 namespaces are run on the real
library and on the Coq model (coq/Model/C11Model.v, vm_compute); after every step the whole
observable state is compared: identity classes of namespaces / taxa / trees / lists / matrices /
data sets (small ints in creation order, never raw id()), members, node taxa, rows, outcome enum.
The oracle states the property naively on the live objects (`is`, `in`).
"""
import json
import random
import time

from dv import core
from dv.core import cz, cnat, cbool, clist, copt, cpair

HEADER = ("From DV Require Import Model.PyPrims Model.C11Model Model.C11W7Model Model.C11W8Model.\n"
          "From Coq Require Import ZArith.\nOpen Scope nat_scope.")

POOLS = [
    ["a", "A", "b", "B", "c", "Ab", "aB", "d"],
    ["x", "X", "y", "z", "Zz", "zz", "w"],
    ["Homo", "homo", "HOMO", "Pan", "pan", "Gorilla", "Pongo"],
    ["t", "T", "u", "U", "v", "tu", "Tu"],
]

# ----------------------------------------------------------------------------------------------
# creation-order registry of Taxon objects (run-time patch of the harness process only)
# ----------------------------------------------------------------------------------------------
_CREATED = []


def _install_hook():
    from dendropy.datamodel import taxonmodel
    if getattr(taxonmodel.Taxon, "_dv_hooked", False):
        return

    def _new(cls, *a, **k):
        o = object.__new__(cls)
        _CREATED.append(o)
        return o

    taxonmodel.Taxon.__new__ = staticmethod(_new)
    taxonmodel.Taxon._dv_hooked = True


class Skip(Exception):
    pass


# wave 8: the calls that are also issued with an additional misspelt keyword (["BadKw", <op>])
BADKW_OPS = ("Append", "Insert", "AppendM", "InsertM", "MigrateTree", "ReconstructTree", "MigrateList", "ReconstructList",
             "MigrateMat", "ReconstructMat", "MigrateTreeM", "ReconstructTreeM", "MigrateListM", "ReconstructListM",
             "MigrateMatM", "ReconstructMatM", "Unify")


def nest(rng_bits, labels):
    """a newick group over `labels` in the given left-to-right order; shape from the bit list"""
    bits = list(rng_bits)

    def take():
        return bits.pop(0) if bits else 0

    def build(ls):
        if len(ls) == 1:
            return ls[0]
        if len(ls) == 2 or take() % 3 == 0:
            return "(" + ",".join(ls) + ")"
        k = 1 + take() % (len(ls) - 1)
        left, right = ls[:k], ls[k:]
        parts = [build(left) if len(left) > 1 else left[0], build(right) if len(right) > 1 else right[0]]
        return "(" + ",".join(parts) + ")"

    if len(labels) == 1:
        return labels[0]
    return build(list(labels))


class World:
    """Runs ops on the real library; objects are numbered per kind in creation order."""

    def __init__(self, pool):
        import dendropy
        _install_hook()
        self.dp = dendropy
        self.pool = pool
        self.base = len(_CREATED)
        self.nss, self.trees, self.lists, self.mats, self.dss = [], [], [], [], []
        self.memos = []     # caller-owned taxon_mapping_memo dictionaries (wave 7)
        self._keep = []     # every storage object ever observed stays alive: id() is never re-used in a history
        self._ix = {"ns": {}, "tree": {}, "list": {}, "mat": {}, "ds": {}}
        self.removed = []   # (tree, namespace object of the list at removal time)
        self.alarmed = None # index of the first step on which the CPU / wall-clock alarm of the HARNESS fired
        self.cpu_limit = 5  # seconds of CPU time a single library call may use (see observe: re-observed with more)
        self.nsteps = 0

    # -- registries ---------------------------------------------------------------------------
    def _reg(self, kind, store, o):
        ix = self._ix[kind]
        if id(o) not in ix:
            ix[id(o)] = len(store)
            store.append(o)
        return ix[id(o)]

    def reg_ns(self, o):
        return self._reg("ns", self.nss, o)

    def reg_tree(self, o):
        return self._reg("tree", self.trees, o)

    def reg_list(self, o):
        return self._reg("list", self.lists, o)

    def reg_mat(self, o):
        return self._reg("mat", self.mats, o)

    def reg_ds(self, o):
        return self._reg("ds", self.dss, o)

    def taxa(self):
        return _CREATED[self.base:]

    def tid(self, t):
        if not hasattr(self, "_tix"):
            self._tix = {}
            self._tn = 0
        tx = self.taxa()
        while self._tn < len(tx):
            self._tix[id(tx[self._tn])] = self._tn
            self._tn += 1
        return self._tix[id(t)]

    def sync(self):
        for ds in self.dss:
            for n in ds.taxon_namespaces:
                self.reg_ns(n)
            for tl in ds.tree_lists:
                self.reg_list(tl)
            for m in ds.char_matrices:
                self.reg_mat(m)
        for tl in list(self.lists):
            self.reg_ns(tl.taxon_namespace)
            for t in tl:
                self.reg_tree(t)
        for t in list(self.trees):
            self.reg_ns(t.taxon_namespace)
        for m in list(self.mats):
            self.reg_ns(m.taxon_namespace)
        for ds in self.dss:
            if ds.attached_taxon_namespace is not None:
                self.reg_ns(ds.attached_taxon_namespace)

    # -- canonical dump -----------------------------------------------------------------------
    def dump(self):
        self.sync()
        nsid = lambda o: self._ix["ns"][id(o)]
        return {
            "lab": [self.pool.index(t.label) for t in self.taxa()],
            "ns": [[bool(n.is_case_sensitive), [self.tid(t) for t in n]] for n in self.nss],
            "trees": [[nsid(t.taxon_namespace), [self.tid(nd.taxon) for nd in t if nd.taxon is not None]]
                      for t in self.trees],
            "lists": [[nsid(tl.taxon_namespace), [self._ix["tree"][id(t)] for t in tl]] for tl in self.lists],
            "mats": [[nsid(m.taxon_namespace), [self.tid(t) for t in m._taxon_sequence_map]] for m in self.mats],
            "dss": [[None if ds.attached_taxon_namespace is None else nsid(ds.attached_taxon_namespace),
                     [nsid(n) for n in ds.taxon_namespaces],
                     [self._ix["list"][id(tl)] for tl in ds.tree_lists],
                     [self._ix["mat"][id(m)] for m in ds.char_matrices]] for ds in self.dss],
            "memos": [[[self.tid(k), self.tid(v)] for k, v in mm.items()] for mm in self.memos],
            "mmap": self._classes([m._taxon_sequence_map for m in self.mats]),
            "ltl": self._classes([tl._trees for tl in self.lists]),
        }

    def _classes(self, objs):
        """identity classes of mutable storage objects: for each container the smallest index of a container
        that holds the very same storage object (0, 1, 2, ... when nothing is shared)"""
        first, out = {}, []
        for i, o in enumerate(objs):
            self._keep.append(o)
            out.append(first.setdefault(id(o), i))
        return out

    # -- the property, stated naively on the live objects ------------------------------------
    def naive(self):
        v = []
        for li, tl in enumerate(self.lists):
            for pos, t in enumerate(tl):
                if t.taxon_namespace is not tl.taxon_namespace:
                    v.append(["list-member-ns", li, pos])
                for nd in t:
                    if nd.taxon is not None and nd.taxon not in tl.taxon_namespace:
                        v.append(["list-member-taxon", li, pos])
                        break
        for mi, m in enumerate(self.mats):
            for tx in m._taxon_sequence_map:
                if tx not in m.taxon_namespace:
                    v.append(["matrix-row", mi])
                    break
        for di, ds in enumerate(self.dss):
            a = ds.attached_taxon_namespace
            if a is not None:
                for k, tl in enumerate(ds.tree_lists):
                    if tl.taxon_namespace is not a:
                        v.append(["ds-list-ns", di, k])
                for k, m in enumerate(ds.char_matrices):
                    if m.taxon_namespace is not a:
                        v.append(["ds-matrix-ns", di, k])
        for k, (t, _ns) in enumerate(self.removed):
            for nd in t:
                if nd.taxon is not None and nd.taxon not in t.taxon_namespace:
                    v.append(["removed-tree-taxon", k])
                    break
        # (not part of the property, but what every later append relies on:) every tree object the history
        # has made, in a list or not, carries only taxa of the namespace it refers to
        for k, t in enumerate(self.trees):
            for nd in t:
                if nd.taxon is not None and nd.taxon not in t.taxon_namespace:
                    v.append(["tree-taxon", k])
                    break
        return v

    # -- op execution -------------------------------------------------------------------------
    def _strat_kw(self, s):
        if s[0] == "SMigrate":
            return {} if s[1] else {"unify_taxa_by_label": False}
        if s[0] == "SAdd":
            return {"taxon_import_strategy": "add"}
        return {"taxon_import_strategy": "bogus"}

    def _src(self, s):
        if s[0] == "SrcList":
            return self.lists[s[1]]
        return [self.trees[i] for i in s[1]]

    def _newseq(self):
        """a DNA string no other row of this history has (rows are re-keyed by migrations: the oracle
        follows them by content)"""
        self._seqno = getattr(self, "_seqno", 0) + 1
        k, out = self._seqno, []
        for _ in range(8):
            out.append("ACGT"[k % 4])
            k //= 4
        return "".join(out)

    def rows(self):
        return [[[t.label, m._taxon_sequence_map[t].symbols_as_string()] for t in m._taxon_sequence_map]
                for m in self.mats]

    def _seed(self, refs):
        dp = self.dp
        seed = dp.Node()
        tx = self.taxa()
        for x in refs:
            seed.add_child(dp.Node(taxon=tx[x]))
        return seed

    def _tree_text(self, sc, trees, shape):
        strs = []
        for k, labels in enumerate(trees):
            names = [self.pool[i] for i in labels]
            if len(set(x.lower() for x in names)) < len(names):
                # a duplicate raises NewickReaderDuplicateTaxonError half-way: keep the tree flat, so that
                # the nodes parsed so far are exactly the ones already attached to the seed node
                strs.append("(" + ",".join(names) + ")" if len(names) > 1 else names[0])
            else:
                strs.append(nest([shape + 7 * k + j for j in range(8)], names))
        if sc == "Newick":
            return "".join(s + ";" for s in strs), "newick"
        body = "".join("  TREE t%d = %s;\n" % (k, s) for k, s in enumerate(strs))
        return "#NEXUS\nBEGIN TREES;\n" + body + "END;\n", "nexus"

    def do(self, op, extra=None):
        dp = self.dp
        name = op[0]
        nss, trees, lists, mats, dss = self.nss, self.trees, self.lists, self.mats, self.dss
        if name == "BadKw":
            # wave 8: the same call with one more keyword, which the API does not know (the documented keyword
            # is unify_taxa_by_label): TypeError, and nothing at all has changed
            if op[1][0] not in BADKW_OPS:
                raise RuntimeError("BadKw around %r" % (op[1],))
            return self.do(op[1], extra={"unify_taxa_by_labels": True})
        X = extra or {}
        if name == "NewNs":
            return ["OId", self.reg_ns(dp.TaxonNamespace(is_case_sensitive=op[1]))]
        if name == "NewTaxon":
            t = nss[op[1]].new_taxon(self.pool[op[2]])
            return ["OId", self.tid(t)]
        if name == "MkTree":
            t = dp.Tree(seed_node=self._seed(op[2]), taxon_namespace=nss[op[1]])
            return ["OId", self.reg_tree(t)]
        if name == "NewList":
            return ["OId", self.reg_list(dp.TreeList(taxon_namespace=nss[op[1]]))]
        if name == "NewMat":
            return ["OId", self.reg_mat(dp.DnaCharacterMatrix(taxon_namespace=nss[op[1]]))]
        if name == "NewDs":
            return ["OId", self.reg_ds(dp.DataSet())]
        if name == "Append":
            lists[op[1]].append(trees[op[2]], **self._strat_kw(op[3]), **X)
            return ["OUnit"]
        if name == "Insert":
            lists[op[1]].insert(op[2], trees[op[3]], **self._strat_kw(op[4]), **X)
            return ["OUnit"]
        if name == "Extend":
            if op[2][0] == "SrcList" and op[2][1] == op[1]:
                raise TimeoutError("extend(self) does not terminate")
            lists[op[1]].extend(self._src(op[2]))
            return ["OUnit"]
        if name == "IAdd":
            if op[2][0] == "SrcList" and op[2][1] == op[1]:
                raise TimeoutError("+= self does not terminate")
            x = lists[op[1]]
            x += self._src(op[2])
            assert x is lists[op[1]]
            return ["OUnit"]
        if name == "Add":
            r = lists[op[1]] + self._src(op[2])
            return ["OId", self.reg_list(r)]
        if name == "SetItem":
            lists[op[1]][op[2]] = trees[op[3]]
            return ["OUnit"]
        if name == "SetSlice":
            lists[op[1]][op[2]:op[3]] = self._src(op[4])
            return ["OUnit"]
        if name == "GetSlice":
            r = lists[op[1]][op[2]:op[3]]
            return ["OId", self.reg_list(r)]
        if name == "NewTreeIn":
            kw = {"seed_node": self._seed(op[3])}
            if op[2] is not None:
                kw["taxon_namespace"] = nss[op[2]]
            t = lists[op[1]].new_tree(**kw)
            return ["OId", self.reg_tree(t)]
        if name == "ReadList":
            text, schema = self._tree_text(op[2], op[5], op[6] if len(op) > 6 else 0)
            kw = {}
            if op[3]:
                kw["case_sensitive_taxon_labels"] = True
            if op[4] is not None:
                kw["taxon_namespace"] = nss[op[4]]
            lists[op[1]].read(data=text, schema=schema, **kw)
            return ["OUnit"]
        if name == "Pop":
            tl = lists[op[1]]
            t = tl.pop(op[2])
            self.removed.append((t, tl.taxon_namespace))
            return ["OId", self.reg_tree(t)]
        if name == "Remove":
            tl = lists[op[1]]
            tl.remove(trees[op[2]])
            self.removed.append((trees[op[2]], tl.taxon_namespace))
            return ["OUnit"]
        if name == "MigrateList":
            lists[op[1]].migrate_taxon_namespace(nss[op[2]], unify_taxa_by_label=op[3], **X)
            return ["OUnit"]
        if name == "ReconstructList":
            lists[op[1]].reconstruct_taxon_namespace(unify_taxa_by_label=op[2], **X)
            return ["OUnit"]
        if name == "UpdateList":
            lists[op[1]].update_taxon_namespace()
            return ["OUnit"]
        if name == "PurgeList":
            lists[op[1]].purge_taxon_namespace()
            return ["OUnit"]
        if name == "MigrateTree":
            trees[op[1]].migrate_taxon_namespace(nss[op[2]], unify_taxa_by_label=op[3], **X)
            return ["OUnit"]
        if name == "ReconstructTree":
            trees[op[1]].reconstruct_taxon_namespace(unify_taxa_by_label=op[2], **X)
            return ["OUnit"]
        if name == "UpdateTree":
            trees[op[1]].update_taxon_namespace()
            return ["OUnit"]
        if name == "PurgeTree":
            trees[op[1]].purge_taxon_namespace()
            return ["OUnit"]
        if name == "ArrayAdd":
            dp.TreeArray(taxon_namespace=nss[op[1]]).add_tree(trees[op[2]])
            return ["OUnit"]
        if name == "NewSeq":
            mats[op[1]].new_sequence(self.taxa()[op[2]], self._newseq())
            return ["OUnit"]
        if name == "SetRow":
            k = op[2]
            key = self.taxa()[k[1]] if k[0] == "KeyTaxon" else (self.pool[k[1]] if k[0] == "KeyLabel" else k[1])
            mats[op[1]][key] = self._newseq()
            return ["OUnit"]
        if name == "MigrateMat":
            mats[op[1]].migrate_taxon_namespace(nss[op[2]], unify_taxa_by_label=op[3], **X)
            return ["OUnit"]
        if name == "ReconstructMat":
            mats[op[1]].reconstruct_taxon_namespace(unify_taxa_by_label=op[2], **X)
            return ["OUnit"]
        if name == "UpdateMat":
            mats[op[1]].update_taxon_namespace()
            return ["OUnit"]
        if name == "PurgeMat":
            mats[op[1]].purge_taxon_namespace()
            return ["OUnit"]
        if name == "Attach":
            dss[op[1]].attach_taxon_namespace(nss[op[2]])
            return ["OUnit"]
        if name == "Detach":
            dss[op[1]].detach_taxon_namespace()
            return ["OUnit"]
        if name == "DsAdd":
            o = op[2]
            obj = nss[o[1]] if o[0] == "ObjNs" else (lists[o[1]] if o[0] == "ObjList" else mats[o[1]])
            if len(op) > 3 and op[3]:
                {"ObjNs": dss[op[1]].add_taxon_namespace, "ObjList": dss[op[1]].add_tree_list,
                 "ObjMat": dss[op[1]].add_char_matrix}[o[0]](obj)
            else:
                dss[op[1]].add(obj)
            return ["OUnit"]
        if name == "DsNewList":
            kw = {} if op[2] is None else {"taxon_namespace": nss[op[2]]}
            return ["OId", self.reg_list(dss[op[1]].new_tree_list(**kw))]
        if name == "DsNewMat":
            kw = {} if op[2] is None else {"taxon_namespace": nss[op[2]]}
            return ["OId", self.reg_mat(dss[op[1]].new_char_matrix("dna", **kw))]
        if name == "DsReadTrees":
            text, schema = self._tree_text(op[2], op[5], op[6] if len(op) > 6 else 0)
            kw = {}
            if op[3]:
                kw["case_sensitive_taxon_labels"] = True
            if op[4] is not None:
                kw["taxon_namespace"] = nss[op[4]]
            dss[op[1]].read(data=text, schema=schema, **kw)
            return ["OUnit"]
        if name == "DsReadFasta":
            text = "".join(">%s\n%s\n" % (self.pool[i], self._newseq()) for i in op[3])
            kw = {} if op[2] is None else {"taxon_namespace": nss[op[2]]}
            dss[op[1]].read(data=text, schema="fasta", data_type="dna", **kw)
            return ["OUnit"]
        if name == "Unify":
            dss[op[1]].unify_taxon_namespaces(taxon_namespace=None if op[2] is None else nss[op[2]],
                                              attach_taxon_namespace=op[3], **X)
            return ["OUnit"]
        if name == "FreeTaxon":
            return ["OId", self.tid(dp.Taxon(label=self.pool[op[1]]))]
        if name == "NewMemo":
            tx = self.taxa()
            self.memos.append(dict((tx[a], tx[b]) for a, b in op[1]))
            return ["OId", len(self.memos) - 1]
        if name == "CopyMat":
            import copy
            m = mats[op[1]]
            return ["OId", self.reg_mat(m.clone(0) if op[2] == "clone" else copy.copy(m))]
        if name == "CopyList":
            import copy
            tl = lists[op[1]]
            return ["OId", self.reg_list(tl.clone(0) if op[2] == "clone" else copy.copy(tl))]
        if name == "AppendM":
            lists[op[1]].append(trees[op[2]], taxon_mapping_memo=self.memos[op[4]], **self._strat_kw(op[3]), **X)
            return ["OUnit"]
        if name == "InsertM":
            lists[op[1]].insert(op[2], trees[op[3]], taxon_mapping_memo=self.memos[op[5]], **self._strat_kw(op[4]), **X)
            return ["OUnit"]
        if name == "MigrateTreeM":
            trees[op[1]].migrate_taxon_namespace(nss[op[2]], unify_taxa_by_label=op[3], taxon_mapping_memo=self.memos[op[4]], **X)
            return ["OUnit"]
        if name == "ReconstructTreeM":
            trees[op[1]].reconstruct_taxon_namespace(unify_taxa_by_label=op[2], taxon_mapping_memo=self.memos[op[3]], **X)
            return ["OUnit"]
        if name == "MigrateListM":
            lists[op[1]].migrate_taxon_namespace(nss[op[2]], unify_taxa_by_label=op[3], taxon_mapping_memo=self.memos[op[4]], **X)
            return ["OUnit"]
        if name == "ReconstructListM":
            lists[op[1]].reconstruct_taxon_namespace(unify_taxa_by_label=op[2], taxon_mapping_memo=self.memos[op[3]], **X)
            return ["OUnit"]
        if name == "MigrateMatM":
            mats[op[1]].migrate_taxon_namespace(nss[op[2]], unify_taxa_by_label=op[3], taxon_mapping_memo=self.memos[op[4]], **X)
            return ["OUnit"]
        if name == "ReconstructMatM":
            mats[op[1]].reconstruct_taxon_namespace(unify_taxa_by_label=op[2], taxon_mapping_memo=self.memos[op[3]], **X)
            return ["OUnit"]
        raise RuntimeError("unknown op %r" % (op,))

    def step(self, op):
        from dendropy.utility import error as dperr
        try:
            with core.alarm(self.cpu_limit):
                out = self.do(op)
        except dperr.TaxonNamespaceReconstructionError:
            out = ["ORecon"]
        except TimeoutError as e:
            # two different things: the SYNTHETIC outcome of extend(self) / += self (never executed, message says so),
            # and the harness' own alarm (core.alarm raises TimeoutError("alarm")).  The second one is an observation
            # problem until it repeats: a thorough run next to other jobs (and with a large heap: every Taxon ever made is
            # kept for the creation-order ids, so a full garbage collection inside a call can take seconds) once hit it on
            # a NEXUS read that takes milliseconds, and reported the outcome Hang for a call that had simply been
            # interrupted half-way -> model / implementation disagreement without failing input.  observe() re-runs
            # the whole history with a much larger limit when this flag is set.
            if str(e) == "alarm" and self.alarmed is None:
                self.alarmed = self.nsteps
            out = ["OErr", core.exc_enum(e)]
            e = None
        except Exception as e:
            out = ["OErr", core.exc_enum(e)]
            e = None
        self.nsteps += 1
        return out


# ----------------------------------------------------------------------------------------------
# generation (online: the generator looks at the live world to choose meaningful arguments)
# ----------------------------------------------------------------------------------------------

def _labels_for_tree(rng, w, n, cs, k):
    """k distinct label ids (distinct under the reader's case rule `cs`), biased to the labels of namespace n"""
    pool = w.pool
    have = [pool.index(t.label) for t in w.nss[n]] if n is not None else []
    cand = list(range(len(pool)))
    rng.shuffle(cand)
    cand = sorted(cand, key=lambda i: (0 if i in have and rng.random() < 0.7 else 1))
    out, seen = [], set()
    for i in cand:
        key = pool[i] if cs else pool[i].lower()
        if key in seen:
            continue
        seen.add(key)
        out.append(i)
        if len(out) == k:
            break
    rng.shuffle(out)
    return out


def _holders(w, t):
    return [i for i, tl in enumerate(w.lists) if any(x is t for x in tl)]


def gen_case(rng, maxlen, hazard=0.12, shape=None):
    """shape: None (mixed), "copy" (shallow-copy scenario first), "memo" (caller-supplied memo scenario first),
    "dup" (duplicate-label namespace + mixed import routes), "refuse" (refused calls + corrected retries)"""
    pool = sorted(set(rng.choice(POOLS)))
    w = World(pool)
    ops = []

    def emit(op):
        ops.append(op)
        w.step(op)
        w.sync()
        return not w.naive()

    R = rng.random
    L = lambda: rng.randrange(len(pool))
    # --- set-up: namespaces with overlapping / disjoint / case-variant labels, some content
    nns = rng.choice([2, 2, 3])
    for _ in range(nns):
        emit(["NewNs", R() < 0.3])
    for n in range(nns):
        for _ in range(rng.randint(0, 4)):
            emit(["NewTaxon", n, L()])
    for _ in range(rng.randint(1, 3)):
        emit(["NewList", rng.randrange(nns)])
    for _ in range(rng.randint(1, 4)):
        n = rng.randrange(nns)
        mem = [w.tid(t) for t in w.nss[n]]
        allt = list(range(len(w.taxa())))
        k = rng.randint(1, 4)
        if mem and R() < 0.8:
            refs = [rng.choice(mem) for _ in range(k)]
        elif allt:
            refs = [rng.choice(allt) for _ in range(k)]
        else:
            refs = []
        emit(["MkTree", n, refs])
    if R() < 0.6:
        emit(["NewMat", rng.randrange(nns)])
    if R() < 0.6:
        emit(["NewDs"])
    x = R()
    if shape == "copy" or (shape is None and x < 0.12):
        _shallow_copy_scenario(rng, w, emit)
    elif shape == "memo" or (shape is None and x < 0.26):
        _memo_scenario(rng, w, emit)
    elif shape == "dup" or (shape is None and x < 0.40):
        _dup_label_scenario(rng, w, emit)
    elif shape == "refuse" or (shape is None and x < 0.52):
        _refusal_scenario(rng, w, emit)
    elif shape is None and R() < 0.3:
        _shared_source_scenario(rng, w, emit)
    elif shape is None and R() < 0.2:
        _add_then_reconstruct_scenario(rng, w, emit)
    if w.naive():
        if w.alarmed is not None:    # the generator's world is no longer what a replay of `ops` gives: draw again
            return gen_case(rng, maxlen, hazard, shape)
        return {"pool": pool, "ops": ops}

    target = len(ops) + rng.randint(5, maxlen)
    guard = 0
    while len(ops) < target and guard < 300:
        guard += 1
        op = _pick(rng, w, hazard)
        if op is None:
            continue
        if not emit(op):
            break          # the history ends at the first step after which the property fails
    if w.alarmed is not None:
        return gen_case(rng, maxlen, hazard, shape)
    return {"pool": pool, "ops": ops}


def _shared_source_scenario(rng, w, emit):
    """a tree list AND a matrix over one source namespace (mostly case-sensitive, with case-variant labels),
    both components of one data set: unify_taxon_namespaces migrates the lists first and hands the memo they
    filled to the matrices"""
    R = rng.random
    pool = w.pool
    groups = {}
    for i, s in enumerate(pool):
        groups.setdefault(s.lower(), []).append(i)
    variants = [g for g in groups.values() if len(g) >= 2]
    emit(["NewNs", R() < 0.85])
    n = len(w.nss) - 1
    labs = list(rng.choice(variants))[:rng.choice([2, 2, 3])]
    others = [i for i in range(len(pool)) if i not in labs]
    rng.shuffle(others)
    labs += others[:rng.randint(0, 2)]
    rng.shuffle(labs)
    tids = []
    for l in labs:
        emit(["NewTaxon", n, l])
        tids.append(len(w.taxa()) - 1)
    emit(["NewList", n])
    l = len(w.lists) - 1
    for _ in range(rng.randint(1, 3)):
        sub = [t for t in tids if R() < 0.85] or tids[:1]
        rng.shuffle(sub)
        if R() < 0.5:
            emit(["NewTreeIn", l, None, sub])
        else:
            emit(["MkTree", n, sub])
            emit(["Append", l, len(w.trees) - 1, ["SMigrate", True]])
    emit(["NewMat", n])
    m = len(w.mats) - 1
    rows = [t for t in tids if R() < 0.9] or tids[:1]
    rng.shuffle(rows)
    for t in rows:
        emit(["NewSeq", m, t])
    emit(["NewDs"])
    d = len(w.dss) - 1
    comps = [["ObjList", l], ["ObjMat", m]]
    rng.shuffle(comps)
    for c in comps:
        emit(["DsAdd", d, c, R() < 0.3])
    if R() < 0.45:
        # copy routes (Tree._clone_from) into a FRESH, EMPTY collection, several trees in sequence
        emit(["NewNs", R() < 0.15])
        e = len(w.nss) - 1
        emit(["NewList", e])
        le = len(w.lists) - 1
        x = R()
        if x < 0.3:
            emit(["Extend", le, ["SrcList", l]])
        elif x < 0.5:
            emit(["IAdd", le, ["SrcList", l]])
        elif x < 0.7:
            emit(["Add", le, ["SrcList", l]])
        elif x < 0.9:
            emit(["SetSlice", le, rng.choice([None, 0]), rng.choice([None, 0]), ["SrcList", l]])
        else:
            emit(["GetSlice", le, None, None])
            emit(["Extend", len(w.lists) - 1, ["SrcList", l]])
        if R() < 0.5:
            emit([rng.choice(["Extend", "IAdd"]), le, ["SrcList", l]])
    if R() < 0.4:
        # straight away, in one of the ways the memo can be shared / not shared
        x = R()
        if x < 0.6:
            tgt = None if R() < 0.6 else rng.randrange(len(w.nss))
            emit(["Unify", d, tgt, R() < 0.7])
        elif x < 0.8:
            emit(["NewNs", False])
            t = len(w.nss) - 1
            first, second = (["MigrateList", l, t, True], ["MigrateMat", m, t, True])
            if R() < 0.5:
                first, second = second, first
            emit(first)
            emit(second)
        else:
            emit(["NewNs", False])
            emit(["Unify", d, len(w.nss) - 1, True])


def _distinct_labels(rng, pool, variants):
    """label ids in random order; unless `variants`, no two of them equal up to case (so that a migration into
    a case-insensitive namespace does not run into the listed half-migrated-matrix finding all the time)"""
    labs = list(range(len(pool)))
    rng.shuffle(labs)
    if variants:
        return labs
    out, seen = [], set()
    for i in labs:
        if pool[i].lower() not in seen:
            seen.add(pool[i].lower())
            out.append(i)
    return out


def _shallow_copy_scenario(rng, w, emit):
    """a filled container, a SHALLOW copy of it (copy.copy / clone(0)), and then - maybe after a few other
    steps - a namespace operation or a row / member operation on ONLY ONE of the two objects.  Every container
    is re-observed after every step: the other object must not change (matrices), resp. may only see its tree
    objects re-homed the way a slice does (tree lists: the documented shallowness, gated like GetSlice)."""
    R = rng.random
    pool = w.pool
    how = lambda: rng.choice(["clone", "copy"])
    emit(["NewNs", R() < 0.3])
    n = len(w.nss) - 1
    labs = _distinct_labels(rng, pool, R() < 0.2)
    tids = []
    for l in labs[:rng.randint(2, 4)]:
        emit(["NewTaxon", n, l])
        tids.append(len(w.taxa()) - 1)
    if R() < 0.75:
        emit(["NewMat", n])
        m = len(w.mats) - 1
        rows = [t for t in tids if R() < 0.85] or tids[:1]
        rng.shuffle(rows)
        for t in rows:
            emit(["NewSeq", m, t])
        in_ds = None
        if R() < 0.35:
            emit(["NewDs"])
            in_ds = len(w.dss) - 1
            emit(["DsAdd", in_ds, ["ObjMat", m], R() < 0.3])
        emit(["CopyMat", m, how()])
        c = len(w.mats) - 1
        if R() < 0.25:
            emit(["CopyMat", rng.choice([m, c]), how()])
        for _ in range(rng.randint(1, 3)):
            who = rng.choice([m, c, len(w.mats) - 1])
            x = R()
            if x < 0.45:
                tgt = rng.randrange(len(w.nss))
                if R() < 0.4:
                    emit(["NewNs", R() < 0.3])
                    tgt = len(w.nss) - 1
                    for l in labs[:rng.randint(0, 3)]:
                        alts = [i for i, q in enumerate(pool) if q.lower() == pool[l].lower()]
                        emit(["NewTaxon", tgt, rng.choice(alts)])
                M = w.mats[who]
                if any(ds.attached_taxon_namespace is not None and any(y is M for y in ds.char_matrices) for ds in w.dss):
                    continue
                emit(["MigrateMat", who, tgt, R() < 0.8])
            elif x < 0.55:
                emit(["ReconstructMat", who, R() < 0.5])
            elif x < 0.7 and in_ds is not None:
                emit(["Unify", in_ds, None if R() < 0.6 else rng.randrange(len(w.nss)), True])
            elif x < 0.85:
                mem = [w.tid(t) for t in w.mats[who].taxon_namespace]
                if mem:
                    emit(["SetRow", who, ["KeyTaxon", rng.choice(mem)]])
            else:
                mem = [w.tid(t) for t in w.mats[who].taxon_namespace if t not in w.mats[who]._taxon_sequence_map]
                if mem:
                    emit(["NewSeq", who, rng.choice(mem)])
            if w.naive():
                return
    else:
        emit(["NewList", n])
        l = len(w.lists) - 1
        for _ in range(rng.randint(1, 3)):
            sub = [t for t in tids if R() < 0.85] or tids[:1]
            rng.shuffle(sub)
            emit(["NewTreeIn", l, None, sub])
        emit(["CopyList", l, how()])
        c = len(w.lists) - 1
        for _ in range(rng.randint(1, 3)):
            who = rng.choice([l, c])
            x = R()
            if x < 0.3:
                emit(["Pop", who, rng.choice([0, -1])])
            elif x < 0.55:
                sub = [t for t in tids if R() < 0.7] or tids[:1]
                emit(["NewTreeIn", who, None, sub])
            elif x < 0.75:
                emit(["ReconstructList", who, R() < 0.7])
            elif x < 0.9:
                emit(["MigrateList", who, n, R() < 0.7])
            else:
                emit(["UpdateList", who])
            if w.naive():
                return


def _memo_scenario(rng, w, emit):
    """the documented keyword taxon_mapping_memo supplied by the CALLER: an explicit mapping whose target is a
    Taxon of the caller's choosing (a free Taxon(label), or a member of some other namespace), and / or ONE memo
    object handed to several calls that migrate into DIFFERENT namespaces (the second call finds the
    counterparts the first one created, which are members of the first namespace only)"""
    R = rng.random
    pool = w.pool
    emit(["NewNs", R() < 0.3])
    s_ = len(w.nss) - 1
    labs = _distinct_labels(rng, pool, R() < 0.2)
    src = []
    for l in labs[:rng.randint(2, 4)]:
        emit(["NewTaxon", s_, l])
        src.append(len(w.taxa()) - 1)
    trs = []
    for _ in range(rng.randint(2, 3)):
        sub = [t for t in src if R() < 0.85] or src[:1]
        rng.shuffle(sub)
        emit(["MkTree", s_, sub])
        trs.append(len(w.trees) - 1)
    mat = None
    if R() < 0.3:
        emit(["NewMat", s_])
        mat = len(w.mats) - 1
        for t in src:
            if R() < 0.8:
                emit(["NewSeq", mat, t])
    # the memo
    pairs = []
    if R() < 0.6:
        keys = [t for t in src if R() < 0.5] or src[:1]
        used = set()
        for k in keys:
            x = R()
            if x < 0.5:
                emit(["FreeTaxon", rng.randrange(len(pool))])
                v = len(w.taxa()) - 1
            else:
                cand = [i for i in range(len(w.taxa())) if i not in used and i != k]
                v = rng.choice(cand)
            if mat is not None and v in used:
                continue
            used.add(v)
            pairs.append([k, v])
    emit(["NewMemo", pairs])
    k = len(w.memos) - 1
    # destinations: two or three namespaces, some with overlapping / case-variant labels
    dests = []
    for _ in range(rng.randint(1, 3)):
        if R() < 0.7 or len(w.nss) < 2:
            emit(["NewNs", R() < 0.3])
            d = len(w.nss) - 1
            for l in labs[:rng.randint(0, 3)]:
                if R() < 0.6:
                    alts = [i for i, q in enumerate(pool) if q.lower() == pool[l].lower()]
                    emit(["NewTaxon", d, rng.choice(alts)])
        else:
            d = rng.randrange(len(w.nss))
        dests.append(d)
    free = list(trs)
    for d in dests:
        if w.naive():
            return
        x = R()
        if x < 0.5 and free:
            emit(["NewList", d])
            l = len(w.lists) - 1
            t = free.pop(0)
            u = ["SMigrate", R() < 0.8]
            if R() < 0.6:
                emit(["AppendM", l, t, u, k])
            else:
                emit(["InsertM", l, rng.choice([0, 1, -1]), t, u, k])
            if free and R() < 0.4:
                emit(["AppendM", l, free.pop(0), ["SMigrate", True], k])
        elif x < 0.75 and free:
            emit(["MigrateTreeM", free.pop(0), d, R() < 0.8, k])
        elif x < 0.85 and free:
            emit(["NewList", s_])
            l = len(w.lists) - 1
            emit(["Append", l, free.pop(0), ["SMigrate", True]])
            emit(["MigrateListM", l, d, R() < 0.8, k])
        elif x < 0.92 and free:
            emit(["ReconstructTreeM", free[0], R() < 0.7, k])
        elif mat is not None:
            emit(["MigrateMatM", mat, d, R() < 0.8, k])
            mat = None


def _add_then_reconstruct_scenario(rng, w, emit):
    """a list whose trees already refer to the list's namespace but still need their taxa re-mapped: one tree
    appended with the default 'migrate' strategy, a second one carrying equal labels (exactly, or up to case)
    appended with taxon_import_strategy='add' (label-equal taxa side by side in the namespace); then one of the
    collection-level reconstructions: reconstruct_taxon_namespace(unify_taxa_by_label=True), migrate_taxon_namespace
    to the list's OWN namespace, DataSet.unify_taxon_namespaces(namespace of the list)"""
    R = rng.random
    pool = w.pool
    if len(w.nss) < 4 and R() < 0.5:
        emit(["NewNs", R() < 0.3])
        n = len(w.nss) - 1
    else:
        n = rng.randrange(len(w.nss))
    emit(["NewList", n])
    l = len(w.lists) - 1
    labs = list(range(len(pool)))
    rng.shuffle(labs)
    labs = labs[:rng.randint(2, 4)]
    first = True
    for _ in range(rng.choice([2, 2, 3])):
        emit(["NewNs", R() < 0.3])
        s_ = len(w.nss) - 1
        mine = []
        for x in labs:
            if first or R() < 0.75:
                y = x
                if not first and R() < 0.3:
                    alts = [i for i, q in enumerate(pool) if q.lower() == pool[x].lower()]
                    y = rng.choice(alts)
                emit(["NewTaxon", s_, y])
                mine.append(len(w.taxa()) - 1)
        if not first and R() < 0.5:
            extra = [i for i in range(len(pool)) if i not in labs]
            if extra:
                emit(["NewTaxon", s_, rng.choice(extra)])
                mine.append(len(w.taxa()) - 1)
        if not mine:
            continue
        rng.shuffle(mine)
        emit(["MkTree", s_, mine])
        t = len(w.trees) - 1
        if first:
            emit(["Append", l, t, ["SMigrate", True]])
        elif R() < 0.5:
            emit(["Append", l, t, ["SAdd"]])
        else:
            emit(["Insert", l, rng.choice([0, 1, -1, 5]), t, ["SAdd"]])
        first = False
    x = R()
    if x < 0.3:
        emit(["ReconstructList", l, True])
    elif x < 0.55:
        emit(["MigrateList", l, n, True])
    elif x < 0.85:
        emit(["NewDs"])
        d = len(w.dss) - 1
        emit(["DsAdd", d, ["ObjList", l], R() < 0.3])
        emit(["Unify", d, n, R() < 0.8])
    # else: left to the random tail of the history


def _variants(pool, l):
    return [i for i, q in enumerate(pool) if q.lower() == pool[l].lower()]


def _dup_label_scenario(rng, w, emit):
    """wave 8 (seeded/C11-10): a list whose namespace holds SEVERAL members with equal labels (equal under the
    namespace's own case rule) - the documented outcome of taxon_import_strategy='add' for two foreign trees over
    the same labels, or for one case-sensitively built tree carrying 'A' and 'a' added to a case-insensitive
    list - and then a MIX of migrate-style imports (append / insert / item assignment / extend, slice assignment
    of plain trees / Tree.migrate, TreeList.migrate, CharacterMatrix.migrate) and clone-style imports (extend / += /
    + / slice assignment from a TreeList) and reads of trees carrying those labels.  Every route looks the label
    up with require_taxon: the FIRST member that matches."""
    R = rng.random
    pool = w.pool
    emit(["NewNs", R() < 0.25])
    n = len(w.nss) - 1
    tcs = bool(w.nss[n].is_case_sensitive)
    emit(["NewList", n])
    L = len(w.lists) - 1
    labs = _distinct_labels(rng, pool, False)[:rng.randint(2, 4)]

    def source(case_sensitive, variants, sub=None):
        """a fresh namespace with taxa over (a subset of) the labels; returns the taxon ids"""
        emit(["NewNs", case_sensitive])
        s_ = len(w.nss) - 1
        ids, seen = [], set()
        for x in (sub if sub is not None else labs):
            alts = _variants(pool, x) if variants else [x]
            rng.shuffle(alts)
            for y in alts[:rng.choice([1, 1, 2]) if (variants and case_sensitive) else 1]:
                k = pool[y] if case_sensitive else pool[y].lower()
                if k in seen:
                    continue
                seen.add(k)
                emit(["NewTaxon", s_, y])
                ids.append(len(w.taxa()) - 1)
        rng.shuffle(ids)
        return s_, ids

    # --- the duplicates: two or three trees ADDED as they are
    for k in range(rng.choice([2, 2, 3])):
        s_, ids = source(R() < (0.5 if not tcs else 0.3), R() < 0.5)
        if not ids:
            continue
        emit(["MkTree", s_, ids])
        t = len(w.trees) - 1
        if R() < 0.6:
            emit(["Append", L, t, ["SAdd"]])
        else:
            emit(["Insert", L, rng.choice([0, 1, -1, 4]), t, ["SAdd"]])
        if w.naive():
            return
    # --- the mix
    for _ in range(rng.randint(2, 5)):
        if w.naive():
            return
        sub = [x for x in labs if R() < 0.8] or labs[:1]
        if R() < 0.3:
            extra = [i for i in range(len(pool)) if all(pool[i].lower() != pool[x].lower() for x in labs)]
            if extra:
                sub = sub + [rng.choice(extra)]
        s_, ids = source(R() < 0.3, R() < 0.5, sub)
        if not ids:
            continue
        x = R()
        if x < 0.42:
            # clone-style: a TreeList of one or two trees over the source namespace
            emit(["NewList", s_])
            sl = len(w.lists) - 1
            for _k in range(rng.choice([1, 1, 2])):
                part = [t for t in ids if R() < 0.85] or ids[:1]
                rng.shuffle(part)
                emit(["NewTreeIn", sl, None, part])
            y = R()
            if y < 0.3:
                emit(["Extend", L, ["SrcList", sl]])
            elif y < 0.55:
                emit(["IAdd", L, ["SrcList", sl]])
            elif y < 0.75:
                emit(["Add", L, ["SrcList", sl]])
            elif y < 0.93:
                emit(["SetSlice", L, rng.choice([None, 0, 1, -1]), rng.choice([None, 0, 1, 2]), ["SrcList", sl]])
            else:
                emit(["MigrateList", sl, n, True])
        elif x < 0.8:
            emit(["MkTree", s_, ids])
            t = len(w.trees) - 1
            y = R()
            if y < 0.3:
                emit(["Append", L, t, ["SMigrate", True]])
            elif y < 0.5:
                emit(["Insert", L, rng.choice([0, 1, -1, 7]), t, ["SMigrate", True]])
            elif y < 0.62 and len(w.lists[L]):
                emit(["SetItem", L, rng.choice([0, -1]), t])
            elif y < 0.74:
                emit([rng.choice(["Extend", "IAdd"]), L, ["SrcTrees", [t]]])
            elif y < 0.84:
                emit(["SetSlice", L, rng.choice([None, 0, 1]), rng.choice([None, 0, 1]), ["SrcTrees", [t]]])
            elif y < 0.94:
                emit(["MigrateTree", t, n, True])
            else:
                emit(["Add", L, ["SrcTrees", [t]]])
        elif x < 0.9:
            cs = bool(w.nss[n].is_case_sensitive)
            spec = []
            seen = set()
            for q in sub:
                k = pool[q] if cs else pool[q].lower()
                if k not in seen:
                    seen.add(k)
                    spec.append(q)
            emit(["ReadList", L, rng.choice(["Newick", "Nexus"]), cs, None, [spec], rng.randrange(50)])
        else:
            # a matrix over the source namespace, one row per label (no two equal under the target's rule)
            emit(["NewMat", s_])
            m = len(w.mats) - 1
            seen = set()
            for t in ids:
                k = w.taxa()[t].label
                k = k if tcs else k.lower()
                if k not in seen:
                    seen.add(k)
                    emit(["NewSeq", m, t])
            emit(["MigrateMat", m, n, True])
    if R() < 0.3 and not w.naive():
        emit(["ReconstructList", L, True])


def _refusal_scenario(rng, w, emit):
    """wave 8 (seeded/C11-9): calls the API REFUSES with a documented exception - an unknown taxon_import_strategy
    string, a misspelt keyword (unify_taxa_by_labels), a namespace argument that is not the container's own /
    the attached one, a tree under a foreign namespace offered to a TreeArray, a tree that is not a member, an
    index out of range, a taxon outside the namespace - each followed by the CORRECTED call on the same objects.
    After the refused call every object of the history is what it was; the retry then behaves like a first call."""
    R = rng.random
    pool = w.pool
    labs = _distinct_labels(rng, pool, R() < 0.3)[:rng.randint(2, 4)]
    emit(["NewNs", R() < 0.3])
    n = len(w.nss) - 1
    for x in labs[:rng.randint(0, len(labs))]:
        emit(["NewTaxon", n, rng.choice(_variants(pool, x))])
    emit(["NewList", n])
    L = len(w.lists) - 1
    mem = [w.tid(t) for t in w.nss[n]]
    if mem and R() < 0.7:
        emit(["NewTreeIn", L, None, [t for t in mem if R() < 0.8] or mem[:1]])

    def foreign_tree():
        emit(["NewNs", R() < 0.3])
        s_ = len(w.nss) - 1
        ids = []
        for x in labs:
            if R() < 0.85:
                emit(["NewTaxon", s_, x if R() < 0.7 else rng.choice(_variants(pool, x))])
                ids.append(len(w.taxa()) - 1)
        if not ids:
            emit(["NewTaxon", s_, labs[0]])
            ids.append(len(w.taxa()) - 1)
        rng.shuffle(ids)
        emit(["MkTree", s_, ids])
        return s_, len(w.trees) - 1, ids

    for _ in range(rng.randint(1, 3)):
        if w.naive():
            return
        s_, t, ids = foreign_tree()
        good_s = ["SMigrate", True] if R() < 0.6 else (["SMigrate", False] if R() < 0.5 else ["SAdd"])
        x = R()
        if x < 0.14:
            emit(["Append", L, t, ["SBogus"]])
            emit(["Append", L, t, good_s])
        elif x < 0.26:
            i = rng.choice([0, 1, -1, 5])
            emit(["Insert", L, i, t, ["SBogus"]])
            emit(["Insert", L, i, t, good_s])
        elif x < 0.40:
            emit(["BadKw", ["Append", L, t, ["SMigrate", good_s[0] != "SMigrate" or good_s[1]]]])
            emit(["Append", L, t, good_s])
        elif x < 0.50:
            i = rng.choice([0, 1, -1, 5])
            emit(["BadKw", ["Insert", L, i, t, ["SMigrate", True]]])
            emit(["Insert", L, i, t, good_s])
        elif x < 0.58:
            u = R() < 0.8
            emit(["BadKw", ["MigrateTree", t, n, u]])
            emit(["MigrateTree", t, n, u])
            if R() < 0.6:
                emit(["Append", L, t, ["SMigrate", True]])
        elif x < 0.66:
            emit(["NewList", s_])
            sl = len(w.lists) - 1
            emit(["Append", sl, t, ["SMigrate", True]])
            u = R() < 0.8
            if R() < 0.6:
                emit(["BadKw", ["MigrateList", sl, n, u]])
                emit(["MigrateList", sl, n, u])
            else:
                emit(["BadKw", ["ReconstructList", sl, u]])
                emit(["ReconstructList", sl, u])
        elif x < 0.74:
            # a namespace argument that is not the list's own: TypeError; then without it
            emit(["NewTreeIn", L, s_, ids[:2]])
            emit(["NewTreeIn", L, None if R() < 0.6 else n, ids[:2]])
        elif x < 0.80:
            cs = bool(w.nss[n].is_case_sensitive)
            spec = _labels_for_tree(rng, w, n, cs, rng.randint(1, 3))
            sc = rng.choice(["Newick", "Nexus"])
            emit(["ReadList", L, sc, cs, s_, [spec], 3])
            emit(["ReadList", L, sc, cs, None if R() < 0.6 else n, [spec], 3])
        elif x < 0.86:
            # TreeArray.add_tree of a tree under another namespace: error; migrated first: accepted
            emit(["ArrayAdd", n, t])
            emit(["MigrateTree", t, n, True])
            emit(["ArrayAdd", n, t])
        elif x < 0.92:
            emit(["Remove", L, t])
            emit(["Pop", L, rng.choice([7, -9])])
            emit(["Append", L, t, good_s])
            emit(["Remove", L, t])
        else:
            emit(["NewMat", n])
            m = len(w.mats) - 1
            emit(["NewSeq", m, ids[0]])                 # a taxon outside the matrix' namespace: ValueError
            emit(["BadKw", ["MigrateMat", m, s_, True]])
            mem = [w.tid(q) for q in w.nss[n]]
            if mem:
                emit(["NewSeq", m, mem[0]])
                emit(["NewSeq", m, mem[0]])             # a second sequence for the same taxon: ValueError
                emit(["BadKw", ["ReconstructMat", m, True]])
                emit(["MigrateMat", m, s_, True])
    if R() < 0.4 and not w.naive():
        # an attached data set refuses foreign namespaces for new components / reads
        emit(["NewDs"])
        d = len(w.dss) - 1
        emit(["Attach", d, n])
        emit(["DsAdd", d, ["ObjList", L], R() < 0.3])
        others = [i for i in range(len(w.nss)) if i != n]
        if others:
            f = rng.choice(others)
            y = R()
            if y < 0.35:
                k = rng.choice(["DsNewList", "DsNewMat"])
                emit([k, d, f])
                emit([k, d, None if R() < 0.5 else n])
            elif y < 0.6:
                emit(["DsReadFasta", d, f, labs[:2]])
                emit(["DsReadFasta", d, None, labs[:2]])
            elif y < 0.8:
                emit(["BadKw", ["Unify", d, None, True]])
                emit(["Unify", d, n, True])
            else:
                cs = bool(w.nss[n].is_case_sensitive)
                emit(["DsReadTrees", d, "Newick", cs, f, [labs[:2]], 1])
                emit(["DsReadTrees", d, "Newick", cs, None, [labs[:2]], 1])


def _pick(rng, w, hazard):
    op = _pick0(rng, w, hazard)
    if op is not None and op[0] in BADKW_OPS and rng.random() < 0.04:
        return ["BadKw", op]
    return op


def _pick0(rng, w, hazard):
    R = rng.random
    if w.dss and R() < 0.05:
        full = [i for i, ds in enumerate(w.dss) if len(ds.tree_lists) and len(ds.char_matrices)]
        if full:
            return ["Unify", rng.choice(full), None if R() < 0.6 else rng.randrange(len(w.nss)), R() < 0.7]
    pool = w.pool
    nN, nT, nL, nM, nD = len(w.nss), len(w.trees), len(w.lists), len(w.mats), len(w.dss)
    L = lambda: rng.randrange(len(pool))
    NS = lambda: rng.randrange(nN)
    oi = lambda: rng.choice([None, None, 0, 1, -1, 2, -2, 5, -7])

    def tree_for(l, allow_shared):
        """a tree to put into list l: prefers trees under a foreign namespace"""
        tl = w.lists[l]
        cands = []
        for i, t in enumerate(w.trees):
            h = _holders(w, t)
            shared = any(w.lists[j].taxon_namespace is not tl.taxon_namespace for j in h)
            if shared and not allow_shared:
                continue
            weight = 3 if t.taxon_namespace is not tl.taxon_namespace else 1
            if shared:
                weight = 6
            cands.extend([i] * weight)
        return rng.choice(cands) if cands else None

    def strat():
        x = R()
        return ["SMigrate", True] if x < 0.55 else (["SMigrate", False] if x < 0.7 else (["SAdd"] if x < 0.95 else ["SBogus"]))

    def src(l, allow_shared):
        if nL > 1 and R() < 0.5:
            l2 = rng.randrange(nL)
            if l2 == l and R() < 0.9:
                l2 = (l + 1) % nL
            return ["SrcList", l2]
        ts = []
        for _ in range(rng.randint(0, 3)):
            t = tree_for(l, allow_shared)
            if t is not None:
                ts.append(t)
        return ["SrcTrees", ts]

    def tree_specs(n, cs):
        specs = []
        for _ in range(rng.randint(1, 2)):
            k = rng.randint(1, 4)
            specs.append(_labels_for_tree(rng, w, n, cs, k))
        if R() < 0.05 and specs[0]:
            # a duplicate inside one (flat) tree: NewickReaderDuplicateTaxonError
            specs[0] = specs[0] + [specs[0][0]]
        return specs

    hz = R() < hazard
    # ---- wave 7: shallow copies, caller-owned memos ----
    k7 = R()
    if k7 < 0.02 and nM and nM < 5:
        return ["CopyMat", rng.randrange(nM), rng.choice(["clone", "copy"])]
    if k7 < 0.03 and nL and nL < 6 and (hz or R() < 0.3):
        return ["CopyList", rng.randrange(nL), rng.choice(["clone", "copy"])]
    if k7 < 0.04 and len(w.memos) < 2:
        allt = list(range(len(w.taxa())))
        pairs = []
        if allt and R() < 0.6:
            keys = rng.sample(allt, min(len(allt), rng.randint(1, 3)))
            for q in keys:
                v = rng.choice(allt)
                if v != q:
                    pairs.append([q, v])
        return ["NewMemo", pairs]
    if k7 < 0.05:
        return ["FreeTaxon", L()]
    if w.memos and k7 < 0.13:
        km = rng.randrange(len(w.memos))
        j = R()
        if nL and j < 0.3:
            l = rng.randrange(nL)
            t = tree_for(l, hz)
            if t is None:
                return None
            if R() < 0.6:
                return ["AppendM", l, t, strat(), km]
            return ["InsertM", l, rng.choice([0, 1, -1, -2, 3]), t, strat(), km]
        if nT and j < 0.55:
            t = rng.randrange(nT)
            if _holders(w, w.trees[t]) and not hz:
                return ["ReconstructTreeM", t, R() < 0.7, km]
            return ["MigrateTreeM", t, NS(), R() < 0.8, km] if R() < 0.7 else ["ReconstructTreeM", t, R() < 0.7, km]
        if nL and j < 0.8:
            l = rng.randrange(nL)
            tl = w.lists[l]
            shared = any(len(_holders(w, t)) > 1 for t in tl)
            in_attached = any(ds.attached_taxon_namespace is not None and any(x is tl for x in ds.tree_lists) for ds in w.dss)
            if R() < 0.4 or ((shared or in_attached) and not hz):
                return ["ReconstructListM", l, R() < 0.7, km]
            return ["MigrateListM", l, NS(), R() < 0.8, km]
        if nM:
            m = rng.randrange(nM)
            M = w.mats[m]
            in_attached = any(ds.attached_taxon_namespace is not None and any(x is M for x in ds.char_matrices) for ds in w.dss)
            if R() < 0.4 or (in_attached and not hz):
                return ["ReconstructMatM", m, R() < 0.6, km]
            return ["MigrateMatM", m, NS(), R() < 0.8, km]
        return None
    k = R()
    if k < 0.04:
        return ["NewNs", R() < 0.3] if nN < 4 else None
    if k < 0.08:
        return ["NewTaxon", NS(), L()]
    if k < 0.13:
        n = NS()
        mem = [w.tid(t) for t in w.nss[n]]
        allt = list(range(len(w.taxa())))
        pick = mem if (mem and R() < 0.8) else allt
        return ["MkTree", n, [rng.choice(pick) for _ in range(rng.randint(0, 4))] if pick else []]
    if k < 0.15:
        return ["NewList", NS()] if nL < 5 else None
    if k < 0.17:
        return ["NewMat", NS()] if nM < 3 else None
    if k < 0.18:
        return ["NewDs"] if nD < 2 else None
    if nL and k < 0.50:
        l = rng.randrange(nL)
        j = R()
        if j < 0.16:
            t = tree_for(l, hz)
            return None if t is None else ["Append", l, t, strat()]
        if j < 0.26:
            t = tree_for(l, hz)
            return None if t is None else ["Insert", l, rng.choice([0, 1, -1, -2, 3, -5, 9]), t, strat()]
        if j < 0.36:
            return [rng.choice(["Extend", "IAdd"]), l, src(l, hz)]
        if j < 0.44:
            return ["Add", l, src(l, hz)]
        if j < 0.52:
            t = tree_for(l, hz)
            return None if t is None else ["SetItem", l, rng.choice([0, 0, 1, -1, 2, -3, 6]), t]
        if j < 0.62:
            return ["SetSlice", l, oi(), oi(), src(l, hz)]
        if j < 0.68:
            return ["GetSlice", l, oi(), oi()] if (hz or R() < 0.3) and nL < 6 else None
        if j < 0.74:
            n = w._ix["ns"][id(w.lists[l].taxon_namespace)]
            nsarg = None if R() < 0.7 else (n if R() < 0.6 else NS())
            allt = list(range(len(w.taxa())))
            return ["NewTreeIn", l, nsarg, [rng.choice(allt) for _ in range(rng.randint(0, 3))] if allt else []]
        if j < 0.88:
            n = w._ix["ns"][id(w.lists[l].taxon_namespace)]
            cs = bool(w.nss[n].is_case_sensitive)
            cskw = cs if R() < 0.9 else (not cs)
            nsarg = None if R() < 0.85 else (n if R() < 0.5 else NS())
            return ["ReadList", l, rng.choice(["Newick", "Nexus"]), cskw, nsarg, tree_specs(n, cskw), rng.randrange(50)]
        if j < 0.94:
            return ["Pop", l, rng.choice([-1, -1, 0, 1, 4])]
        if len(w.lists[l]) and R() < 0.8:
            return ["Remove", l, w._ix["tree"][id(rng.choice(list(w.lists[l])))]]
        return ["Remove", l, rng.randrange(nT)] if nT else None
    if nL and k < 0.62:
        l = rng.randrange(nL)
        tl = w.lists[l]
        shared = any(len(_holders(w, t)) > 1 for t in tl)
        in_attached = any(ds.attached_taxon_namespace is not None and any(x is tl for x in ds.tree_lists) for ds in w.dss)
        j = R()
        if j < 0.45:
            if (shared or in_attached) and not hz:
                return None
            return ["MigrateList", l, NS(), R() < 0.8]
        if j < 0.65:
            return ["ReconstructList", l, R() < 0.7]
        if j < 0.85:
            return ["UpdateList", l]
        users = sum(1 for x in w.lists if x.taxon_namespace is tl.taxon_namespace) \
            + sum(1 for x in w.mats if x.taxon_namespace is tl.taxon_namespace) \
            + sum(1 for x in w.trees if x.taxon_namespace is tl.taxon_namespace and not any(x is y for y in tl))
        if users > 1 and not hz:
            return None
        return ["PurgeList", l]
    if nT and k < 0.70:
        t = rng.randrange(nT)
        tr = w.trees[t]
        j = R()
        if j < 0.4:
            if _holders(w, tr) and not hz:
                return None
            return ["MigrateTree", t, NS(), R() < 0.8]
        if j < 0.6:
            return ["ReconstructTree", t, R() < 0.7]
        if j < 0.75:
            return ["UpdateTree", t]
        if j < 0.9:
            n = w._ix["ns"][id(tr.taxon_namespace)] if R() < 0.7 else NS()
            if not any(nd.taxon is not None for nd in tr):
                # (cloning a taxon-less one-node tree after encode_bipartitions raises AssertionError
                #  "Bipartition is mutable" in the library: unrelated to this property, avoided)
                return None
            return ["ArrayAdd", n, t]
        users = sum(1 for x in w.trees if x.taxon_namespace is tr.taxon_namespace) \
            + sum(1 for x in w.mats if x.taxon_namespace is tr.taxon_namespace)
        if users > 1 and not hz:
            return None
        return ["PurgeTree", t]
    if nM and k < 0.82:
        m = rng.randrange(nM)
        M = w.mats[m]
        n = w._ix["ns"][id(M.taxon_namespace)]
        mem = [w.tid(t) for t in M.taxon_namespace]
        allt = list(range(len(w.taxa())))
        j = R()
        if j < 0.25:
            pick = mem if (mem and R() < 0.8) else allt
            return ["NewSeq", m, rng.choice(pick)] if pick else None
        if j < 0.5:
            x = R()
            if x < 0.4 and allt:
                pick = mem if (mem and R() < 0.8) else allt
                return ["SetRow", m, ["KeyTaxon", rng.choice(pick)]]
            if x < 0.7:
                return ["SetRow", m, ["KeyLabel", L()]]
            return ["SetRow", m, ["KeyIndex", rng.choice([0, 1, -1, 2, -3, 7])]]
        in_attached = any(ds.attached_taxon_namespace is not None and any(x is M for x in ds.char_matrices) for ds in w.dss)
        if j < 0.7:
            if in_attached and not hz:
                return None
            return ["MigrateMat", m, NS(), R() < 0.8]
        if j < 0.8:
            return ["ReconstructMat", m, R() < 0.6]
        if j < 0.9:
            return ["UpdateMat", m]
        users = sum(1 for x in w.trees if x.taxon_namespace is M.taxon_namespace) \
            + sum(1 for x in w.mats if x.taxon_namespace is M.taxon_namespace)
        if users > 1 and not hz:
            return None
        return ["PurgeMat", m]
    if nD:
        d = rng.randrange(nD)
        ds = w.dss[d]
        att = ds.attached_taxon_namespace
        attn = None if att is None else w._ix["ns"][id(att)]
        j = R()
        if j < 0.12:
            if (len(ds.tree_lists) or len(ds.char_matrices)) and not hz:
                comp = [x.taxon_namespace for x in list(ds.tree_lists) + list(ds.char_matrices)]
                if all(c is comp[0] for c in comp):
                    return ["Attach", d, w._ix["ns"][id(comp[0])]]
                return None
            return ["Attach", d, NS()]
        if j < 0.17:
            return ["Detach", d]
        if j < 0.35:
            x = R()
            direct = R() < 0.3
            if x < 0.2:
                return ["DsAdd", d, ["ObjNs", NS()], direct]
            if x < 0.7 and nL:
                c = [i for i, tl in enumerate(w.lists) if att is None or hz or tl.taxon_namespace is att]
                return ["DsAdd", d, ["ObjList", rng.choice(c)], direct] if c else None
            if nM:
                c = [i for i, m in enumerate(w.mats) if att is None or hz or m.taxon_namespace is att]
                return ["DsAdd", d, ["ObjMat", rng.choice(c)], direct] if c else None
            return None
        if j < 0.45:
            nsarg = None if R() < 0.5 else (attn if (attn is not None and R() < 0.7) else NS())
            return [rng.choice(["DsNewList", "DsNewMat"]), d, nsarg]
        if j < 0.65:
            nsarg = None if R() < 0.6 else (attn if (attn is not None and R() < 0.7) else NS())
            n = nsarg if nsarg is not None else attn
            cs = bool(w.nss[n].is_case_sensitive) if n is not None else False
            cskw = cs if R() < 0.9 else (not cs)
            return ["DsReadTrees", d, rng.choice(["Newick", "Nexus"]), cskw, nsarg, tree_specs(n, cskw), rng.randrange(50)]
        if j < 0.8:
            nsarg = None if R() < 0.6 else (attn if (attn is not None and R() < 0.7) else NS())
            n = nsarg if nsarg is not None else attn
            cs = bool(w.nss[n].is_case_sensitive) if n is not None else False
            rows = _labels_for_tree(rng, w, n, cs if R() < 0.93 else True, rng.randint(1, 4))
            return ["DsReadFasta", d, nsarg, rows]
        nsarg = None if R() < 0.5 else NS()
        attach = R() < 0.7
        if not hz:
            # disciplined: nobody outside the data set shares its trees; keep `attached` coherent
            for tl in ds.tree_lists:
                for t in tl:
                    if any(not any(w.lists[h] is y for y in ds.tree_lists) for h in _holders(w, t)):
                        return None
            if att is not None and not attach and (nsarg is None or w.nss[nsarg] is not att):
                attach = True
            for other in w.dss:
                if other is not ds and other.attached_taxon_namespace is not None:
                    if any(any(x is y for y in list(other.tree_lists) + list(other.char_matrices))
                           for x in list(ds.tree_lists) + list(ds.char_matrices)):
                        return None
        return ["Unify", d, nsarg, attach]
    return None


# ----------------------------------------------------------------------------------------------
# observation
# ----------------------------------------------------------------------------------------------

OBSERVE_LIMITS = [5, 60, 240]   # CPU seconds per call: first attempt, re-observations after a harness alarm
OBSERVE_STATS = {"reobserved": 0}


def observe(case):
    """Run the history on the library.  If the harness' alarm interrupts a call, the whole history is run again
    from scratch (fresh objects, garbage collected first) with a larger limit; only a call that exceeds the last limit
    too is reported as Hang (a real non-termination of the library would get there)."""
    res = None
    for attempt, lim in enumerate(OBSERVE_LIMITS):
        if attempt:
            import gc
            gc.collect()
            OBSERVE_STATS["reobserved"] += 1
        res, alarmed = _observe_once(case, lim)
        if alarmed is None:
            break
    return res


def _observe_once(case, cpu_limit):
    w = World(case["pool"])
    w.cpu_limit = cpu_limit
    res = []
    for op in case["ops"]:
        out = w.step(op)
        d = w.dump()
        res.append({"out": out, "dump": d, "naive": w.naive(), "rows": w.rows(),
                    "removed": [[w._ix["tree"][id(t)], w._ix["ns"][id(n)], t.taxon_namespace is n]
                                for t, n in w.removed]})
    return res, w.alarmed


# ----------------------------------------------------------------------------------------------
# oracle: independent, naive
# ----------------------------------------------------------------------------------------------

MOVERS = ("Append", "Insert", "Extend", "IAdd", "Add", "SetItem", "SetSlice", "GetSlice")


# operations that take the caller's memo: name -> (the same call without the keyword, position of the memo id)
MEMO_OPS = {"AppendM": ("Append", 4), "InsertM": ("Insert", 5), "MigrateTreeM": ("MigrateTree", 4),
            "ReconstructTreeM": ("ReconstructTree", 3), "MigrateListM": ("MigrateList", 4),
            "ReconstructListM": ("ReconstructList", 3), "MigrateMatM": ("MigrateMat", 4),
            "ReconstructMatM": ("ReconstructMat", 3)}


def _base_name(op):
    return MEMO_OPS[op[0]][0] if op[0] in MEMO_OPS else op[0]


def _memo_in(op, dump):
    """the caller's memo as the call received it / left it (dump = state before / after the step): {source: target}"""
    if op[0] not in MEMO_OPS or dump is None:
        return {}
    k = op[MEMO_OPS[op[0]][1]]
    return dict((a, b) for a, b in dump["memos"][k]) if k < len(dump["memos"]) else {}


def _offending(viol, dump):
    """the taxa behind a closure violation: referenced by the member, not in the container's namespace"""
    kind = viol[0]
    if kind == "list-member-taxon":
        n, members = dump["lists"][viol[1]]
        refs = dump["trees"][members[viol[2]]][1]
    elif kind == "tree-taxon":
        n, refs = dump["trees"][viol[1]]
    elif kind == "matrix-row":
        n, refs = dump["mats"][viol[1]]
    else:
        return []
    return [x for x in refs if x not in dump["ns"][n][1]]


def _classify(case, step, op, viol, prev_dump, dump, out):
    key = _classify_base(case, step, op, viol, prev_dump, dump, out)
    if key.startswith("unexplained:") and op[0] in MEMO_OPS:
        vals = set(_memo_in(op, dump).values())
        bad = _offending(viol, dump)
        if bad and all(x in vals for x in bad):
            # the taxon the caller's memo supplied is on the nodes / rows, but was not added to the namespace
            return "memo-supplied-taxon-not-in-namespace:" + op[0]
    return key


def _classify_base(case, step, op, viol, prev_dump, dump, out):
    """a stable, narrow key for a new violation of the closure property"""
    kind = viol[0]
    name = _base_name(op)      # the keyword does not change which object a call re-homes
    if out == ["ORecon"] and name in ("MigrateMat", "ReconstructMat", "Unify"):
        # the refused reconstruction left the matrix (and, inside unify_taxon_namespaces, the data set whose
        # lists were already moved) half-way
        return "matrix-half-migrated-after-reconstruction-error"
    if kind in ("ds-list-ns", "ds-matrix-ns"):
        if name in ("DsAdd", "Attach"):
            return "attached-dataset-foreign-component"
        if name in ("MigrateList", "MigrateMat"):
            return "attached-dataset-component-migrated-away"
        if name == "Unify":
            di = viol[1]
            col = 2 if kind == "ds-list-ns" else 3
            comp = dump["dss"][di][col][viol[2]]
            if di != op[1] and comp in dump["dss"][op[1]][col]:
                # the component is held by two data sets: unify on one of them migrated it away from the
                # namespace the other one is attached to
                return "attached-dataset-component-migrated-away"
            if di == op[1] and not op[3]:
                return "unify-without-attach-leaves-stale-attached-namespace"
    if name.startswith("Purge") and kind in ("list-member-taxon", "matrix-row", "removed-tree-taxon", "tree-taxon"):
        return "purge-removes-taxa-used-by-other-holders"
    if kind in ("list-member-ns", "list-member-taxon") and prev_dump is not None:
        li = viol[1]
        tr = dump["lists"][li][1][viol[2]]
        moved = tr < len(prev_dump["trees"]) and prev_dump["trees"][tr][0] != dump["trees"][tr][0]
        target = op[1] if (name in MOVERS or name == "MigrateList") else None
        if moved and li != target and li < len(prev_dump["lists"]) and tr in prev_dump["lists"][li][1]:
            # the step re-homed a tree object that list `li` was (and is) holding
            if name in MOVERS:
                return "shared-tree-rehomed-by-list-operation"
            if name in ("MigrateList", "MigrateTree", "Unify"):
                return "shared-tree-rehomed-by-migration"
    return "unexplained:%s:%s" % (kind, op[0])


def _storage_shared(op, dump):
    """No two container objects share one mutable storage object (a matrix' _taxon_sequence_map, a tree list's
    _trees): otherwise a later operation on one of them silently changes the other."""
    for i, c in enumerate(dump["mmap"]):
        if c != i:
            return ("matrices %d and %d are different objects but hold one and the same _taxon_sequence_map dict"
                    % (c, i), "matrix-storage-shared")
    for i, c in enumerate(dump["ltl"]):
        if c != i:
            return ("tree lists %d and %d are different objects but hold one and the same _trees list" % (c, i),
                    "tree-list-storage-shared")
    return None


def _consequence(case, obs, step):
    """for the report only: the first later step at which the shared storage shows (another container changed,
    or a container left with members outside its namespace)"""
    seen = set(json.dumps(v) for v in obs[step]["naive"])
    for j in range(step + 1, len(obs)):
        op = case["ops"][j]
        u = _frame(op, obs[j - 1]["dump"], obs[j]["dump"], obs[j - 1]["rows"], obs[j]["rows"])
        if u:
            return "; consequence at step %d %s: %s" % (j, op, u[0])
        new = [v for v in obs[j]["naive"] if json.dumps(v) not in seen]
        if new:
            return "; consequence at step %d %s: %s" % (j, op, _describe(new[0]))
    return ""


LIST_TARGET = ("Append", "Insert", "Extend", "IAdd", "SetItem", "SetSlice", "NewTreeIn", "ReadList", "Pop", "Remove",
               "MigrateList", "AppendM", "InsertM", "MigrateListM")
MAT_TARGET = ("NewSeq", "SetRow", "MigrateMat", "ReconstructMat", "MigrateMatM", "ReconstructMatM")


def _frame(op, before, after, rows_b, rows_a):
    """An operation on one container changes no observation of another one: the (namespace, row taxa, cells) of
    every matrix and the (namespace, member tree objects) of every tree list the step was not applied to are
    what they were; a memo object changes only in a call it was handed to."""
    name = op[0]
    mats = [op[1]] if name in MAT_TARGET else (before["dss"][op[1]][3] if name == "Unify" else [])
    for i, b in enumerate(before["mats"]):
        if i in mats:
            continue
        if i >= len(after["mats"]) or after["mats"][i] != b or rows_a[i] != rows_b[i]:
            return ("matrix %d was (namespace %d, rows %s) and is (namespace %s, rows %s) although the step was applied to %s"
                    % (i, b[0], rows_b[i], after["mats"][i][0] if i < len(after["mats"]) else None,
                       rows_a[i] if i < len(rows_a) else None, "matrix %s" % mats if mats else "no matrix"),
                    "matrix-changed-by-operation-on-another-object")
    lists = [op[1]] if name in LIST_TARGET else (before["dss"][op[1]][2] if name == "Unify" else [])
    for i, b in enumerate(before["lists"]):
        if i in lists:
            continue
        if i >= len(after["lists"]) or after["lists"][i] != b:
            return ("tree list %d was %s and is %s although the step was applied to %s"
                    % (i, b, after["lists"][i] if i < len(after["lists"]) else None,
                       "list %s" % lists if lists else "no list"), "list-changed-by-operation-on-another-object")
    mine = op[MEMO_OPS[name][1]] if name in MEMO_OPS else None
    for i, b in enumerate(before["memos"]):
        if i != mine and after["memos"][i] != b:
            return ("memo %d changed from %s to %s in a call that was not handed it" % (i, b, after["memos"][i]),
                    "memo-changed-by-other-operation")
    return None


def oracle(case, obs):
    pool = case["pool"]
    prev = set()
    prev_dump = None
    n_removed = 0
    prev_rows = []
    pending = None
    for step, (op0, o) in enumerate(zip(case["ops"], obs)):
        dump = o["dump"]
        if prev_dump is not None:
            u = _refused(op0, o["out"], prev_dump, dump, prev_rows, o["rows"])
            if u:
                return ("after step %d %s (outcome %s): %s" % (step, op0, o["out"], u[0]), u[1] + ":" + _inner(op0)[0])
        op = _inner(op0)        # a call whose extra keyword was never looked at is the plain call
        u = _storage_shared(op, dump)
        if u:
            return ("after step %d %s: %s%s" % (step, op, u[0], _consequence(case, obs, step)), u[1] + ":" + op[0])
        if prev_dump is not None:
            u = _frame(op, prev_dump, dump, prev_rows, o["rows"])
            if u:
                return ("after step %d %s (outcome %s): %s" % (step, op, o["out"], u[0]), u[1] + ":" + op[0])
        # no operation of these histories deletes a sequence: every row present before the step is still
        # there (same cells, a label that differs at most in case), whatever taxon it is keyed by now;
        # only matrix[key] = values may replace the cells of one row
        lost = _sequences_lost(op, prev_rows, o["rows"], relabel=bool(_memo_in(op, prev_dump)))
        if lost:
            return ("after step %d %s (outcome %s): %s" % (step, op, o["out"], lost), "matrix-sequence-lost:" + op[0])
        prev_rows = o["rows"]
        cur = set(json.dumps(v) for v in o["naive"])
        new = [json.loads(x) for x in sorted(cur - prev)]
        if new:
            v = new[0]
            key = _classify(case, step, op, v, prev_dump, dump, o["out"])
            return ("after step %d %s (outcome %s): %s; all new violations: %s"
                    % (step, op, o["out"], _describe(v), new[:6]), key)
        # removed trees: at the moment of removal the tree still refers to the list's namespace object
        for tr, ns, same in o["removed"][n_removed:]:
            if not same:
                return ("tree %d removed at step %d %s no longer refers to the list's namespace object" % (tr, step, op),
                        "removed-tree-namespace:" + op[0])
        n_removed = len(o["removed"])
        # label unification of what was migrated / cloned in this step
        if prev_dump is not None and o["out"][0] in ("OUnit", "OId"):
            u = _unification(pool, op, prev_dump, dump)
            if u:
                return ("after step %d %s: %s" % (step, op, u[0]), u[1] + ":" + op[0])
        if o["out"][0] == "OUnit":
            u = _list_unified(pool, op, dump)
            if u:
                return ("after step %d %s: %s" % (step, op, u[0]), u[1] + ":" + op[0])
        if prev_dump is not None:
            u = _route_members(pool, op, prev_dump, dump) or _clone_label_map(pool, op, prev_dump, dump)
            if u:
                return ("after step %d %s (outcome %s): %s" % (step, op, o["out"], u[0]), u[1] + ":" + op[0])
            if o["out"][0] in ("OUnit", "OId"):
                u = _first_member(pool, op, prev_dump, dump)
                if u and u[1] == READ_LAST_KEY:
                    # the listed finding leaves every object consistent: remember it and go on, so that it does
                    # not hide what later imports of the same history do
                    pending = pending or ("after step %d %s (outcome %s): %s" % (step, op, o["out"], u[0]), u[1])
                elif u:
                    return ("after step %d %s (outcome %s): %s" % (step, op, o["out"], u[0]), u[1] + ":" + op[0])
        prev = cur
        prev_dump = dump
    return pending


def _inner(op):
    return op[1] if op[0] == "BadKw" else op


def _documented_refusal(op, before):
    """is the call one the API documents to refuse - and does the unchanged library refuse it before it touched
    anything?  (Deliberately NOT in this class: an item assignment with an index out of range - the tree is
    imported first -, reader errors in the middle of a source, reads whose case-sensitivity keyword contradicts
    the namespace - DataSet.read has made the new tree list by then.)"""
    if op[0] == "BadKw":
        return "a keyword the API does not know (unify_taxa_by_labels)"
    name = _base_name(op)
    if name in ("Append", "Insert"):
        return "an unrecognised taxon_import_strategy / keyword"
    if name == "NewTreeIn":
        return "new_tree with a taxon_namespace that is not the list's"
    if name == "ReadList" and op[4] is not None and op[4] != before["lists"][op[1]][0]:
        return "read with a taxon_namespace that is not the list's"
    if name in ("DsNewList", "DsNewMat", "DsReadTrees", "DsReadFasta"):
        att = before["dss"][op[1]][0]
        ns = op[2] if name in ("DsNewList", "DsNewMat", "DsReadFasta") else op[4]
        if att is not None and ns is not None and ns != att:
            return "a taxon_namespace that is not the attached one"
        return None
    if name == "ArrayAdd":
        return "a tree under another namespace offered to a TreeArray"
    if name in ("Pop", "Remove"):
        return "an index out of range / a tree that is not a member"
    if name == "NewSeq":
        return "new_sequence for a taxon outside the namespace / a taxon that has a sequence"
    if name == "SetRow":
        return "a row key that does not resolve"
    return None


def _refused(op, out, before, after, rows_b, rows_a):
    """A refused operation changes nothing: when one of the calls above ends in its exception, every namespace,
    tree, list, matrix (rows and cells), data set, memo and storage object of the history is what it was before
    the call, and no taxon object has been made."""
    if out[0] != "OErr":
        return None
    why = _documented_refusal(op, before)
    if why is None:
        return None
    for k in ("lab", "ns", "trees", "lists", "mats", "dss", "memos", "mmap", "ltl"):
        if before[k] != after[k]:
            diff = [(i, b, a) for i, (b, a) in enumerate(zip(before[k], after[k])) if a != b][:2]
            return ("the call was refused (%s) but changed %s: %s%s" % (why, k, diff,
                    "" if len(before[k]) == len(after[k]) else "; %d -> %d entries" % (len(before[k]), len(after[k]))),
                    "refused-operation-changed-state")
    if rows_b != rows_a:
        return ("the call was refused (%s) but changed matrix rows" % why, "refused-operation-changed-state")
    return None


READ_LAST_KEY = "read-resolves-duplicate-label-to-last-member"      # listed in known_findings.txt
READ_CLAUSE_ON = True


def _first_member(pool, op, before, after):
    """Every import route resolves a label to the FIRST member of the target namespace that matches it under the
    namespace's own case rule (what TaxonNamespace.require_taxon documents; members are only ever appended, so
    the first match cannot change while a step runs): append / insert / item and slice assignment / extend / += /
    + of plain trees (the tree is migrated), of a TreeList (its trees are cloned), Tree- / TreeList- /
    CharacterMatrix.migrate_taxon_namespace and .reconstruct_taxon_namespace with unify_taxa_by_label=True,
    DataSet.unify_taxon_namespaces.  Otherwise leaves with equal labels, brought into one list by two routes,
    sit on different Taxon objects as soon as the namespace holds a label twice (taxon_import_strategy='add').
    Nodes / rows the caller's own taxon_mapping_memo names are the caller's choice and exempt."""
    name = _base_name(op)
    memo = _memo_in(op, before)
    lab = after["lab"]

    def first(n, x):
        cs, members = after["ns"][n]
        k = pool[lab[x]] if cs else pool[lab[x]].lower()
        for m in members:
            if (pool[lab[m]] if cs else pool[lab[m]].lower()) == k:
                return m
        return None

    def bad(what, n, x, y):
        f = first(n, x)
        if f is not None and f != y:
            cs, members = after["ns"][n]
            return ("%s: label %r was resolved to taxon #%d (member %d of namespace %d), but the first member of that "
                    "%s namespace matching it is #%d (member %d): require_taxon - every other import route - takes "
                    "the first one" % (what, pool[lab[x]], y, members.index(y) if y in members else -1, n,
                                       "case-sensitive" if cs else "case-insensitive", f, members.index(f)),
                    "import-not-first-matching-member")
        return None

    if name in ("ReadList", "DsReadTrees"):
        if not READ_CLAUSE_ON:
            return None
        for i in range(len(before["trees"]), len(after["trees"])):
            n, refs = after["trees"][i]
            cs, members = after["ns"][n]
            keyf = (lambda q: pool[lab[q]]) if cs else (lambda q: pool[lab[q]].lower())
            for y in refs:
                u = bad("tree %d (read)" % i, n, y, y)
                if u:
                    same = [m for m in members if keyf(m) == keyf(y)]
                    if len(same) >= 2 and y == same[-1]:
                        # the listed finding, and nothing else: the namespace holds SEVERAL members matching the
                        # label and the readers' symbol table (later members overwrite earlier ones) took the last
                        return (u[0] + " [the namespace holds %d members matching the label; the reader took the LAST]"
                                % len(same), READ_LAST_KEY)
                    return u        # any other disagreement with require_taxon: unlisted
        return None
    unify, targets = True, set()
    if name in ("Append", "Insert"):
        s_ = op[3] if name == "Append" else op[4]
        if s_ != ["SMigrate", True]:
            return None
    elif name in ("MigrateTree", "MigrateList", "MigrateMat"):
        unify = bool(op[3])
    elif name in ("ReconstructTree", "ReconstructList", "ReconstructMat"):
        unify = bool(op[2])
    elif name not in ("SetItem", "Extend", "IAdd", "Add", "SetSlice", "Unify"):
        return None
    if not unify:
        return None
    tmats = []
    if name == "ReconstructTree":
        targets.add(op[1])
    elif name in ("ReconstructList", "MigrateList"):
        targets |= set(before["lists"][op[1]][1])
    elif name == "Unify":
        for l in before["dss"][op[1]][2]:
            targets |= set(before["lists"][l][1])
        tmats = list(before["dss"][op[1]][3])
    elif name in ("MigrateMat", "ReconstructMat"):
        tmats = [op[1]]
    twice = set()
    if op[0] in ("MigrateListM", "ReconstructListM"):
        held = before["lists"][op[1]][1]
        twice = set(t for t in held if held.count(t) > 1)
    # (1) tree objects the step migrated (namespace changed) or re-mapped in place
    for i, (b, a) in enumerate(zip(before["trees"], after["trees"])):
        if (b[0] == a[0] and i not in targets) or i in twice or len(b[1]) != len(a[1]):
            continue
        for x, y in zip(b[1], a[1]):
            if x in memo:
                continue
            u = bad("tree %d (migrated)" % i, a[0], x, y)
            if u:
                return u
    # (2) clones of the trees of a TreeList
    if name in ("Extend", "IAdd", "Add", "SetSlice") and op[-1][0] == "SrcList":
        clones = list(range(len(before["trees"]), len(after["trees"])))
        sources = list(before["lists"][op[-1][1]][1])
        if name == "Add":
            sources = list(before["lists"][op[1]][1]) + sources
        if len(clones) == len(sources):
            for c, s0 in zip(clones, sources):
                tn, refs_c = after["trees"][c]
                if before["trees"][s0][0] == tn or len(refs_c) != len(before["trees"][s0][1]):
                    continue
                for x, y in zip(before["trees"][s0][1], refs_c):
                    u = bad("tree %d (clone of tree %d)" % (c, s0), tn, x, y)
                    if u:
                        return u
    # (3) rows of migrated / reconstructed matrices (re-keyed under the same label up to case)
    for m in tmats:
        if m >= len(after["mats"]) or any(x in memo for x in before["mats"][m][1]):
            continue
        n, rows = after["mats"][m]
        for y in rows:
            u = bad("matrix %d (row)" % m, n, y, y)
            if u:
                return u
    return None


def _list_unified(pool, op, after):
    """TreeList.reconstruct_taxon_namespace(unify_taxa_by_label=True), TreeList.migrate_taxon_namespace(ns,
    unify_taxa_by_label=True) and DataSet.unify_taxon_namespaces re-map EVERY member tree by label, also the
    trees that already refer to the list's namespace object (e.g. after append(..., taxon_import_strategy='add')
    left label-equal taxa side by side): afterwards, over all trees of the list, labels equal under the
    namespace's case rule sit on ONE Taxon object, and every node taxon is a member of the namespace."""
    name = op[0]
    if name == "ReconstructList" and op[2]:
        ls = [op[1]]
    elif name == "MigrateList" and op[3]:
        ls = [op[1]]
    elif name == "Unify":
        ls = list(after["dss"][op[1]][2])
    else:
        return None
    lab = after["lab"]
    for li in ls:
        n, members = after["lists"][li]
        cs, ns_members = after["ns"][n]
        keyf = (lambda x: pool[lab[x]]) if cs else (lambda x: pool[lab[x]].lower())
        seen = {}
        for pos, tr in enumerate(members):
            tn, refs = after["trees"][tr]
            for x in refs:
                if x not in ns_members:
                    return ("tree at position %d of list %d carries taxon %r (#%d) that is not a member of the list's "
                            "namespace %d" % (pos, li, pool[lab[x]], x, n), "list-not-reconstructed")
                y = seen.setdefault(keyf(x), x)
                if y != x:
                    return ("the trees of list %d carry label %r on two different Taxon objects (#%d %r and #%d %r) of "
                            "namespace %d (%s) although every member tree was to be re-mapped by label"
                            % (li, keyf(x), y, pool[lab[y]], x, pool[lab[x]], n,
                               "case-sensitive" if cs else "case-insensitive"), "list-not-unified")
    return None


def _by_label_route(op):
    """does the step create taxa only through a look-up by label (require_taxon / the readers' symbol map)?"""
    name = _base_name(op)
    if name in ("Extend", "IAdd", "Add", "SetItem", "SetSlice", "GetSlice", "ReadList", "DsReadTrees", "DsReadFasta", "Unify"):
        return True
    if name == "Append":
        return op[3] == ["SMigrate", True]
    if name == "Insert":
        return op[4] == ["SMigrate", True]
    if name in ("MigrateList", "MigrateTree", "MigrateMat"):
        return bool(op[3])
    if name in ("ReconstructList", "ReconstructTree", "ReconstructMat"):
        return bool(op[2])
    return False


def _route_members(pool, op, before, after):
    """Whatever a copy / migration / read adds to a namespace was looked up by label first: a taxon is only
    created when no member matches under the namespace's case rule, so no member the step adds is equal
    (under that rule) to another member - else label-equal items sit on different taxa."""
    if not _by_label_route(op):
        return None
    lab = after["lab"]
    given = set(_memo_in(op, before).values())      # targets the caller's memo names: added as they are, not by label
    for n, (cs, members) in enumerate(after["ns"]):
        old = before["ns"][n][1] if n < len(before["ns"]) else []
        fresh = [x for x in members if x not in old and x not in given]
        keyf = (lambda x: pool[lab[x]]) if cs else (lambda x: pool[lab[x]].lower())
        for x in fresh:
            twins = [y for y in members if y != x and keyf(y) == keyf(x) and not (y in given and y not in old)]
            if twins:
                return ("namespace %d (%s) gained taxon %r although it holds %r: equal labels now sit on different taxa"
                        % (n, "case-sensitive" if cs else "case-insensitive", pool[lab[x]], [pool[lab[y]] for y in twins]),
                        "route-created-duplicate-member")
    return None


def _clone_label_map(pool, op, before, after):
    """Trees cloned from a TreeList in one step (extend / += / + / slice assignment): over all clones,
    source labels equal under the target's case rule are on ONE target taxon, nothing dropped."""
    name = op[0]
    if name not in ("Extend", "IAdd", "Add", "SetSlice") or op[-1][0] != "SrcList":
        return None
    src_list = op[-1][1]
    nb = len(before["trees"])
    clones = list(range(nb, len(after["trees"])))
    sources = list(before["lists"][src_list][1])
    if name == "Add":
        sources = list(before["lists"][op[1]][1]) + sources
    if len(clones) != len(sources):
        return None
    lab = after["lab"]
    seen = {}
    for c, s0 in zip(clones, sources):
        tn, refs_c = after["trees"][c]
        refs_s = before["trees"][s0][1]
        if before["trees"][s0][0] == tn:
            continue        # same namespace object: taxa are shared as they are, nothing is looked up
        cs = after["ns"][tn][0]
        if len(refs_c) != len(refs_s):
            return ("clone %d of tree %d has %d taxon references, the original %d" % (c, s0, len(refs_c), len(refs_s)),
                    "clone-dropped")
        for x, y in zip(refs_s, refs_c):
            k = pool[lab[x]] if cs else pool[lab[x]].lower()
            if seen.setdefault((tn, k), y) != y:
                return ("source label %r is on taxon %d in one copied tree and on taxon %d in another (namespace %d)"
                        % (k, seen[(tn, k)], y, tn), "clone-label-split")
    return None


def _sequences_lost(op, before, after, relabel=False):
    """relabel: the step is a matrix migration under a caller-supplied mapping, which may file a row of that
    matrix under a taxon with another label (the caller's choice)"""
    for i, rows_b in enumerate(before):
        rows_a = after[i] if i < len(after) else []
        left = [list(r) for r in rows_a]
        missing = []
        for lab, seq in rows_b:
            hit = None
            for r in left:
                if r[1] == seq:
                    hit = r
                    break
            if hit is None:
                missing.append([lab, seq])
                continue
            left.remove(hit)
            if hit[0].lower() != lab.lower() and not (relabel and op[0] in ("MigrateMatM", "ReconstructMatM") and op[1] == i):
                return "matrix %d: the sequence of %r is now filed under %r" % (i, lab, hit[0])
        allowed = 1 if (op[0] == "SetRow" and op[1] == i) else 0
        if len(missing) > allowed or len(rows_a) < len(rows_b):
            return ("matrix %d had %d sequences %s before the step and has %d after it: lost %s without an exception that says so"
                    % (i, len(rows_b), [r[0] for r in rows_b], len(rows_a), missing))
    return None


def _describe(v):
    k = v[0]
    if k == "list-member-ns":
        return "tree at position %d of list %d does not refer to the list's namespace object" % (v[2], v[1])
    if k == "list-member-taxon":
        return "a node of the tree at position %d of list %d carries a taxon that is not in the list's namespace" % (v[2], v[1])
    if k == "matrix-row":
        return "matrix %d has a sequence for a taxon that is not in its namespace" % v[1]
    if k == "ds-list-ns":
        return "tree list %d of data set %d does not refer to the attached namespace" % (v[2], v[1])
    if k == "ds-matrix-ns":
        return "matrix %d of data set %d does not refer to the attached namespace" % (v[2], v[1])
    if k == "removed-tree-taxon":
        return "removed tree #%d carries a taxon that is not in its own namespace" % v[1]
    if k == "tree-taxon":
        return "tree object %d carries a taxon that is not in the namespace it refers to" % v[1]
    return str(v)


def _unification(pool, op, before, after):
    """Trees / matrices whose namespace changed in this step were migrated by label:
    nothing dropped, label-equal items on one taxon, label-different items on different taxa."""
    name = _base_name(op)
    memo = _memo_in(op, before)
    lab = after["lab"]
    unify = True
    if name in ("MigrateList", "MigrateTree", "MigrateMat"):
        unify = op[3]
    if name in ("Append",) and op[3][0] != "SMigrate":
        return None
    if name in ("Insert",) and op[4][0] != "SMigrate":
        return None
    if name in ("Append",):
        unify = op[3][1]
    if name in ("Insert",):
        unify = op[4][1]
    if name in ("UpdateList", "UpdateTree", "NewTreeIn", "MkTree"):
        return None
    twice = set()
    if op[0] in ("MigrateListM", "ReconstructListM"):
        # a tree object the list holds twice is re-mapped twice in one call, the second time through whatever
        # the caller's memo says about the counterparts of the first pass: no statement about it here
        held = before["lists"][op[1]][1]
        twice = set(t for t in held if held.count(t) > 1)
    for kind in ("trees", "mats"):
        for i, (b, a) in enumerate(zip(before[kind], after[kind])):
            if b[0] == a[0] or (kind == "trees" and i in twice):
                continue
            cs = after["ns"][a[0]][0]
            keyf = (lambda s: s) if cs else (lambda s: s.lower())
            br, ar = b[1], a[1]
            if kind == "mats":
                for x in br:
                    if x in memo and memo[x] not in ar and not (not unify and x in ar and x in after["ns"][a[0]][1]):
                        return ("matrix %d: the caller's memo maps taxon #%d to #%d, but the row is not filed under it: %s -> %s"
                                % (i, x, memo[x], br, ar), "memo-mapping-not-honoured")
                if any(x in memo for x in br):
                    continue
                # rows are re-keyed in dict order: compare as label multisets and per-label targets
                if sorted(keyf(pool[lab[x]]) for x in br) != sorted(keyf(pool[lab[x]]) for x in ar):
                    return ("matrix %d lost or gained a sequence label when migrated: %s -> %s"
                            % (i, [pool[lab[x]] for x in br], [pool[lab[x]] for x in ar]), "matrix-migration-dropped")
                continue
            if len(br) != len(ar):
                return ("tree %d has %d taxon references before and %d after the migration" % (i, len(br), len(ar)),
                        "migration-dropped")
            for x, y in zip(br, ar):
                if x in memo:
                    # "taxon to use is given by mapping": the node carries it, and it is a member now
                    if y != memo[x] and not (not unify and y == x and x in after["ns"][a[0]][1]):
                        return ("tree %d: the caller's memo maps taxon #%d to #%d, the node carries #%d" % (i, x, memo[x], y),
                                "memo-mapping-not-honoured")
                    if y not in after["ns"][a[0]][1]:
                        return ("tree %d: taxon #%d %r supplied by the caller's memo is on a node but not a member of the "
                                "target namespace %d" % (i, y, pool[lab[y]], a[0]), "memo-supplied-taxon-not-in-namespace")
                    continue
                if keyf(pool[lab[x]]) != keyf(pool[lab[y]]):
                    return ("tree %d: node taxon %r became %r" % (i, pool[lab[x]], pool[lab[y]]), "migration-relabelled")
                if y not in after["ns"][a[0]][1]:
                    return ("tree %d: migrated taxon %r is not a member of the target namespace" % (i, pool[lab[y]]),
                            "migration-not-member")
            for p in range(len(br)):
                for q in range(p + 1, len(br)):
                    if br[p] in memo or br[q] in memo:
                        continue
                    same_key = keyf(pool[lab[br[p]]]) == keyf(pool[lab[br[q]]])
                    if unify and same_key and ar[p] != ar[q]:
                        return ("tree %d: two nodes with equal labels %r ended on different taxa" % (i, pool[lab[br[p]]]),
                                "migration-duplicated")
                    if not same_key and ar[p] == ar[q]:
                        return ("tree %d: nodes with different labels %r / %r were merged onto one taxon"
                                % (i, pool[lab[br[p]]], pool[lab[br[q]]]), "migration-merged")
                    if not unify and br[p] != br[q] and ar[p] == ar[q] and b[0] != a[0] \
                            and br[p] not in after["ns"][a[0]][1] and br[q] not in after["ns"][a[0]][1]:
                        return ("tree %d: distinct taxa merged although unify_taxa_by_label=False" % i, "migration-merged-nounify")
    return None


# ----------------------------------------------------------------------------------------------
# Coq terms
# ----------------------------------------------------------------------------------------------

def nl(xs):
    return clist([str(int(x)) for x in xs])


def c_strat(s):
    return "(SMigrate %s)" % cbool(s[1]) if s[0] == "SMigrate" else s[0]


def c_src(s):
    return "(SrcList %d)" % s[1] if s[0] == "SrcList" else "(SrcTrees %s)" % nl(s[1])


def c_on(x):
    return "None" if x is None else "(Some %d)" % x


def c_oz(x):
    return copt(x, cz)


def c_pairs(ps):
    return clist([cpair(str(int(a)), str(int(b))) for a, b in ps])


def c_op8(op):
    """a term of C11W8Model.op8"""
    if op[0] == "BadKw":
        return "(BadKw %s)" % c_op(op[1])
    return "(Op7 %s)" % c_op(op)


def c_op(op):
    """a term of C11W7Model.op7"""
    n = op[0]
    if n == "FreeTaxon":
        return "(FreeTaxon %d)" % op[1]
    if n == "NewMemo":
        return "(NewMemo %s)" % c_pairs(op[1])
    if n in ("CopyMat", "CopyList"):
        return "(%s %d)" % (n, op[1])
    if n == "AppendM":
        return "(AppendM %d %d %s %d)" % (op[1], op[2], c_strat(op[3]), op[4])
    if n == "InsertM":
        return "(InsertM %d %s %d %s %d)" % (op[1], cz(op[2]), op[3], c_strat(op[4]), op[5])
    if n in ("MigrateTreeM", "MigrateListM", "MigrateMatM"):
        return "(%s %d %d %s %d)" % (n, op[1], op[2], cbool(op[3]), op[4])
    if n in ("ReconstructTreeM", "ReconstructListM", "ReconstructMatM"):
        return "(%s %d %s %d)" % (n, op[1], cbool(op[2]), op[3])
    return "(Base %s)" % c_op_base(op)


def c_op_base(op):
    """a term of C11Model.op"""
    n = op[0]
    if n == "NewNs":
        return "(NewNs %s)" % cbool(op[1])
    if n == "NewTaxon":
        return "(NewTaxon %d %d)" % (op[1], op[2])
    if n == "MkTree":
        return "(MkTree %d %s)" % (op[1], nl(op[2]))
    if n in ("NewList", "NewMat", "UpdateList", "PurgeList", "UpdateTree", "PurgeTree", "UpdateMat", "PurgeMat", "Detach"):
        return "(%s %d)" % (n, op[1])
    if n == "NewDs":
        return "NewDs"
    if n == "Append":
        return "(Append %d %d %s)" % (op[1], op[2], c_strat(op[3]))
    if n == "Insert":
        return "(Insert %d %s %d %s)" % (op[1], cz(op[2]), op[3], c_strat(op[4]))
    if n in ("Extend", "IAdd", "Add"):
        return "(%s %d %s)" % ("AddOp" if n == "Add" else n, op[1], c_src(op[2]))
    if n == "SetItem":
        return "(SetItem %d %s %d)" % (op[1], cz(op[2]), op[3])
    if n == "SetSlice":
        return "(SetSlice %d %s %s %s)" % (op[1], c_oz(op[2]), c_oz(op[3]), c_src(op[4]))
    if n == "GetSlice":
        return "(GetSlice %d %s %s)" % (op[1], c_oz(op[2]), c_oz(op[3]))
    if n == "NewTreeIn":
        return "(NewTreeIn %d %s %s)" % (op[1], c_on(op[2]), nl(op[3]))
    if n in ("ReadList", "DsReadTrees"):
        return "(%s %d %s %s %s %s)" % (n, op[1], op[2], cbool(op[3]), c_on(op[4]), clist([nl(t) for t in op[5]]))
    if n == "Pop":
        return "(Pop %d %s)" % (op[1], cz(op[2]))
    if n in ("Remove", "ArrayAdd", "NewSeq", "Attach"):
        return "(%s %d %d)" % (n, op[1], op[2])
    if n in ("MigrateList", "MigrateTree", "MigrateMat"):
        return "(%s %d %d %s)" % (n, op[1], op[2], cbool(op[3]))
    if n in ("ReconstructList", "ReconstructTree", "ReconstructMat"):
        return "(%s %d %s)" % (n, op[1], cbool(op[2]))
    if n == "SetRow":
        k = op[2]
        kk = "(KeyIndex %s)" % cz(k[1]) if k[0] == "KeyIndex" else "(%s %d)" % (k[0], k[1])
        return "(SetRow %d %s)" % (op[1], kk)
    if n == "DsAdd":
        return "(DsAdd %d (%s %d))" % (op[1], op[2][0], op[2][1])
    if n in ("DsNewList", "DsNewMat"):
        return "(%s %d %s)" % (n, op[1], c_on(op[2]))
    if n == "DsReadFasta":
        return "(DsReadFasta %d %s %s)" % (op[1], c_on(op[2]), nl(op[3]))
    if n == "Unify":
        return "(Unify %d %s %s)" % (op[1], c_on(op[2]), cbool(op[3]))
    raise ValueError(op)


def c_out(o):
    if o[0] == "OId":
        return "(OId %d)" % o[1]
    if o[0] == "OErr":
        return "(OErr %s)" % o[1]
    return o[0]


def c_dump(d):
    obj = lambda p: cpair(str(p[0]), nl(p[1]))
    return "(%s, %s, %s, %s, %s, %s)" % (
        nl(d["lab"]),
        clist([cpair(cbool(n[0]), nl(n[1])) for n in d["ns"]]),
        clist([obj(t) for t in d["trees"]]),
        clist([obj(t) for t in d["lists"]]),
        clist([obj(t) for t in d["mats"]]),
        clist(["(%s, %s, %s, %s)" % (c_on(x[0]), nl(x[1]), nl(x[2]), nl(x[3])) for x in d["dss"]]))


def c_dump7(d):
    return "(%s, %s, %s, %s)" % (c_dump(d), clist([c_pairs(m) for m in d["memos"]]), nl(d["mmap"]), nl(d["ltl"]))


def lower_table(pool):
    low = {}
    pairs = []
    for i, s in enumerate(pool):
        l = s.lower()
        if l in pool:
            pairs.append((i, pool.index(l)))
        else:
            low.setdefault(l, 1000 + i)
            pairs.append((i, low[l]))
    return clist([cpair(str(a), str(b)) for a, b in pairs])


def to_coq(case, obs):
    exp = clist([cpair(c_out(o["out"]), c_dump7(o["dump"])) for o in obs])
    return "(mkCase8 %s %s %s)" % (lower_table(case["pool"]), clist([c_op8(o) for o in case["ops"]]), exp)


def nontrivial(case, obs):
    """>= 6 steps, >= 2 namespaces, and some step re-mapped a tree or matrix into another namespace"""
    if len(obs) < 6 or len(obs[-1]["dump"]["ns"]) < 2:
        return False
    for a, b in zip(obs, obs[1:]):
        for kind in ("trees", "mats"):
            for x, y in zip(a["dump"][kind], b["dump"][kind]):
                if x[0] != y[0] and x[1]:
                    return True
        if len(b["dump"]["trees"]) > len(a["dump"]["trees"]) + 0 and b["out"][0] == "OUnit":
            return True
    return False


# ----------------------------------------------------------------------------------------------
# fixed cases: the call sites named in the property text, incl. the reported findings
# ----------------------------------------------------------------------------------------------

P6 = ["A", "B", "C", "a", "b", "c"]
EX_BASE = [["NewNs", False], ["NewNs", False], ["NewNs", True],
           ["NewTaxon", 0, 0], ["NewTaxon", 0, 1], ["NewTaxon", 1, 3], ["NewTaxon", 1, 2],
           ["NewTaxon", 2, 0], ["NewTaxon", 2, 3],
           ["NewList", 0], ["NewList", 1], ["NewList", 2],
           ["MkTree", 0, [0, 1]], ["MkTree", 1, [2, 3]], ["MkTree", 2, [4, 5]], ["MkTree", 2, [5, 4, 4]]]
M1 = ["SMigrate", True]

# the witnesses of the `_refuted` theorems and the non-vacuity history of coq/Proofs/C11Examples.v:
# (lemma name, prefix after ex_base, last op, oracle key expected on the implementation | None)
WITNESSES = [
    ("append_shared_tree_refuted_l", [["Append", 1, 1, M1]], ["Append", 0, 1, M1], "shared-tree-rehomed-by-list-operation"),
    ("migrate_slice_refuted_l", [["Append", 1, 1, M1], ["GetSlice", 1, None, None]], ["MigrateList", 3, 0, True],
     "shared-tree-rehomed-by-migration"),
    ("dataset_add_foreign_refuted_l", [["NewDs"], ["Attach", 0, 0]], ["DsAdd", 0, ["ObjList", 1], False],
     "attached-dataset-foreign-component"),
    ("dataset_attach_foreign_refuted_l", [["NewDs"], ["DsAdd", 0, ["ObjList", 1], False]], ["Attach", 0, 0],
     "attached-dataset-foreign-component"),
    ("purge_shared_namespace_refuted_l", [["Append", 0, 0, M1], ["NewList", 0], ["Append", 3, 1, M1]], ["PurgeList", 0],
     "purge-removes-taxa-used-by-other-holders"),
    ("matrix_reconstruction_error_refuted_l", [["NewMat", 2], ["NewSeq", 0, 4], ["NewSeq", 0, 5]], ["MigrateMat", 0, 0, True],
     "matrix-half-migrated-after-reconstruction-error"),
    ("unify_reconstruction_error_refuted_l",
     [["NewMat", 2], ["NewSeq", 0, 4], ["NewSeq", 0, 5], ["NewDs"], ["DsAdd", 0, ["ObjMat", 0], False], ["DsAdd", 0, ["ObjList", 0], False]],
     ["Unify", 0, None, True], "matrix-half-migrated-after-reconstruction-error"),
]

# the tree list (tree 2 carries A and a of the case-sensitive ns2) and the matrix (rows A, a) of one data set:
# the list is migrated first and fills the memo, the matrix meets both rows through the memo
SHARED_MEMO = [
    ("unify_shared_memo_collision_l",
     [["Append", 2, 2, M1], ["NewMat", 2], ["NewSeq", 0, 4], ["NewSeq", 0, 5], ["NewDs"],
      ["DsAdd", 0, ["ObjList", 2], False], ["DsAdd", 0, ["ObjMat", 0], False]], ["Unify", 0, None, True]),
    ("unify_shared_memo_collision_given_l",
     [["Append", 2, 2, M1], ["NewMat", 2], ["NewSeq", 0, 5], ["NewSeq", 0, 4], ["NewDs"],
      ["DsAdd", 0, ["ObjMat", 0], False], ["DsAdd", 0, ["ObjList", 2], False]], ["Unify", 0, 0, False]),
]

EX_HISTORY = [
    ["Append", 0, 1, M1], ["Append", 0, 2, ["SAdd"]], ["Insert", 0, -1, 3, ["SMigrate", False]],
    ["ReadList", 1, "Newick", False, None, [[0, 4], [5, 1]], 5], ["ReadList", 2, "Nexus", True, None, [[0, 3, 1]], 2],
    ["Extend", 1, ["SrcList", 0]], ["IAdd", 2, ["SrcTrees", [0]]], ["Add", 0, ["SrcList", 2]], ["GetSlice", 3, 1, None],
    ["SetSlice", 1, 0, 1, ["SrcList", 2]], ["MkTree", 1, [2, 3]], ["SetItem", 1, -1, 9],
    ["NewTreeIn", 0, None, [2, 5]], ["Pop", 1, 0], ["Remove", 0, 1], ["MigrateTree", 4, 2, True],
    ["ReconstructList", 0, True], ["UpdateList", 2], ["MigrateList", 2, 1, True],
    ["NewMat", 0], ["NewSeq", 0, 0], ["SetRow", 0, ["KeyLabel", 4]], ["MigrateMat", 0, 1, True], ["UpdateMat", 0],
    ["NewDs"], ["DsAdd", 0, ["ObjList", 1], False], ["DsAdd", 0, ["ObjMat", 0], True], ["DsReadTrees", 0, "Newick", False, None, [[0, 1]], 1],
    ["DsReadFasta", 0, None, [3, 1]], ["Unify", 0, None, True], ["DsNewList", 0, None], ["DsReadTrees", 0, "Nexus", False, None, [[2, 0]], 3],
    ["ArrayAdd", 1, 4], ["ArrayAdd", 2, 4], ["NewNs", False], ["NewTaxon", 6, 1], ["NewTaxon", 6, 2], ["MkTree", 6, [17]], ["PurgeTree", 21],
    ["Detach", 0], ["DsNewMat", 0, 6], ["NewDs"], ["Attach", 1, 6], ["DsNewMat", 1, None], ["DsNewList", 1, 6], ["Detach", 1],
]


def _norm(text):
    return "".join(ch for ch in text if ch not in "() \n\t")


def check_witnesses(ctx):
    """The witnesses used in Proofs/C11Examples.v are the histories this harness replays on the library."""
    import os
    import re
    src = open(os.path.join(core.COQ, "Proofs", "C11Examples.v")).read()
    src = core.strip_coq_comments(src)
    ok = True

    def ops_text(ops):
        return _norm(clist([c_op_base(o) for o in ops]))

    m = re.search(r"Definition ex_base : list op :=(.*?)\.\s*\n", src, re.S)
    ok &= bool(m) and _norm(m.group(1)) == ops_text(EX_BASE)
    m = re.search(r"Definition ex_history : list op :=(.*?)\.\s*\n", src, re.S)
    ok &= bool(m) and _norm(m.group(1)) == ops_text(EX_HISTORY)
    for name, prefix, last, _key in WITNESSES:
        m = re.search(r"Lemma %s :\s*let st := ex_state (\[.*?\]) in\s*let o := (.*?) in" % name, src, re.S)
        good = bool(m) and _norm(m.group(1)) == ops_text(prefix) and _norm(m.group(2)) == _norm(c_op_base(last))
        if not good:
            ctx.notes.append("witness %s of Proofs/C11Examples.v differs from the harness' copy" % name)
        ok &= good
    for name, prefix, last in SHARED_MEMO:
        m = re.search(r"Lemma %s :\s*let st := ex_state (\[.*?\]) in\s*let o := (.*?) in" % name, src, re.S)
        good = bool(m) and _norm(m.group(1)) == ops_text(prefix) and _norm(m.group(2)) == _norm(c_op_base(last))
        if not good:
            ctx.notes.append("witness %s of Proofs/C11Examples.v differs from the harness' copy" % name)
        ok &= good
        case = {"pool": P6, "ops": EX_BASE + prefix + [last]}
        obs = observe(case)
        ctx.obligation("shared-memo collision %s: the implementation refuses (TaxonNamespaceReconstructionError) and keeps every row" % name,
                       obs[-1]["out"] == ["ORecon"] and len(obs[-1]["rows"][0]) == len(obs[-2]["rows"][0]) == 2
                       and _sequences_lost(last, obs[-2]["rows"], obs[-1]["rows"]) is None)
    ctx.obligation("witness histories of Proofs/C11Examples.v = the histories replayed on the library", ok)
    # wave 8: the histories of Proofs/C11W8Examples.v are wave8_cases(); on the library they run clean, the refused
    # steps are refused, and the dormant read-route clause (finding candidate) does fire on history 0 + a read
    try:
        src8 = core.strip_coq_comments(open(os.path.join(core.COQ, "Proofs", "C11W8Examples.v")).read())
    except OSError:
        src8 = ""
    ok8 = True
    for i, c in enumerate(wave8_cases()):
        m = re.search(r"Definition w8_history%d : list op8 :=(.*?)\.\s*\n" % i, src8, re.S)
        ok8 &= bool(m) and _norm(m.group(1)) == _norm(clist([c_op8(o) for o in c["ops"]]))
        obs = observe(c)
        ok8 &= oracle(c, obs) is None and all(not o["naive"] for o in obs)
    ctx.obligation("histories of Proofs/C11W8Examples.v = wave8_cases(), and they run on the implementation without violating the property", ok8)
    c = wave8_read_case()
    obs = observe(c)
    v = oracle(c, obs)
    d = obs[-1]["dump"]
    ctx.obligation("listed finding %s reproduces on the implementation (appended tree: a on taxon 0, read tree: a on taxon 5)" % READ_LAST_KEY,
                   bool(v and v[1] == READ_LAST_KEY and d["trees"][4][1] == [0] and d["trees"][5][1] == [5, 1]
                        and all(not o["naive"] for o in obs)))
    # replay: every refutation witness must fail on the implementation exactly at its last step
    for name, prefix, last, key in WITNESSES:
        case = {"pool": P6, "ops": EX_BASE + prefix + [last]}
        obs = observe(case)
        clean_before = all(not o["naive"] for o in obs[:-1])
        v = oracle(case, obs)
        ctx.obligation("witness %s reproduces on the implementation (%s)" % (name, key),
                       bool(clean_before and v and v[1] == key and obs[-1]["naive"]))
    case = {"pool": P6, "ops": EX_BASE + EX_HISTORY}
    obs = observe(case)
    ctx.obligation("non-vacuity history of hist_ok_example runs on the implementation without violating the property",
                   all(not o["naive"] for o in obs) and oracle(case, obs) is None)
    return ok


# the history on which a thorough run (2026-10-01, machine shared with other jobs) reported "model and implementation
# disagree, no failing input": the harness' own alarm had interrupted the NEXUS read of step 35 and the step was recorded
# with the outcome Hang (which is the modelled outcome of extend(self) only).  Model and library agree on it; it is kept
# as a fixed case (mixed case sensitivity, DataSet.read / TreeList.read NEXUS + Newick, unify, matrix migration, a matrix
# clone, += from a list) and as the subject of check_reobservation.
DIS_CASE = {"pool": ["X", "Zz", "w", "x", "y", "z", "zz"],
            "ops": [
                ["NewNs", False], ["NewNs", True], ["NewNs", False], ["NewTaxon", 0, 6], ["NewTaxon", 1, 2],
                ["NewTaxon", 1, 6], ["NewList", 2], ["MkTree", 0, [1, 1, 0]], ["NewMat", 0], ["NewDs"], ["NewNs", True],
                ["NewTaxon", 3, 1], ["NewTaxon", 3, 0], ["NewTaxon", 3, 6], ["NewList", 3], ["MkTree", 3, [5, 4, 3]],
                ["Append", 1, 1, ["SMigrate", True]], ["MkTree", 3, [4, 3, 5]], ["Append", 1, 2, ["SMigrate", True]],
                ["NewMat", 3], ["NewSeq", 1, 4], ["NewSeq", 1, 5], ["NewSeq", 1, 3], ["NewDs"],
                ["DsAdd", 1, ["ObjMat", 1], False], ["DsAdd", 1, ["ObjList", 1], False], ["NewNs", False], ["NewList", 4],
                ["Add", 2, ["SrcList", 1]], ["Extend", 2, ["SrcList", 1]], ["NewMat", 3], ["DsAdd", 0, ["ObjMat", 0], True],
                ["NewSeq", 1, 4], ["DsNewList", 0, 4], ["NewTaxon", 0, 0],
                ["DsReadTrees", 1, "Nexus", False, None, [[1, 2, 4, 0]], 33], ["NewSeq", 1, 5], ["SetRow", 0, ["KeyLabel", 6]],
                ["Insert", 1, 0, 0, ["SMigrate", False]], ["ReadList", 0, "Nexus", False, None, [[1, 4, 3], [4, 5, 2, 1]], 21],
                ["Unify", 0, 3, False], ["DsNewMat", 1, 2], ["Extend", 4, ["SrcList", 5]],
                ["ReadList", 3, "Newick", False, None, [[1, 0]], 46], ["MigrateMat", 0, 2, True], ["CopyMat", 3, "clone"],
                ["IAdd", 4, ["SrcList", 3]],
            ]}


def check_reobservation(ctx):
    """A call interrupted by the harness' alarm must be re-observed from scratch and not be reported as Hang."""
    clean = observe(DIS_CASE)
    state = {"armed": True}
    orig = World.do

    def flaky(self, op):
        r = orig(self, op)
        if state["armed"] and op[0] == "DsReadTrees":
            state["armed"] = False
            raise TimeoutError("alarm")      # what core.alarm raises, after the call has done its work
        return r
    World.do = flaky
    try:
        before = OBSERVE_STATS["reobserved"]
        again = observe(DIS_CASE)
    finally:
        World.do = orig
    ok = (again == clean and OBSERVE_STATS["reobserved"] == before + 1 and not state["armed"]
          and all(o["out"] != ["OErr", "Hang"] for o in again))
    ctx.obligation("a library call interrupted by the harness' own alarm is re-observed from scratch with a larger limit and "
                   "not reported as the outcome Hang (false alarm 'no failing input found' of a thorough run)", ok)


def fixed_cases():
    P = P6
    base = EX_BASE
    H = lambda *ops: {"pool": P, "ops": base + [list(o) for o in ops]}
    yield {"pool": P, "ops": EX_BASE + EX_HISTORY}
    for _name, prefix, last, _key in WITNESSES:
        yield {"pool": P, "ops": EX_BASE + prefix + [last]}
    for name, prefix, last in SHARED_MEMO:
        yield {"pool": P, "ops": EX_BASE + prefix + [last]}
    # copies of the trees of the case-sensitive list 2 (A / a) into fresh, empty, case-insensitive lists
    fresh = [["Append", 2, 2, M1], ["Append", 2, 3, M1], ["NewNs", False], ["NewList", 3]]
    yield H(*(fresh + [["Extend", 3, ["SrcList", 2]], ["IAdd", 3, ["SrcList", 2]]]))
    yield H(*(fresh + [["Add", 3, ["SrcList", 2]]]))
    yield H(*(fresh + [["SetSlice", 3, 0, 0, ["SrcList", 2]], ["NewNs", False], ["MkTree", 4, []], ["MigrateTree", 2, 4, True]]))
    yield H(["Append", 0, 1, ["SMigrate", True]], ["Append", 0, 2, ["SMigrate", True]], ["Append", 1, 3, ["SMigrate", True]])
    yield H(["Append", 2, 0, ["SMigrate", True]], ["Append", 2, 1, ["SAdd"]], ["Pop", 2, -1], ["Pop", 2, 0], ["Pop", 2, 0])
    yield H(["Insert", 0, -1, 1, ["SMigrate", True]], ["Insert", 0, -1, 2, ["SMigrate", False]], ["Insert", 0, -9, 3, ["SAdd"]], ["Insert", 0, 9, 0, ["SBogus"]])
    yield H(["Append", 1, 1, ["SMigrate", True]], ["Append", 2, 2, ["SMigrate", True]], ["SetSlice", 0, None, None, ["SrcList", 1]],
            ["SetSlice", 0, 0, 1, ["SrcTrees", [3, 0]]], ["SetSlice", 0, -1, None, ["SrcList", 2]], ["SetSlice", 0, 5, 2, ["SrcList", 0]])
    yield H(["Append", 1, 1, ["SMigrate", True]], ["Add", 0, ["SrcList", 1]], ["Add", 3, ["SrcTrees", [2, 3]]], ["Add", 4, ["SrcList", 4]],
            ["GetSlice", 4, 1, None], ["Extend", 5, ["SrcList", 3]], ["IAdd", 1, ["SrcTrees", [0]]])
    yield H(["ReadList", 0, "Newick", False, None, [[0, 2], [3, 1, 5]], 3], ["ReadList", 2, "Nexus", True, None, [[0, 3], [4]], 1],
            ["ReadList", 2, "Newick", False, None, [[0]], 0], ["ReadList", 0, "Newick", False, 1, [[0]], 0],
            ["NewTreeIn", 0, None, [2, 3]], ["NewTreeIn", 0, 1, []], ["SetItem", 0, 0, 1], ["SetItem", 0, 7, 2], ["Remove", 0, 1], ["Remove", 0, 1])
    yield H(["NewDs"], ["DsAdd", 0, ["ObjList", 0], False], ["DsAdd", 0, ["ObjList", 1], False], ["Append", 1, 1, ["SMigrate", True]],
            ["Append", 0, 0, ["SMigrate", True]], ["Unify", 0, None, True], ["Unify", 0, 2, False], ["DsReadFasta", 0, None, [0, 4]],
            ["DsReadTrees", 0, "Nexus", True, None, [[1, 4]], 2], ["DsNewList", 0, 0], ["DsNewMat", 0, None], ["Detach", 0], ["DsNewList", 0, None])
    for c in add_then_reconstruct_cases():
        yield c
    for c in wave7_cases():
        yield c
    yield DIS_CASE
    for c in wave8_cases():
        yield c
    yield wave8_read_case()
    yield H(["NewMat", 0], ["NewSeq", 0, 0], ["SetRow", 0, ["KeyLabel", 4]], ["SetRow", 0, ["KeyIndex", -1]], ["SetRow", 0, ["KeyTaxon", 2]],
            ["ReconstructMat", 0, True], ["ReconstructMat", 0, False], ["UpdateMat", 0], ["MigrateMat", 0, 1, False], ["MigrateMat", 0, 2, True], ["PurgeMat", 0])


def wave7_cases():
    """shallow copies followed by an operation on only one of the two objects; caller-supplied memos (explicit
    mapping to a free Taxon / to a member of another namespace; one memo handed to calls that migrate into
    different namespaces).  On EX_BASE: taxa 0 A, 1 B (ns0), 2 a, 3 C (ns1), 4 A, 5 a (case-sensitive ns2);
    tree 1 of ns1 carries a, C."""
    H = lambda *ops: {"pool": P6, "ops": EX_BASE + [list(o) for o in ops]}
    # seeded/C11-7 demo: the copy is migrated, the original must stay; then the original is unified
    yield H(["NewMat", 0], ["NewSeq", 0, 0], ["NewSeq", 0, 1], ["CopyMat", 0, "clone"], ["MigrateMat", 1, 1, True],
            ["CopyMat", 0, "copy"], ["NewDs"], ["DsAdd", 0, ["ObjMat", 0], False], ["Unify", 0, None, True],
            ["SetRow", 2, ["KeyLabel", 4]], ["ReconstructMat", 2, False], ["NewSeq", 1, 3])
    yield H(["Append", 0, 0, M1], ["CopyList", 0, "clone"], ["Pop", 3, 0], ["NewTreeIn", 0, None, [0]],
            ["ReconstructList", 3, True], ["CopyList", 0, "copy"], ["UpdateList", 4], ["Remove", 0, 0])
    # seeded/C11-8 demo, scenario 1: explicit mapping to a Taxon of the caller's choosing
    yield H(["FreeTaxon", 2], ["NewMemo", [[2, 6]]], ["AppendM", 0, 1, M1, 0], ["MkTree", 1, [3, 2]],
            ["InsertM", 0, 0, 4, M1, 0], ["MkTree", 1, [2]], ["MigrateTreeM", 5, 2, False, 0])
    # scenario 2: one memo carried across collections / namespaces
    yield H(["NewMemo", []], ["AppendM", 0, 1, M1, 0], ["MkTree", 1, [3, 2]], ["AppendM", 2, 4, M1, 0],
            ["MkTree", 1, [2, 3, 2]], ["NewNs", False], ["MigrateTreeM", 5, 3, True, 0], ["ReconstructTreeM", 5, True, 0],
            ["NewList", 1], ["MkTree", 1, [2]], ["Append", 3, 6, M1], ["MigrateListM", 3, 3, False, 0], ["ReconstructListM", 3, True, 0])
    yield H(["NewMat", 1], ["NewSeq", 0, 2], ["NewSeq", 0, 3], ["NewMemo", [[2, 1]]], ["MigrateMatM", 0, 0, True, 0],
            ["NewMemo", [[1, 4], [6, 5]]], ["ReconstructMatM", 0, True, 1], ["MigrateMatM", 0, 2, False, 1],
            ["AppendM", 0, 1, ["SAdd"], 0], ["InsertM", 0, 0, 2, ["SBogus"], 0])


def wave8_cases():
    """seeded/C11-10: two trees ADDED (namespace 0 = A B a C A a: labels twice), then migrate- and clone-style imports
    of trees carrying those labels; seeded/C11-9: refused calls (unknown strategy, misspelt keyword, foreign
    namespace argument) and the corrected retry.  On EX_BASE: tree 0 (A B of ns0), tree 1 (a C of ns1), tree 2
    (A a of the case-sensitive ns2), tree 3 (a A A of ns2); lists 0, 1, 2 in ns0, ns1, ns2."""
    H = lambda *ops: {"pool": P6, "ops": EX_BASE + [list(o) for o in ops]}
    dup = [["Append", 0, 1, ["SAdd"]], ["Append", 0, 2, ["SAdd"]],
           ["NewNs", False], ["NewTaxon", 3, 3], ["NewTaxon", 3, 2], ["NewTaxon", 3, 1], ["NewList", 3]]
    mk = lambda: ["NewTreeIn", 3, None, [6, 7, 8]]
    yield H(*(dup + [mk(), ["MkTree", 3, [7, 6]], ["Append", 0, 5, M1], ["Extend", 0, ["SrcList", 3]],
                     ["IAdd", 0, ["SrcList", 3]], ["SetSlice", 0, 1, 2, ["SrcList", 3]], ["Add", 0, ["SrcList", 3]]]))
    yield H(*(dup + [mk(), mk(), ["Add", 0, ["SrcList", 3]], ["MkTree", 3, [8, 6]], ["Insert", 0, 0, 10, M1],
                     ["MkTree", 3, [6]], ["SetItem", 0, -1, 11], ["MigrateList", 3, 0, True], ["ReconstructList", 0, True]]))
    yield H(["Append", 0, 1, ["SBogus"]], ["Append", 0, 1, M1], ["BadKw", ["Insert", 0, 0, 2, M1]], ["Insert", 0, 0, 2, M1],
            ["BadKw", ["Append", 0, 3, ["SAdd"]]], ["BadKw", ["MigrateTree", 0, 1, True]], ["MigrateTree", 0, 1, True],
            ["BadKw", ["Append", 1, 0, M1]], ["BadKw", ["ReconstructList", 0, True]], ["BadKw", ["MigrateList", 0, 2, False]],
            ["NewTreeIn", 0, 1, [0]], ["NewTreeIn", 0, 0, [0]], ["ArrayAdd", 2, 0], ["Remove", 2, 0], ["Pop", 2, 0])
    yield H(["NewMat", 0], ["NewSeq", 0, 2], ["NewSeq", 0, 0], ["NewSeq", 0, 0], ["BadKw", ["MigrateMat", 0, 1, True]],
            ["BadKw", ["ReconstructMat", 0, True]], ["MigrateMat", 0, 1, True], ["NewDs"], ["Attach", 0, 1],
            ["DsAdd", 0, ["ObjMat", 0], False], ["DsNewList", 0, 0], ["DsNewList", 0, 1], ["DsReadFasta", 0, 2, [0, 1]],
            ["DsReadFasta", 0, None, [0, 1]], ["BadKw", ["Unify", 0, None, True]], ["Unify", 0, None, True],
            ["NewMemo", []], ["BadKw", ["AppendM", 0, 1, M1, 0]], ["AppendM", 0, 1, M1, 0],
            ["BadKw", ["InsertM", 0, 0, 2, ["SBogus"], 0]], ["BadKw", ["MigrateTreeM", 2, 0, True, 0]],
            ["BadKw", ["ReconstructListM", 0, True, 0]])


def wave8_read_case():
    """the listed finding read-resolves-duplicate-label-to-last-member: namespace 0 = A B a C A a after two ADDs; a tree
    appended by label takes taxon 0 for a, a tree read from Newick takes taxon 5"""
    return {"pool": P6, "ops": EX_BASE + [["Append", 0, 1, ["SAdd"]], ["Append", 0, 2, ["SAdd"]], ["NewNs", False],
                                          ["NewTaxon", 3, 3], ["MkTree", 3, [6]], ["Append", 0, 4, M1],
                                          ["ReadList", 0, "Newick", False, None, [[3, 1]], 0]]}


def add_then_reconstruct_cases():
    """append(tree1) ; append(tree2 with equal labels, taxon_import_strategy='add') ; collection-level
    reconstruction by each of the three routes (on EX_BASE: list 0 in the case-insensitive ns0 holds A, B;
    tree 1 of ns1 carries a, C and tree 2 of the case-sensitive ns2 carries A, a)"""
    H = lambda *ops: {"pool": P6, "ops": EX_BASE + [list(o) for o in ops]}
    pre = [["Append", 0, 0, M1], ["Append", 0, 1, ["SAdd"]], ["Append", 0, 2, ["SAdd"]]]
    yield H(*(pre + [["ReconstructList", 0, True]]))
    yield H(*(pre + [["MigrateList", 0, 0, True]]))
    yield H(*(pre + [["NewDs"], ["DsAdd", 0, ["ObjList", 0], False], ["Unify", 0, 0, True]]))
    yield H(*(pre + [["NewDs"], ["DsAdd", 0, ["ObjList", 0], True], ["Unify", 0, 0, False]]))
    yield H(*(pre + [["ReconstructList", 0, False], ["MigrateList", 0, 0, False], ["ReconstructList", 0, True]]))


def exhaustive_cases():
    """every history of length <= 2 over a 48-op alphabet on top of two prepared situations"""
    import itertools
    prep = EX_BASE + [["Append", 0, 0, M1], ["Append", 1, 1, M1], ["NewMat", 2], ["NewSeq", 0, 4], ["NewDs"], ["DsAdd", 0, ["ObjList", 0], False]]
    alpha = [
        ["Append", 0, 2, M1], ["Append", 0, 3, ["SMigrate", False]], ["Append", 2, 0, ["SAdd"]], ["Append", 1, 3, ["SBogus"]],
        ["Insert", 0, -1, 2, M1], ["Insert", 1, -5, 3, ["SAdd"]], ["Extend", 0, ["SrcList", 1]], ["Extend", 2, ["SrcTrees", [2, 3]]],
        ["IAdd", 1, ["SrcList", 0]], ["IAdd", 0, ["SrcTrees", [3]]], ["Add", 0, ["SrcList", 1]], ["Add", 1, ["SrcTrees", [2]]],
        ["SetItem", 0, 0, 2], ["SetItem", 1, -1, 3], ["SetItem", 2, 0, 2], ["SetSlice", 0, None, None, ["SrcList", 1]],
        ["SetSlice", 1, 0, 1, ["SrcTrees", [2, 3]]], ["SetSlice", 0, 1, None, ["SrcList", 0]], ["GetSlice", 0, None, None], ["GetSlice", 1, 0, 1],
        ["NewTreeIn", 0, None, [2, 4]], ["NewTreeIn", 1, 0, []], ["ReadList", 0, "Newick", False, None, [[0, 3], [4, 2]], 1],
        ["ReadList", 2, "Nexus", True, None, [[3, 0, 1]], 2], ["ReadList", 2, "Newick", False, None, [[1]], 0], ["Pop", 0, -1], ["Pop", 2, 0],
        ["Remove", 1, 1], ["Remove", 0, 2], ["MigrateList", 0, 1, True], ["MigrateList", 1, 2, False], ["ReconstructList", 0, True],
        ["UpdateList", 1], ["PurgeList", 0], ["MigrateTree", 2, 0, True], ["MigrateTree", 1, 2, True], ["ReconstructTree", 3, True],
        ["UpdateTree", 0], ["PurgeTree", 3], ["ArrayAdd", 0, 0], ["SetRow", 0, ["KeyLabel", 3]], ["MigrateMat", 0, 0, True],
        ["MigrateMat", 0, 1, False], ["ReconstructMat", 0, True], ["Attach", 0, 0], ["DsAdd", 0, ["ObjList", 1], True],
        ["DsAdd", 0, ["ObjMat", 0], False], ["DsReadTrees", 0, "Newick", False, None, [[0, 4]], 1], ["DsReadFasta", 0, None, [0, 5]],
        ["Unify", 0, None, True], ["Unify", 0, 2, False], ["DsNewList", 0, 1], ["Detach", 0],
    ]
    for n in (1, 2):
        for seq in itertools.product(alpha, repeat=n):
            ops = prep[:]
            w = World(P6)
            for o in ops:
                w.step(o)
            good = True
            for o in seq:
                ops.append([x for x in o])
                w.step(o)
                w.sync()
                if w.naive():
                    break
            yield {"pool": P6, "ops": ops}


def search(ctx, budget_s):
    t0 = time.time()
    rng = random.Random(ctx.seed + 4711)
    n = 0
    first = list(wave8_cases()) + list(wave7_cases()) + list(add_then_reconstruct_cases())
    while time.time() - t0 < budget_s and n < 20000:
        case = first[n] if n < len(first) else gen_case(rng, 20, shape=(None, "dup", "copy", "refuse", "memo", "dup", None, "refuse")[n % 8])
        obs = observe(case)
        v = oracle(case, obs)
        n += 1
        if v:
            ctx.violation(v[0], {"case": case, "observed": obs[-1:]}, key=v[1])
            if ctx.violations:
                return
    ctx.notes.append("search: %d further histories through the oracle, no unlisted violation" % n)


def proof_stage_tied(ctx):
    """core.proof_stage, made robust against checks of OTHER source trees running at the same time: every
    check regenerates coq/Gen from its own REPO before it takes the build lock, so the file the shared build
    saw may be somebody else's translation.  When coq/Gen/Containers.v after the build is not the translation
    of THIS run's source, the generated file and everything that depends on it (Proofs/C11Gen*.v, Props/C11.v)
    are compiled again in a private directory against this run's translation (fail closed)."""
    import os
    try:
        from dv import gen_containers, gen_containers_copy_obj
        want = {"Containers.v": gen_containers.generate(core.REPO),
                "ContainersCopyObj.v": gen_containers_copy_obj.generate(core.REPO)}
    except Exception:
        want = None                       # proof_stage records the failed generation itself
    n_ob, n_notes = len(ctx.obligations), len(ctx.notes)
    ok = core.proof_stage(ctx, ["Props/C11.vo"], gen_needed=("Containers",))
    have = {}
    for fn in (want or {}):
        try:
            have[fn] = open(os.path.join(core.COQ, "Gen", fn)).read()
        except OSError:
            have[fn] = None
    if want is None or have == want:
        return ok
    del ctx.obligations[n_ob:]
    del ctx.notes[n_notes:]
    ctx.notes.append("coq/Gen/Containers.v / ContainersCopyObj.v was overwritten by a concurrent check of another source tree: "
                     "private build against this run's translation")
    return private_gen_build(ctx, want)


def private_gen_build(ctx, want):
    import os
    import shutil
    import tempfile
    hits = core.forbidden_scan(ctx.pid)
    ctx.obligation("no Admitted/admit/Axiom/Parameter/Conjecture/unsafe flag in coq/", not hits)
    os.makedirs("/var/tmp/dv-c11", exist_ok=True)
    d = tempfile.mkdtemp(prefix="genbuild-", dir="/var/tmp/dv-c11")
    try:
        mine = lambda sub, fn: (sub == "Gen" and fn.split(".")[0] in ("Containers", "ContainersCopyObj")) \
            or (sub == "Proofs" and fn.startswith("C11Gen")) or (sub == "Props" and fn.startswith("C11."))
        for sub in ("Gen", "Model", "Proofs", "Props"):
            os.makedirs(os.path.join(d, sub))
            src = os.path.join(core.COQ, sub)
            for fn in os.listdir(src):
                if mine(sub, fn):
                    if fn.endswith(".v") and not (sub == "Gen"):
                        shutil.copy(os.path.join(src, fn), os.path.join(d, sub, fn))
                    continue
                os.symlink(os.path.join(src, fn), os.path.join(d, sub, fn))
        for fn, text in want.items():
            with open(os.path.join(d, "Gen", fn), "w") as f:
                f.write(text)
        order = ["Gen/Containers.v", "Gen/ContainersCopyObj.v"] + ["Proofs/C11Gen%s.v" % c for c in "ABCDEFGH"] \
            + ["Proofs/C11GenCopyObj.v", "Props/C11.v"]
        good = True
        for rel in order:
            rc, out = core.sh("timeout 600 coqc -Q . DV -w none %s" % rel, cwd=d, timeout=630)
            if rc != 0:
                good = False
                ctx.notes.append("coq build failed at %s (generated code no longer equals the model): %s"
                                 % (core.failing_file(out), " ".join(out.split())[-400:]))
                ctx.build_log = out[-6000:]
                break
        ctx.obligation("make Props/C11.vo (private build against this run's coq/Gen/Containers.v)", good)
        return good and not hits
    finally:
        shutil.rmtree(d, ignore_errors=True)


def run(tier, seed, replay=None):
    ctx = core.Ctx("C11", tier, seed)
    ctx.assumptions = [
        "model coq/Model/C11Model.v is a hand transcription of the taxon bookkeeping of TreeList / TreeArray / "
        "CharacterMatrix / DataSet / Tree; tied to the source by this correspondence run and, for 33 methods, by the "
        "translator py/dv/gen_containers.py -> coq/Gen/Containers.v whose output is proved equal to the model's step "
        "(Props/C11.v gen_*); trusted there: the primitives of coq/Model/C11Prims.v and the parameter types in SPECS",
        "all namespaces are mutable; labels are ids into a finite pool and never re-assigned; str.lower is an "
        "uninterpreted function in the theorems",
        "wave 7: coq/Model/C11W7Model.v extends the history language (Base op | FreeTaxon | NewMemo | CopyMat | CopyList | "
        "8 operations with taxon_mapping_memo=<memo object>); the object-level matrix model coq/Model/C11ObjModel.v is tied "
        "to the source by the translator py/dv/gen_containers_copy_obj.py -> coq/Gen/ContainersCopyObj.v (CharacterMatrix.__copy__; "
        "trusted: coq/Model/C11ObjPrims.v) and to the value level by Props/C11.v object_level_refines_value_level; the "
        "harness observes id() classes of the storage objects to tie the value-level run to the live objects",
        "matrix cells are not modelled: the oracle follows every sequence by its (unique) content across re-keying",
        "reads: the readers are represented by their label look-up (symbol mapper: last matching member, FASTA: "
        "require_taxon) on Newick / TREES-only NEXUS / FASTA sources without numeric labels",
        "TreeList.extend(self) / `l += l` do not terminate in the library; modelled as the outcome Hang and never executed",
        "wave 8: coq/Model/C11W8Model.v adds BadKw o (the call o with the unknown keyword unify_taxa_by_labels=True); the "
        "harness issues it for append / insert (with and without memo), Tree- / TreeList- / CharacterMatrix- migrate / "
        "reconstruct (with and without memo) and DataSet.unify_taxon_namespaces only",
        "oracle clause 'first matching member' is applied to the migrate / clone / matrix routes; the Newick / NEXUS read "
        "routes take the LAST matching member in the unchanged library (model: last_match in read_refs; Props/C11.v "
        "first_match_example): listed finding %s (fires only when the namespace holds several members matching the label and "
        "the reader took the last of them; any other disagreement with require_taxon is reported under "
        "import-not-first-matching-member:<Op>)" % READ_LAST_KEY,
    ]
    if replay:
        r = json.load(open(replay))["replay"]
        case = r["case"]
        obs = observe(case)
        print("oracle:", oracle(case, obs))
        return 0
    ok = proof_stage_tied(ctx)
    if not ok:
        core.broken_proof(ctx, search)
    check_witnesses(ctx)
    check_reobservation(ctx)
    n = 400 if tier == "quick" else 6000
    cases = list(fixed_cases())
    cases += [gen_case(ctx.rng, 16 if tier == "quick" else 34, hazard=0.08 if tier == "quick" else 0.05) for _ in range(n)]
    if tier == "thorough":
        seen = set()
        for c in exhaustive_cases():
            k = core.canon(c["ops"])
            if k not in seen:
                seen.add(k)
                cases.append(c)
    for c in cases:
        for o in c["ops"]:
            ctx.count(o[0])
    core.corr_stage(ctx, cases, observe, to_coq, HEADER, "case_ok8", oracle=oracle,
                    show_fn="case_run8", nontrivial=nontrivial, search=search, shard=48 if tier == "quick" else 160,
                    sample_fn=lambda c, o: {"ops": c["ops"][-6:], "pool": c["pool"], "last": o[-1]["dump"] if o else None})
    if OBSERVE_STATS["reobserved"] > 1:     # 1 = the self-test of check_reobservation
        print("note: %d histories were re-observed after the harness' alarm interrupted a library call"
              % (OBSERVE_STATS["reobserved"] - 1))
        for _ in range(OBSERVE_STATS["reobserved"] - 1):
            ctx.count("reobserved-after-harness-alarm")
    return ctx.finish(level="proof",
                      rule="operation histories generated online against the live library (set-up of 2-3 namespaces with "
                           "overlapping / disjoint / case-variant labels, trees, lists, a matrix, a data set; then 5..16 "
                           "(quick) / 5..34 (thorough) further operations, 8% / 5% of the choices deliberately hazardous); "
                           "a fifth of the set-ups without the shared-source scenario add the history shape append(tree, migrate) ; "
                           "append(tree with equal labels, taxon_import_strategy='add') ; reconstruct_taxon_namespace(unify) / "
                           "migrate_taxon_namespace(own namespace) / DataSet.unify_taxon_namespaces(namespace of the list), after "
                           "which equal labels must sit on one Taxon over all trees of the list; "
                           "a quarter of the set-ups start with a wave-7 scenario: (copy) a filled matrix / tree list, its shallow copy "
                           "(copy.copy / clone(0)), then namespace / row / member operations on only one of the two; (memo) a "
                           "caller-owned taxon_mapping_memo (explicit mapping to a free Taxon or to a member of another namespace, "
                           "or empty) handed to append / insert / Tree-, TreeList-, CharacterMatrix-.migrate / reconstruct calls "
                           "into up to three DIFFERENT namespaces; every container, every memo and the identity classes of the "
                           "_taxon_sequence_map dicts / _trees lists are re-observed after every step; "
                           "wave 8: 14% of the set-ups build a namespace with duplicate-label members (two or three foreign trees over "
                           "the same / case-variant labels ADDED with taxon_import_strategy='add', case-sensitive sources into "
                           "case-insensitive targets included) and then mix 2-5 migrate-style imports (append / insert / []= / extend, "
                           "slice assignment of plain trees / Tree-, TreeList-, CharacterMatrix.migrate) with clone-style imports (extend / "
                           "+= / + / slice assignment from a TreeList) and reads of trees carrying those labels: every route must "
                           "resolve a label to the FIRST member matching it under the namespace's rule; 12% run refused calls (unknown "
                           "strategy string, misspelt keyword unify_taxa_by_labels on 17 entry points, foreign taxon_namespace argument "
                           "to new_tree / read / DataSet.new_tree_list / new_char_matrix / read, foreign tree to TreeArray.add_tree, "
                           "non-member remove, index out of range, taxon outside the matrix' namespace) each followed by the corrected "
                           "call: after a refused call EVERY object of the history is what it was; 4% of the eligible random calls "
                           "carry the misspelt keyword; "
                           "plus 37 fixed histories (the witnesses of the `_refuted` theorems, the non-vacuity history, the 47-step history of a former false alarm, one history per group of call sites) for the call sites named in the property; thorough adds every history of length <= 2 over a 53-op alphabet on a prepared state (cut at the first violating step); non-trivial = >= 6 steps, >= 2 "
                           "namespaces and at least one step that re-mapped or cloned a tree / matrix into a namespace; "
                           "distinct by full case content")
